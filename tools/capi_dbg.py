"""debug: explore one extern fn in-process and print paths whose heap verdict is non-empty.  usage: capi_dbg.py <fn> [max]"""
import sys, json; sys.path.insert(0, '/verif')
from mirsym import load
from vlib import sym
from props import C17, capi_common as cc
prog = load.program('/repo', '/verif/.cache')
ex = sym.make_exec(prog) if hasattr(sym, 'make_exec') else None
fn = sys.argv[1]; mx = int(sys.argv[2]) if len(sys.argv) > 2 else 5
t = {'name': fn, 'fn': fn, 'repo': '/repo'}
n = [0]
def run(e): return C17.path(e, t)
def post(e, r):
    s = C17.post(e, t, r)
    if s and (s.get('mem') or s.get('kind') != 'ok') and n[0] < mx:
        n[0] += 1
        h = e.side['heap']
        print(json.dumps({k: s.get(k) for k in ('args', 'kind', 'detail', 'mem')})[:600])
        for a in h.allocs: print('   alloc', a.id, a.kind, a.state, a.origin, h.where.get(a.id))
    return s
res, left = ex.explore(run, post=post)
print(len(res), 'paths')
