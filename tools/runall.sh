#!/bin/bash
# run every registered check once (quick tier by default) and print one line per check
cd "$(dirname "$0")/.."
TIER=${1:-quick}
for id in $(python3 -c "import json;print(' '.join(c['property_id'] for c in json.load(open('MANIFEST.json'))['checks']))"); do
  s=$(date +%s)
  out=$(./check $id --tier $TIER 2>&1 | tail -3 | cut -c1-300)
  rc=$?
  echo "$id $(( $(date +%s) - s ))s :: $(echo "$out" | tail -1)"
done
