#!/bin/bash
# usage: seedtest.sh <seed dir name> [PROP ...] -- apply a seeded change to /repo, run the checks, undo it
seed=$1; shift
props="$@"; [ -z "$props" ] && props=$(echo $seed | cut -d- -f1)
cd /repo && git apply /verif/seeded/$seed/patch.diff || { echo "apply failed $seed"; exit 9; }
for p in $props; do
  out=$(cd /verif && ./check $p 2>&1); rc=$?
  echo "SEED $seed check=$p rc=$rc $(echo "$out" | grep -c '^VIOLATION') violation line(s)"
  echo "$out" | grep -E "^(violation detail|INCONCLUSIVE|MODEL-MISMATCH)" | head -4 | cut -c1-260
done
cd /repo && git checkout -- . 
