#!/usr/bin/env python3
"""Regenerate /verif/MANIFEST.json from the table below (kept in one place so it stays valid)."""
import json, os
ROOT = os.path.dirname(os.path.dirname(os.path.abspath(__file__)))
ids = [json.loads(l)['id'] for l in open(os.path.join(ROOT, 'properties.jsonl'))]

M = 'mirsym'
CHECKS = {
 'C03': dict(engine=M, cat='model_checking', design='7 (C03), 4',
   tech='symbolic execution of the crate MIR (path-based, z3) over all byte strings up to a bound and grammar skeletons with symbolic holes; every path replayed natively',
   text='Bounded symbolic model checking of the real Zinc reader (Parser::make + parse_value as compiled to MIR): for every byte string of length <= 3 (quick) / 4 (thorough) and for 37 grammar skeletons with 2-3 fully symbolic bytes at the interesting position, plus non-EOF reader faults at every offset of three documents, z3 decides every branch; no explored path may panic, exceed the step bound (non-termination) or the call-depth bound. One solver model per path is replayed against the natively built crate and must give the same value / error / panic.',
   note='Bounds: inputs <= 4 fully symbolic bytes, skeleton holes <= 3 bytes, 40000 MIR steps and call depth 60 per path. Trusted: rustc nightly MIR printer, the mirsym interpreter and its std/chrono models (validated per path against the native build), z3. Outside: longer inputs, unbounded nesting depth (stack exhaustion at depth ~10^4 is not decided), Hayson totality (serde_json text layer), IANA zone rules (offset of named zones is an arbitrary value).'),
}
NA = {
 'C14': 'quantifies over thread interleavings on dashmap\'s sharded locks: Kani has no thread model, mirsym is sequential and dashmap is outside the MIR dump; no solver-based engine on this image reaches it (DESIGN.md section 8)',
}
checks = []
for pid in ids:
    c = CHECKS.get(pid)
    if not c: continue
    checks.append({
        'property_id': pid,
        'quick_cmd': './check %s --tier quick' % pid,
        'thorough_cmd': './check %s --tier thorough' % pid,
        'evidence_file': '/verif/evidence/%s.json' % pid,
        'replay_cmd_template': './check %s --replay {path}' % pid,
        'engine': c['engine'],
        'level_claimed': {'category': c['cat'], 'text': c['text'], 'design_ref': 'DESIGN.md section ' + c['design']},
        'level_note': c['note'],
        'technique': c['tech'],
    })
na = [{'property_id': p, 'reason': NA.get(p, 'check not built yet in this session (work in progress); see DESIGN.md section 7 for the plan')}
      for p in ids if p not in CHECKS]
m = {
 'version': 1,
 'setup_cmd': './setup.sh',
 'hooks': {'guard': 'none', 'enable': 'no source hooks: engine M reads the MIR of private items, engine K and the replay binary use public items only',
           'baseline_off_cmd': 'cd /repo && cargo test --workspace --no-fail-fast --offline', 'source_commits': [], 'add_only': True},
 'engines': [
  {'name': 'mirsym', 'path': '/verif/mirsym', 'serves_properties': [p for p in ids if CHECKS.get(p, {}).get('engine') == M],
   'kind_free_text': 'path-based symbolic executor for the MIR rustc prints for /repo (regenerated per run), z3 decides branches and property queries, std/chrono/serde are environment models; every path replayed natively through /verif/replay'},
  {'name': 'kani', 'path': '/verif/kani', 'serves_properties': [p for p in ids if CHECKS.get(p, {}).get('engine') == 'kani'],
   'kind_free_text': 'Kani 0.68 / CBMC proof harnesses in an external crate with a path dependency on /repo'},
 ],
 'checks': checks,
 'notes': 'fix: commits in /repo repair genuine defects found by the checks; see known_findings.json and DESIGN.md section 10/12',
 'not_applicable': na,
}
json.dump(m, open(os.path.join(ROOT, 'MANIFEST.json'), 'w'), indent=1)
print('checks:', [c['property_id'] for c in checks])
