#!/usr/bin/env python3
"""Regenerate /verif/MANIFEST.json from the table below (kept in one place so it stays valid)."""
import json, os
ROOT = os.path.dirname(os.path.dirname(os.path.abspath(__file__)))
ids = [json.loads(l)['id'] for l in open(os.path.join(ROOT, 'properties.jsonl'))]

M = 'mirsym'
CHECKS = {
 'C03': dict(engine=M, cat='model_checking', design='7 (C03), 4',
   tech='symbolic execution of the crate MIR (path-based, z3) over all byte strings up to a bound and grammar skeletons with symbolic holes; every path replayed natively',
   text='Bounded symbolic model checking of the real Zinc reader (Parser::make + parse_value as compiled to MIR) and, at JSON-tree level, of the Hayson visitor (objects of every _kind with each expected member absent / empty string / symbolic string / number / null / bool / list / object, both member orders): for every byte string of length <= 3 (quick) / 4 (thorough) and for 37 grammar skeletons with 2-3 fully symbolic bytes at the interesting position, plus non-EOF reader faults at every offset of three documents, z3 decides every branch; no explored path may panic, exceed the step bound (non-termination) or the call-depth bound. One solver model per path is replayed against the natively built crate and must give the same value / error / panic.',
   note='Bounds: inputs <= 4 fully symbolic bytes, skeleton holes <= 3 bytes, 40000 MIR steps and call depth 60 per path. Trusted: rustc nightly MIR printer, the mirsym interpreter and its std/chrono models (validated per path against the native build), z3. Outside: longer inputs, unbounded nesting depth (stack exhaustion at depth ~10^4 is not decided), Hayson below the tree level (serde_json text layer and its recursion limit), IANA zone rules (offset of named zones is an arbitrary value).'),
 'C09': dict(engine=M, cat='model_checking', design='7 (C09), 4',
   tech='symbolic execution of the crate MIR (path-based, z3) of Filter::try_from over all ASCII strings up to a bound and filter skeletons with symbolic holes; every path replayed natively (outcome and parse tree)',
   text='Bounded symbolic model checking of the real filter lexer/parser: every ASCII string of length <= 3 (quick) / 4 (thorough) and 29 filter skeletons (operators without operands, unbalanced/nested parentheses, paths, relations, every literal opener) with 2-3 symbolic bytes; no explored path may panic, exceed the step bound or the call-depth bound; one model per path is replayed natively and must give the same outcome and the same tree.',
   note='Bounds as stated; symbolic bytes are ASCII (the entry takes &str), non-ASCII only in concrete skeleton parts. Evaluation termination: WildcardEq is evaluated over every 3-record ref graph (cycles included) through a caller-supplied resolver and must finish within the step bound. Parenthesis depth beyond the call-depth bound (stack exhaustion at ~10^4) is not decided.'),
 'C01': dict(engine=M, cat='model_checking', design='7 (C01), 4',
   tech='two-stage symbolic execution of the crate MIR: to_zinc of a value with symbolic leaves, then Parser::parse_value over exactly those (symbolic) bytes; z3 decides whether decoded != original; witnesses replayed natively',
   text='For a catalogue of ~85 well-formed value shapes (every scalar kind, lists/dicts/grids nested in each other, grid meta, column meta, Null/missing cells, zero rows) whose leaves are symbolic - strings of <= 2 (quick) / 3 (thorough) arbitrary Unicode scalar values, short decimals, calendar fields - the encoder and then the decoder are executed symbolically from MIR and the solver is asked for a leaf assignment for which decoding fails or yields a different value. Every reported witness is re-run natively (zinc_roundtrip) and must fail there too.',
   note='Bounds: strings <= 3 code points, collections <= 2 entries, nesting <= 2, decimals <= 3 digits plus listed special floats (NaN, INF, -0, 1e21, 5e-324, f64::MAX, 2^53+1); zones UTC and Etc/GMT±N only (IANA rules outside the model); Uri values containing a backslash and the XStr type C are outside the oracle (specification ambiguity, DESIGN.md 4.5). std float printing/parsing trusted.'),
 'C10': dict(engine=M, cat='model_checking', design='7 (C10), 4',
   tech='symbolic execution of the crate MIR of the Zinc writer over well-formed and ill-formed value shapes with symbolic leaves; a feasible panic path is a violation; witnesses replayed natively',
   text='The Zinc writer (ToZinc for every kind) is executed symbolically over the C01 catalogue plus ill-formed shapes (arbitrary Unicode in Ref/Symbol/XStr type/column names, empty strings, NaN/INF with units, grids with zero columns, rows whose keys are not columns); no feasible path may end in a panic (slice, index, unwrap, overflow). One model per path is replayed natively.',
   note='Bounds as C01. Display/Hayson encoders are not part of this check yet. Unicode case mapping of a symbolic non-ASCII char is fixed to the solver\'s choice on that path (stated sampling step inside an otherwise symbolic path).'),
 'C12': dict(engine='mirsym+kani', cat='model_checking', design='7 (C12), 3, 4',
   tech='symbolic execution (z3, bit-vectors + IEEE floats) of the crate\'s eq/cmp/partial_cmp/hash/clone MIR on pairs and triples of values with symbolic leaves; Kani/CBMC proof harnesses for Coord over all f64 bit patterns; witnesses replayed natively',
   text='For every kind (18) a pair - and for 7 kinds a triple - of values with symbolic leaves (all non-NaN f64 bit patterns incl. +-0 and units none/meter/second, 1-byte strings, Ref with/without dis, symbolic calendar fields, equal instants in different zones, lists <= 2, dicts over keys {a,b,c}, grids <= 1 row) and cross-kind pairs is pushed through the real PartialEq, Ord, PartialOrd, Hash (recorded hash stream) and Clone implementations; every feasible path must satisfy reflexivity, symmetry, clone==orig, eq=>equal hash stream, cmp==Equal<=>eq, partial_cmp agrees with cmp, antisymmetry and (triples) transitivity. Kani proves the Coord laws for all 2^128 float pairs. Each path\'s witness is re-evaluated natively (same facts, same violated laws).',
   note='Bounds: strings 1 byte, collections <= 2 entries, one quarter of the 306 cross-kind pairs per quick run (seed-rotated; all in thorough). chrono\'s own Eq/Ord/Hash are modelled as instant comparison (trusted). NaN excluded as the property says.'),
 'C16': dict(engine='mirsym+kani', cat='model_checking', design='7 (C16), 3, 4',
   tech='symbolic execution (z3, IEEE floats) of Unit::convert_to and Number +/- MIR on fully symbolic units; conversion result compared as an IEEE term with the specification formula; Kani/CBMC for UnitDimensions arithmetic; witnesses replayed natively',
   text='convert_to is executed on two symbolic units (7 x i8 dimension vector or none, quantity, name, scale, offset, operand all symbolic): it must succeed exactly when the dimension vectors are equal or both are byte units, and its result term must be the term ((x*scale_a+offset_a)-offset_b)/scale_b - syntactic identity, otherwise the solver searches a differing input (narrow-float search lifted to f64, confirmed natively). Number + and -: same unit => Ok, unit kept, value = IEEE sum/difference; two different units => Err. Unit * and / reject dimensionless operands. Kani proves UnitDimensions +/- component-wise for all exponent vectors in [-8,8]^7.',
   note='Structural and formula-level only: "converting back returns the original within rounding" and the database search behind unit products/quotients (match_units over the 443 generated units) are not decided. NaN payloads: canonical quiet NaN only.'),
 'C19': dict(engine='mirsym+kani', cat='model_checking', design='7 (C19), 3, 4',
   tech='symbolic execution (z3) of the kind tables over all u8 codes and all ASCII names of length <= 8, of every is_*/TryFrom/getter on a value of each kind with symbolic payload, and of Grid::make_from_dicts over all key-membership patterns; Kani for the code table; every path replayed natively',
   text='HaystackKind::try_from(u8) for a symbolic code and try_from(&str) for symbolic names (lengths 0..8) are executed from MIR: accepted codes/names must be exactly the 18 kinds, one-to-one with From<HaystackKind> for &str and Display. For a value of each of the 18 kinds (payload symbolic) exactly the matching predicate, the matching TryFrom<&Value> conversions (returning the payload) and the matching HaystackDict getters succeed, and nothing succeeds on a missing key. Grid::make_from_dicts(_with_meta) over <= 2 (quick) / 3 (thorough) records with every membership pattern of keys {a,b,c,d}: rows kept in order, columns = sorted de-duplicated union.',
   note='Bounds as stated; HashSet iteration order is modelled as insertion order (the result is sorted afterwards). Kani: all 256 codes.'),
 'C04': dict(engine=M, cat='model_checking', design='7 (C04), 4.5',
   tech='differential symbolic execution: the crate MIR against a reference Zinc reader/writer written from the specification (/verif/spec/zinc.py) on the same symbolic values; z3 decides whether the denoted values can differ; witnesses replayed natively',
   text='Writer direction: for every well-formed catalogue shape (symbolic leaves) the text produced by the real encoder is read by the reference reader, which must accept it and obtain the original value. Reader direction: the reference writer spells the same values with every legal spelling choice as a fork (short escape vs \\uXXXX in lower/upper hex vs raw, digit separator, exponent form, unit name vs symbol, list spacing and trailing comma, dict separator, explicit :M, Z vs Z UTC, LF vs CRLF, named IANA zones with fractional offsets) and the real decoder must return the denoted value (instants compared for named zones).',
   note='Bounds as C01 (strings <= 3 code points, collections <= 2, nesting <= 2). The reference implementation is part of the trusted base (written from the Zinc chapter; ambiguities - Uri backslash, XStr type C - are outside the oracle). IANA zone rules: only the instant and the zone id are compared for named zones.'),
 'C11': dict(engine=M, cat='model_checking', design='7 (C11), 4',
   tech='three-stage symbolic execution of the crate MIR (decode symbolic text, encode the decoded value, decode again; z3 decides whether the two values can differ), reader-contract observation on every path, and byte positions of the lazy row iterator; witnesses replayed natively incl. through a chunking/interrupting reader',
   text='(a) For every byte string of length <= 3/4 and 26 skeletons with 2-3 symbolic bytes that the real decoder accepts, the decoded value (symbolic leaves) is re-encoded and decoded again from MIR; the solver is asked for bytes where the second value differs or the re-encoded text is rejected. (b) On every explored path the reader model records the calls made on it: only read_exact with a 1-byte buffer may occur (then chunk sizes and Interrupted are invisible by read_exact\'s contract); each accepted witness is additionally decoded natively through a reader that splits reads and returns Interrupted. (c) parse_grid_iterator is driven row by row over grids with symbolic cells; the bytes consumed when a row is handed out must not exceed the end of that row plus the next token plus one byte (native positions must match).',
   note='Bounds as C03. Hayson re-encode stability is not part of this check. Known finding (open): a missing cell in a one-column grid is re-encoded as an empty line. read_exact contract trusted (std).'),
 'C08': dict(engine=M, cat='model_checking', design='7 (C08), 4.5',
   tech='symbolic execution of the crate MIR: Display of a filter tree with symbolic leaves, then Filter::try_from over those bytes (print->parse), and the same parse over the text of a reference printer with forked spacing choices; z3 decides whether the trees can differ; witnesses replayed natively',
   text='45 filter tree shapes (every term kind, all six comparison operators, literals of every kind the syntax admits, paths of 1-3 segments, and/or/parentheses combinations) with symbolic names (1-3 bytes, not keywords) and symbolic literal payloads are printed by the real Display impls and parsed back by the real lexer/parser from MIR: the solver is asked for leaves where the text is rejected or the tree differs. The same trees are spelled by a reference printer written from the filter grammar with every token-separator style (space, tab, LF, CRLF, double space, nothing where legal) and must parse to the same tree.',
   note='Bounds: <= 3 terms, parentheses depth <= 2, names <= 3 bytes, literal payloads 1-2 chars/digits; one separator style per sentence for required gaps and one for optional gaps. The reference printer is trusted (written from docHaystack Filters).'),
 'C07': dict(engine=M, cat='model_checking', design='7 (C07), 4.5',
   tech='differential symbolic execution: the crate\'s Eval impls, Dict path resolver and Dict/Grid Filtered impls (MIR) against reference filter semantics written from the specification, on filter trees and records with symbolic payloads; every z3-feasible disagreement is replayed natively',
   text='Filter trees of 23 shapes (all six comparison operators on 1- and 2-segment paths with literals of five kinds, has/missing, and/or/parentheses combinations) are evaluated from MIR on records whose tags are each absent, Null, Marker, Bool, Number (any non-NaN f64, three unit choices), Str, Ref, a list or a nested dict; on 2-row grids (filter_all and single match); and WildcardEq through a caller-supplied resolver over every 3-record ref graph including cycles. The reference semantics (/verif/spec/filter_eval.py) computes the truth value the filter language defines on the same symbolic data; a feasible path where the two differ is a violation.',
   note='Bounds: <= 3 terms, paths <= 2 segments, 2 tags, 2 grid rows, 3-node ref graphs; quick tier uses a reduced tag universe for the multi-term shapes. Ordering of Numbers with different units is left open (no query). ^symbol and relationship terms are not covered (need a namespace: C13).'),
 'C02': dict(engine=M, cat='model_checking', design='7 (C02), 4.3 (serde model)',
   tech='symbolic execution of the crate MIR at the serde data-model level: Serialize impls into a model Serializer that builds a JSON tree with symbolic leaves, then the crate\'s Visitor driven by a model Deserializer over that tree (serde_json\'s number dispatch); z3 decides whether decoded != original; witnesses replayed natively through serde_json text',
   text='For the C01 catalogue of well-formed values plus numbers over every f64 class (non-integral, 32-bit integral, beyond 2^53, +-2^63, 1e19, special values, with units) the Serialize impls and the JsonValueDecoderVisitor are executed from MIR with a JSON tree in between; the solver is asked for leaves for which decoding fails or gives another value (numeric equality, zone id and instant for timestamps). Every witness is re-run natively with serde_json::to_string / from_str.',
   note='serde_json\'s text layer is trusted (model = serde data model; non-finite f64 -> null as documented). Bounds as C01. IANA rules outside the model (instant + zone id compared).'),
 'C05': dict(engine=M, cat='model_checking', design='7 (C05), 4.5',
   tech='differential symbolic execution at JSON-tree level against a reference Hayson tree builder written from the specification (/verif/spec/hayson.py): writer trees compared as formulas, reader fed the reference tree in every member order and number spelling (forks)',
   text='Writer: for every catalogue value the tree produced by the real Serialize impls must equal the reference tree (object members as sets, numbers as reals). Reader: the reference tree is spelled with every permutation of the members of each object (<= 4 members), integral numbers as integer or float (incl. integers up to 2^64), and must decode to the value. Witnesses are replayed natively (serde_json::to_value / from_str of the rendered tree).',
   note='Symbolic integral numbers are excluded from the writer comparison (int<->float cast reasoning does not finish in z3; covered by C02). JSON text level trusted. The reference trees are part of the trusted base.'),
 'C06': dict(engine=M, cat='model_checking', design='7 (C06), 4.3 (chrono model)',
   tech='symbolic execution of the crate MIR (RFC 3339 constructors, zone mapping, Zinc explicit-offset arithmetic, short names) over symbolic offset and fraction digits with a chrono model (civil calendar arithmetic, RFC 3339 grammar, fixed offsets); the resulting instant is an integer term compared by z3 with the instant the text denotes; witnesses replayed natively',
   text='PARTIAL. For every offset text +-hh:mm (4 symbolic digits) DateTime::parse_from_rfc3339 and parse_from_rfc3339_with_timezone (several zones) must either reject the string or return exactly the instant it denotes and the requested zone; the Zinc reader must do the same for every valid explicit offset followed by a zone name; 1-9 symbolic fraction digits must survive decoding; timezone_short_name must be the part after the first / for 1-, 2- and 3-segment zone ids. Instants are checked natively on each witness.',
   note='NOT decided: "both sides of every daylight-saving transition" and the exhaustive IANA zone list - chrono-tz rule tables are outside the MIR dump and not encoded; named zones are treated as an opaque offset with the instant carried explicitly. Round trips of timestamps through the codecs are in C01/C02/C04.'),
}
NA = {
 'C14': 'quantifies over thread interleavings on dashmap\'s sharded locks: Kani has no thread model, mirsym is sequential and dashmap is outside the MIR dump; no solver-based engine on this image reaches it (DESIGN.md section 8)',
}
checks = []
for pid in ids:
    c = CHECKS.get(pid)
    if not c: continue
    checks.append({
        'property_id': pid,
        'quick_cmd': './check %s --tier quick' % pid,
        'thorough_cmd': './check %s --tier thorough' % pid,
        'evidence_file': '/verif/evidence/%s.json' % pid,
        'replay_cmd_template': './check %s --replay {path}' % pid,
        'engine': c['engine'],
        'level_claimed': {'category': c['cat'], 'text': c['text'], 'design_ref': 'DESIGN.md section ' + c['design']},
        'level_note': c['note'],
        'technique': c['tech'],
    })
na = [{'property_id': p, 'reason': NA.get(p, 'check not built yet in this session (work in progress); see DESIGN.md section 7 for the plan')}
      for p in ids if p not in CHECKS]
m = {
 'version': 1,
 'setup_cmd': './setup.sh',
 'hooks': {'guard': 'none', 'enable': 'no source hooks: engine M reads the MIR of private items, engine K and the replay binary use public items only',
           'baseline_off_cmd': 'cd /repo && cargo test --workspace --no-fail-fast --offline', 'source_commits': [], 'add_only': True},
 'engines': [
  {'name': 'mirsym', 'path': '/verif/mirsym', 'serves_properties': [p for p in ids if CHECKS.get(p, {}).get('engine', '').startswith(M)],
   'kind_free_text': 'path-based symbolic executor for the MIR rustc prints for /repo (regenerated per run), z3 decides branches and property queries, std/chrono/serde are environment models; every path replayed natively through /verif/replay'},
  {'name': 'kani', 'path': '/verif/kani', 'serves_properties': [p for p in ids if 'kani' in CHECKS.get(p, {}).get('engine', '')],
   'kind_free_text': 'Kani 0.68 / CBMC proof harnesses in an external crate with a path dependency on /repo'},
 ],
 'checks': checks,
 'notes': 'fix: commits in /repo repair genuine defects found by the checks; see known_findings.json and DESIGN.md section 10/12',
 'not_applicable': na,
}
json.dump(m, open(os.path.join(ROOT, 'MANIFEST.json'), 'w'), indent=1)
print('checks:', [c['property_id'] for c in checks])
