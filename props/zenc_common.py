"""Zinc encoder-side harness shared by C01 (round trip), C10 (encoders never panic), C04-writer and C11:
a catalogue of value shapes with symbolic leaves -> to_zinc (MIR) -> bytes -> Parser::parse_value (MIR)."""
import z3
from mirsym import zinc
from mirsym.hv import HV, sym_eq
from mirsym.values import *
from mirsym.vj import Concretizer, norm_native
from mirsym.engine import conc_value, F64
from mirsym.models_coll import encode_utf8
from mirsym.models import deref

ID_REST = [(48, 57), (65, 90), (97, 122), (95, 95)]
REF_CHARS = ID_REST + [(58, 58), (45, 46), (126, 126)]


def in_ranges(v, rs):
    return z3.Or([z3.And(z3.UGE(v, lo), z3.ULE(v, hi)) if lo != hi else v == lo for lo, hi in rs])


class Leaves:
    """fresh symbolic leaves for one path; remembers them so the model can be turned into a concrete value"""
    def __init__(s, ex): s.ex = ex; s.n = 0

    def cp(s, lo=0, hi=0x10FFFF, name='c'):
        v = z3.BitVec('%s%d' % (name, s.n), 32); s.n += 1
        s.ex.assume(z3.And(z3.UGE(v, lo), z3.ULE(v, hi), z3.Or(z3.ULT(v, 0xD800), z3.UGT(v, 0xDFFF))))
        return v

    def text(s, k, lo=0, hi=0x10FFFF):
        """k symbolic code points -> utf-8 bytes (forks on each width class)"""
        out = []
        for _ in range(k): out += encode_utf8(s.ex, s.cp(lo, hi))
        return out

    def byte(s, ranges, name='y'):
        v = z3.BitVec('%s%d' % (name, s.n), 8); s.n += 1
        s.ex.assume(in_ranges(v, ranges)); return v

    def ident(s, k, first=((97, 122),), rest=ID_REST):
        return [s.byte(list(first) if i == 0 else rest) for i in range(k)]

    def f64(s, name='f'):
        v = z3.FP('%s%d' % (name, s.n), F64); s.n += 1; return v

    def boolean(s):
        v = z3.Bool('q%d' % s.n); s.n += 1; return v


# --------------------------------------------------------------------------- the catalogue
def shapes(quick):
    L = 2 if quick else 3
    S = {}

    def reg(name, fn, wf=True): S[name] = (fn, wf)
    for k in range(0, L + 1):
        reg('str%d' % k, lambda h, l, k=k: h.str_(l.text(k)))
        reg('uri%d' % k, lambda h, l, k=k: h.uri(uri_text(l, k)))
        reg('uri-ctl%d' % k, lambda h, l, k=k: h.uri(l.text(k)), wf=False) if k else None
        reg('xstr-v%d' % k, lambda h, l, k=k: h.xstr(list(b'Bin'), l.text(k)))
        reg('refdis%d' % k, lambda h, l, k=k: h.ref(list(b'a1'), l.text(k)))
    for k in range(1, L + 1):
        reg('ref%d' % k, lambda h, l, k=k: h.ref(l.ident(k, first=REF_CHARS, rest=REF_CHARS)))
        reg('sym%d' % k, lambda h, l, k=k: h.sym(l.ident(k, first=((97, 122),), rest=REF_CHARS)))
        reg('xstr-t%d' % k, lambda h, l, k=k: h.xstr(xstr_type(h.ex, l, k), list(b'v')))
    # ill-formed strings in every position (C10 only)
    for k in range(0, 3):
        reg('bad-ref%d' % k, lambda h, l, k=k: h.ref(l.text(k), l.text(1) if k == 1 else None), wf=False)
        reg('bad-sym%d' % k, lambda h, l, k=k: h.sym(l.text(k)), wf=False)
        reg('bad-xstr%d' % k, lambda h, l, k=k: h.xstr(l.text(k), l.text(1) if k < 2 else list(b'v')), wf=False)
    # XStr type names whose first character upper-cases to several characters (ill-formed type names, C10)
    for i_, tn in enumerate(['\u0390x', '\u1f80', '\u00dfy', '\ufb01']):
        reg('bad-xstr-case%d' % i_, lambda h, l, tn=tn: h.xstr(list(tn.encode('utf-8')), list(b'v')), wf=False)
    reg('bool', lambda h, l: h.bool_(l.boolean()))
    for nm, fn in (('null', 'null'), ('marker', 'marker'), ('remove', 'remove'), ('na', 'na')):
        reg(nm, lambda h, l, fn=fn: getattr(h, fn)())
    # numbers: special values concretely, short decimals symbolically (sign, 1-2 integer digits, 0-1 fraction digits)
    for nm, v in (('nan', float('nan')), ('inf', float('inf')), ('ninf', float('-inf')), ('zero', 0.0), ('nzero', -0.0),
                  ('big', 1e21), ('tiny', 5e-324), ('frac', 0.1), ('max', 1.7976931348623157e308), ('int53', 9007199254740993.0),
                  ('2p63', 9223372036854775808.0), ('m2p63', -9223372036854775808.0), ('2p64', 18446744073709551616.0), ('2p53', 9007199254740992.0)):
        reg('num-' + nm, lambda h, l, v=v: h.num(v))
    # values whose scientific spelling has a non-trivial mantissa, a negative or an extreme exponent (reader direction of C04)
    for nm, v in (('sci-a', 1.1e-5), ('sci-b', 3e-5), ('sci-c', 1.2345e-7), ('sci-d', 2.2250738585072014e-308), ('sci-e', 1e-320),
                  ('sci-f', 123456.789), ('sci-g', 0.30000000000000004)):
        reg('num-' + nm, lambda h, l, v=v: h.num(v))
    reg('num-sci-unit', lambda h, l: h.num(0.000987, 'kilowatt'))
    for u in ('percent', 'us_dollar', 'fahrenheit', 'square_meter', 'kilowatt_hour', 'meters_per_second'):
        reg('num-unit-' + u, lambda h, l, u=u: h.num(dec_float(h.ex, l, 1, 1), u))
    # magnitudes at which a writer might switch notation, with a unit
    reg('num-1e7-unit', lambda h, l: h.num(1e7, 'kilowatt_hour'))
    reg('num-2.5e10-unit', lambda h, l: h.num(2.5e10, 'percent'))
    reg('num-5e-4-unit', lambda h, l: h.num(5e-4, 'meter'))
    reg('num-1e21-unit', lambda h, l: h.num(1e21, 'us_dollar'))
    reg('num-nan-unit', lambda h, l: h.num(float('nan'), 'meter'), wf=False)
    reg('num-inf-unit', lambda h, l: h.num(float('inf'), 'meter'), wf=False)
    reg('num-dec11', lambda h, l: h.num(dec_float(h.ex, l, 1, 1)))
    reg('num-dec20', lambda h, l: h.num(dec_float(h.ex, l, 2, 0)))
    reg('coord', lambda h, l: h.coord(dec_float(h.ex, l, 2, 1), dec_float(h.ex, l, 2, 1)))
    reg('date', lambda h, l: h.date(*sym_date(h.ex, l)))
    reg('time', lambda h, l: h.time(*sym_time(h.ex, l)))
    reg('time-ms', lambda h, l: h.time(12, 30, 45, 120000000))
    reg('time-ns', lambda h, l: h.time(12, 30, 45, 123456789))
    reg('dt-utc', lambda h, l: h.dt(*(sym_date(h.ex, l) + sym_time(h.ex, l) + (0, 'UTC'))))
    for n in ((-12, 'Etc/GMT+12'), (-5, 'Etc/GMT+5'), (1, 'Etc/GMT-1'), (10, 'Etc/GMT-10'), (14, 'Etc/GMT-14')):
        reg('dt-gmt%d' % n[0], lambda h, l, n=n: h.dt(2021, 3, 4, 5, 6, 7, 0, n[0] * 3600, n[1]))
    reg('dt-frac', lambda h, l: h.dt(2021, 3, 4, 5, 6, 7, 123000000, 0, 'UTC'))
    # named IANA zones (offset valid at that instant; the zone rules themselves are outside the model: the instant is compared)
    reg('dt-kolkata', lambda h, l: h.dt(2021, 6, 15, 12, 0, 0, 0, 19800, 'Asia/Kolkata'))
    reg('dt-stjohns', lambda h, l: h.dt(2021, 1, 15, 12, 0, 0, 0, -12600, 'America/St_Johns'))
    reg('dt-newyork', lambda h, l: h.dt(2021, 1, 15, 23, 59, 59, 0, -18000, 'America/New_York'))
    reg('dt-kathmandu', lambda h, l: h.dt(2021, 1, 15, 0, 0, 1, 0, 20700, 'Asia/Kathmandu'))
    reg('dt-london-winter', lambda h, l: h.dt(2021, 1, 15, 12, 0, 0, 0, 0, 'Europe/London'))
    reg('dt-reykjavik', lambda h, l: h.dt(2021, 7, 15, 12, 0, 0, 0, 0, 'Atlantic/Reykjavik'))
    # sub-second parts away from UTC (positive / negative offsets, milli / micro / nano digits)
    reg('dt-kolkata-frac', lambda h, l: h.dt(2021, 6, 15, 13, 45, 10, 250000000, 19800, 'Asia/Kolkata'))
    reg('dt-gmt-5-ns', lambda h, l: h.dt(2021, 3, 4, 5, 6, 7, 123456789, -5 * 3600, 'Etc/GMT+5'))
    reg('dt-stjohns-ms', lambda h, l: h.dt(2021, 1, 15, 12, 0, 0, 5000000, -12600, 'America/St_Johns'))
    reg('dt-utc-ns', lambda h, l: h.dt(2021, 3, 4, 5, 6, 7, 1, 0, 'UTC'))
    # zone ids without an area prefix
    reg('dt-japan', lambda h, l: h.dt(2021, 1, 15, 12, 0, 0, 0, 32400, 'Japan'))
    reg('dt-singapore', lambda h, l: h.dt(2021, 1, 15, 12, 0, 0, 0, 28800, 'Singapore'))
    reg('dt-knox', lambda h, l: h.dt(2021, 1, 15, 12, 0, 0, 0, -21600, 'America/Indiana/Knox'))
    reg('dt-buenos-aires', lambda h, l: h.dt(2021, 1, 15, 12, 0, 0, 0, -10800, 'America/Argentina/Buenos_Aires'))
    # collections
    leaf = lambda h, l: h.str_(l.text(1))
    reg('list0', lambda h, l: h.list_([]))
    reg('list1', lambda h, l: h.list_([leaf(h, l)]))
    reg('list2', lambda h, l: h.list_([h.num(1.0), leaf(h, l)]))
    reg('list-null', lambda h, l: h.list_([h.null(), h.marker()]))
    reg('dict0', lambda h, l: h.dict_([]))
    reg('dict1', lambda h, l: h.dict_([(b'a', leaf(h, l))]))
    reg('dict2', lambda h, l: h.dict_([(b'a', h.marker()), (b'b', leaf(h, l))]))
    reg('dict-null', lambda h, l: h.dict_([(b'a', h.null()), (b'b', h.remove())]))
    reg('list-list', lambda h, l: h.list_([h.list_([leaf(h, l)]), h.dict_([(b'a', h.marker())])]))
    reg('dict-dict', lambda h, l: h.dict_([(b'a', h.dict_([(b'b', leaf(h, l))])), (b'c', h.list_([h.num(1.0)]))]))
    reg('grid-1x1', lambda h, l: h.grid(None, [(b'a', None)], [[(b'a', leaf(h, l))]]))
    reg('grid-2x2', lambda h, l: h.grid(None, [(b'a', None), (b'b', None)], [[(b'a', h.num(1.0)), (b'b', leaf(h, l))], [(b'b', h.marker())]]))
    # column order is part of the value: columns not in name order
    reg('grid-cols-unsorted', lambda h, l: h.grid(None, [(b'id', None), (b'dis', None), (b'zeta', None), (b'area', None)], [[(b'id', h.ref(list(b'r1'))), (b'dis', leaf(h, l)), (b'area', h.num(1.0))]]))
    reg('grid-null-cells', lambda h, l: h.grid(None, [(b'a', None), (b'b', None)], [[(b'a', h.null())], []]))
    reg('grid-meta', lambda h, l: h.grid([(b'm', leaf(h, l))], [(b'a', None)], [[(b'a', h.num(1.0))]]))
    reg('grid-meta-marker', lambda h, l: h.grid([(b'm', h.marker()), (b'n', h.num(2.0))], [(b'a', None)], [[(b'a', h.num(1.0))]]))
    reg('grid-colmeta', lambda h, l: h.grid(None, [(b'a', [(b'dis', leaf(h, l))]), (b'b', None)], [[(b'a', h.num(1.0))]]))
    reg('grid-colmeta-last', lambda h, l: h.grid(None, [(b'a', None), (b'b', [(b'x', h.marker())])], [[(b'a', h.num(1.0))]]))
    reg('grid-0rows', lambda h, l: h.grid(None, [(b'a', None), (b'b', None)], []))
    reg('grid-0rows-meta', lambda h, l: h.grid([(b'm', h.marker())], [(b'a', None)], []))
    reg('grid-in-list', lambda h, l: h.list_([h.grid(None, [(b'a', None)], [[(b'a', leaf(h, l))]])]))
    reg('grid-in-dict', lambda h, l: h.dict_([(b'g', h.grid(None, [(b'a', None)], [[(b'a', h.num(1.0))]]))]))
    reg('grid-in-grid', lambda h, l: h.grid(None, [(b'a', None)], [[(b'a', h.grid(None, [(b'b', None)], [[(b'b', leaf(h, l))]]))]]))
    reg('list-in-grid', lambda h, l: h.grid(None, [(b'a', None)], [[(b'a', h.list_([h.num(1.0), leaf(h, l)]))]]))
    reg('dict-in-grid', lambda h, l: h.grid(None, [(b'a', None)], [[(b'a', h.dict_([(b'k', leaf(h, l))]))]]))
    # ill-formed collections (C10 only)
    reg('grid-0cols', lambda h, l: h.grid(None, [], []), wf=False)
    reg('grid-0cols-rows', lambda h, l: h.grid(None, [], [[(b'a', h.num(1.0))]]), wf=False)
    reg('grid-row-not-col', lambda h, l: h.grid(None, [(b'a', None)], [[(b'z', h.num(1.0))]]), wf=False)
    reg('grid-row-extra-tag', lambda h, l: h.grid(None, [(b'a', None)], [[(b'a', h.num(1.0)), (b'b', leaf(h, l))]]), wf=False)
    reg('grid-row-extra-tag-in-list', lambda h, l: h.list_([h.grid(None, [(b'a', None)], [[(b'a', h.num(1.0)), (b'b', h.marker())]])]), wf=False)
    reg('grid-row-extra-tag-in-dict', lambda h, l: h.dict_([(b'g', h.grid(None, [(b'a', None)], [[(b'a', h.num(1.0)), (b'b', h.marker())]]))]), wf=False)
    reg('grid-col-extra', lambda h, l: h.grid(None, [(b'a', None), (b'b', None), (b'c', None)], [[(b'b', h.num(1.0))]]), wf=False)
    reg('grid-dup-cols', lambda h, l: h.grid(None, [(b'a', None), (b'a', None)], [[(b'a', h.num(1.0))]]), wf=False)
    reg('grid-bad-colname', lambda h, l: h.grid(None, [(tuple(l.text(1)), None)], []), wf=False)
    reg('dict-bad-key', lambda h, l: h.dict_([(b'', h.num(1.0)), ('é'.encode(), h.marker())]), wf=False)
    S.pop(None, None)
    return S


def uri_text(l, k):
    """well-formed Uri text: no control chars, and no backslash: how a backslash inside a Uri value maps to Zinc is left
    open by the specification (the reference reader keeps `\\:`-style escapes verbatim), so it is outside the oracle"""
    out = []
    for _ in range(k):
        c = l.cp(0x20); l.ex.assume(c != 0x5c); out += encode_utf8(l.ex, c)
    return out


def xstr_type(ex, l, k):
    """capitalised identifier other than `C` (which the Zinc grammar reserves for Coord literals)"""
    t = l.ident(k, first=((65, 90),))
    if k == 1: ex.assume(t[0] != 67)
    return t


def dec_float(ex, l, ni, nf):
    """symbolic short decimal: optional '-', ni integer digits, nf fraction digits, as an f64 with text provenance"""
    from mirsym.models_num import parse_f64_bytes
    digs = [l.byte([(48, 57)], 'd') for _ in range(ni + nf)]
    neg = ex.pick(2) == 1
    items = ([45] if neg else []) + digs[:ni] + ([46] + digs[ni:] if nf else [])
    return parse_f64_bytes(ex, items)


def sym_date(ex, l):
    """calendar date from symbolic decimal digits (so that text <-> value is syntactic): years 0000-9999"""
    from mirsym.models_chrono import valid_ymd, dval
    ds = [l.byte([(48, 57)], 'dg') for _ in range(8)]
    y, m, d = dval(ds[0:4]), dval(ds[4:6]), dval(ds[6:8])
    ex.assume(valid_ymd(y, m, d))
    return (y, m, d)


def sym_time(ex, l):
    from mirsym.models_chrono import dval
    ds = [l.byte([(48, 57)], 'dg') for _ in range(6)]
    h, mi, s = dval(ds[0:2]), dval(ds[2:4]), dval(ds[4:6])
    ex.assume(z3.And(z3.ULE(h, 23), z3.ULE(mi, 59), z3.ULE(s, 59)))
    return (h, mi, s, 0)


def templates(quick, only_wf=False):
    T = []
    for name, (fn, wf) in shapes(quick).items():
        if only_wf and not wf: continue
        T.append({'name': name, 'wf': wf})
    return T


_SHAPES = {}


def build(ex, t, quick):
    key = quick
    if key not in _SHAPES: _SHAPES[key] = shapes(quick)
    fn, wf = _SHAPES[key][t['name']]
    h = HV(ex); l = Leaves(ex)
    return fn(h, l)


def encode(ex, v):
    """<Value as ToZinc>::to_zinc(&v, &mut Vec<u8>) -> (Result, sink VecV)"""
    b = ex.prog.find_method(v.ty, 'ToZinc', 'to_zinc')
    sink = VecV([], 'vec')
    r = ex.call_body(b, [Ptr(Cell(v)), Ptr(Cell(sink))])
    return r, sink


def run_roundtrip(ex, t, quick):
    v = build(ex, t, quick)
    ex.side['orig'] = v
    st = {'stage': 'encode'}
    ex.side['st'] = st
    r, sink = encode(ex, v)
    st['enc'] = r; st['text'] = sink.items
    if r.variant != 0: return st
    st['stage'] = 'decode'
    d, rd = zinc.parse_value(ex, list(sink.items))
    st['dec'] = d; st['stage'] = 'done'
    return st


def norm_grid_meta(j):
    """absent meta == empty meta (C02 wording; harmless for Zinc)"""
    if isinstance(j, dict):
        j = {k: norm_grid_meta(v) for k, v in j.items()}
        if j.get('t') == 'grid' and j.get('meta') == []: j['meta'] = None
        return j
    if isinstance(j, list): return [norm_grid_meta(x) for x in j]
    return j


def post_roundtrip(ex, t, r):
    """summary of one path: stage reached, mirsym's prediction for one witness, the violation class (if any)"""
    if r.kind == 'unsupported': return {'kind': 'unsupported', 'detail': r.detail, 'where': r.where}
    st = ex.side.get('st') or {}
    s = {'kind': r.kind, 'detail': r.detail, 'where': r.where, 'stage': st.get('stage'), 'wf': t['wf']}
    viol = None; cond = None
    if r.kind == 'panic':
        viol = 'panic-in-' + str(st.get('stage'))
    elif r.kind == 'bound':
        viol = 'nonterm-in-' + str(st.get('stage'))
    else:
        st = r.value
        if st['enc'].variant != 0: viol = 'encode-error'
        elif st['dec'].variant != 0: viol = 'decode-error'
        else:
            eq = sym_eq(ex, ex.side['orig'], st['dec'].fields[0])
            if eq is False: viol = 'value-differs'
            elif eq is not True:
                m = ex.sat(z3.Not(eq))
                if m is not None:
                    viol = 'value-differs'; cond = z3.Not(eq)
    try:
        if cond is not None: ex.assume(cond)
        m = ex.model()
    except Infeasible:
        return None
    cz = Concretizer(ex, m)
    try:
        s['orig'] = cz.value(ex.side['orig'])
    except Unsupported as u:
        return {'kind': 'unsupported', 'detail': 'concretize: %s' % u, 'where': None}
    if ex.side.get('axiomatised_floats'): s['float_axiom'] = True
    if ex.side.get('named_zone'): s['zone_axiom'] = True
    s['native_case'] = {'api': 'zinc_roundtrip', 'v': s['orig']}
    if st.get('text') is not None and st.get('stage') != 'encode':
        s['text'] = cz.bytes_(VecV(list(st['text']), 'vec')).hex()
    if r.kind == 'ok' and st['enc'].variant == 0 and st['dec'].variant == 0:
        try: s['decoded'] = cz.value(st['dec'].fields[0])
        except Unsupported as u: s['decoded_unsupported'] = str(u)
    s['viol'] = viol
    return s


def compare_roundtrip(s):
    """native agreement with mirsym's prediction for the witness (encoding validation) -> None or text"""
    n = s.get('native')
    if n is None: return None
    if s['kind'] == 'panic':
        return None if ('panic' in n or 'abort' in n) else 'mirsym: panic in %s (%s), native: %s' % (s.get('stage'), s.get('detail'), str(n)[:160])
    if s['kind'] == 'bound':
        return None if ('hang' in n or 'abort' in n) else 'mirsym: bound, native: %s' % str(n)[:160]
    if 'panic' in n or 'hang' in n or 'abort' in n: return 'mirsym: no panic, native: %s' % str(n)[:160]
    if s.get('viol') == 'encode-error': return None if 'enc_err' in n else 'mirsym: encode error, native: %s' % str(n)[:160]
    if 'enc_err' in n: return 'mirsym: encoded, native: %s' % str(n)[:160]
    if s.get('text') is not None and n.get('text') != s['text']:
        if not s.get('float_axiom'):
            return 'text differs: mirsym %r native %r' % (bytes.fromhex(s['text']), bytes.fromhex(n.get('text', '')))
    if s.get('viol') == 'decode-error': return None if 'err' in n else 'mirsym: decode error, native: %s' % str(n)[:160]
    if 'err' in n: return 'mirsym: decoded, native: %s' % str(n)[:200]
    if 'decoded' in s and not s.get('float_axiom'):
        nv = norm_native(n['ok'])
        if s.get('zone_axiom'):
            from props.zinc_common import strip_dt
            if strip_dt(nv) == strip_dt(s['decoded']): return None
        if nv != s['decoded']: return 'decoded value differs: mirsym %s native %s' % (str(s['decoded'])[:200], str(nv)[:200])
    return None


def diff_path(a, b, p=''):
    """first differing location between two canonical JSON values"""
    if type(a) != type(b): return p or '.'
    if isinstance(a, dict):
        for k in sorted(set(a) | set(b)):
            if a.get(k) != b.get(k):
                if k == 't': return p + '.kind'
                return diff_path(a.get(k), b.get(k), p + '.' + k)
        return None
    if isinstance(a, list):
        if len(a) != len(b): return p + '.len'
        for i, (x, y) in enumerate(zip(a, b)):
            if x != y: return diff_path(x, y, p + '[]')
        return None
    return None if a == b else (p or '.')


def witness_class(hexs):
    """coarse class of the characters of a string witness (for finding keys)"""
    try: t = bytes.fromhex(hexs).decode('utf-8', 'replace')
    except Exception: return 'raw'
    cl = set()
    for ch in t:
        o = ord(ch)
        if o < 0x20: cl.add('ctl')
        elif ch == '"': cl.add('quote')
        elif ch == '\\': cl.add('backslash')
        elif ch == '$': cl.add('dollar')
        elif ch == '`': cl.add('backtick')
        elif o == 0x7f: cl.add('del')
        elif o >= 0x10000: cl.add('astral')
        elif o >= 0x80: cl.add('nonascii')
    return '+'.join(sorted(cl)) or 'plain'


def strings_in(j, out=None):
    out = [] if out is None else out
    if isinstance(j, dict):
        for k, v in j.items():
            if k in ('v', 'dis', 'ty') and isinstance(v, str): out.append(v)
            else: strings_in(v, out)
    elif isinstance(j, list):
        for x in j: strings_in(x, out)
    return out
