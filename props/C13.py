"""C13 Def namespace queries agree with the subtype graph.
Engine M: Namespace::make over a defs grid whose def names and `is` entries are SYMBOLIC bytes (the solver decides which
names coincide, i.e. the shape of the graph: chains, diamonds, multiple inheritance, undefined supertypes, duplicate defs),
then every taxonomy query for a symbolic symbol, reflect() of a record and the `^symbol` filter term, all from MIR.
The answers are compared with the closure of the graph computed by a reference (below) on each path's witness; each path is
replayed natively (replay api "ns_query")."""
import collections, json, os
import z3
from mirsym import load
from mirsym.values import *
from mirsym.hv import HV
from mirsym.models import some, none, deref, items_of, string_of, str_ref, conc_bytes
from mirsym.vj import Concretizer
from vlib import sym, native
from props.zenc_common import Leaves

ALPHA = (0x61, 0x66)     # names are one byte from a..f


def templates(ctx):
    T = []
    n = 3 if ctx.quick() else 4
    # taxonomy: n defs, each with 0..2 `is` entries (symbolic bytes)
    for shape in ([(0, 1, 1), (0, 1, 2), (0, 2, 1), (1, 1, 1)] if ctx.quick() else [(0, 1, 1), (0, 1, 2), (0, 2, 1), (1, 1, 1), (0, 2, 2), (1, 2, 2), (0, 1, 1, 1)]):
        T.append({'name': 'tax-' + ''.join(map(str, shape)), 'mode': 'tax', 'is': list(shape)})
    # reflection: fixed taxonomy with a conjunct, record over defined / undefined tags as marker or non-marker
    T.append({'name': 'reflect', 'mode': 'reflect'})
    # the four kind shortcuts (fits_marker / fits_val / fits_choice / fits_entity) on a fixed taxonomy with chains of length 0..3
    T.append({'name': 'fits-kind', 'mode': 'fitskind'})
    return T


def sym_val(h, bs): return h.sym(list(bs))


FITS_KIND_DEFS = [(b'marker', []), (b'val', []), (b'choice', [b'marker']), (b'entity', [b'marker']), (b'color', [b'choice']), (b'red', [b'color']),
                  (b'crimson', [b'red']), (b'site', [b'entity']), (b'number', [b'val']), (b'temp', [b'number', b'marker']), (b'loose', [])]
KINDS4 = ['marker', 'val', 'choice', 'entity']


def build_defs(ex, h, l, t):
    """-> (grid value, description for the reference: [(name bytes, [is names])])"""
    rows = []; desc = []
    if t['mode'] == 'tax':
        names = []
        for i, k in enumerate(t['is']):
            nm = l.byte([ALPHA]); names.append(nm)
            sup = [l.byte([ALPHA]) for _ in range(k)]
            # acyclic taxonomies: a supertype's name is smaller than the def's own name
            for s_ in sup: ex.assume(z3.ULT(s_, nm))
            pairs = [(b'def', sym_val(h, [nm]))]
            if k: pairs.append((b'is', h.list_([sym_val(h, [s_]) for s_ in sup])))
            rows.append(pairs); desc.append(([nm], [[s_] for s_ in sup]))
    elif t['mode'] == 'fitskind':
        base = FITS_KIND_DEFS
        for nm, sup in base:
            pairs = [(b'def', sym_val(h, nm))]
            if sup: pairs.append((b'is', h.list_([sym_val(h, s_) for s_ in sup])))
            rows.append(pairs); desc.append((list(nm), [list(s_) for s_ in sup]))
    else:
        # marker <- a, b ; a-b conjunct (is a) ; entity-like root e ; c is e ; d undefined
        base = [(b'm', []), (b'a', [b'm']), (b'b', [b'm']), (b'a-b', [b'a']), (b'e', []), (b'c', [b'e', b'm'])]
        for nm, sup in base:
            pairs = [(b'def', sym_val(h, nm))]
            if sup: pairs.append((b'is', h.list_([sym_val(h, s_) for s_ in sup])))
            rows.append(pairs); desc.append((list(nm), [list(s_) for s_ in sup]))
    g = h.grid(None, [(b'def', None), (b'is', None)], rows)
    return g, desc


def path(ex, t):
    h = HV(ex); l = Leaves(ex); prog = ex.prog
    st = {'stage': 'build'}; ex.side['st'] = st
    g, desc = build_defs(ex, h, l, t)
    st['defs'] = g; st['desc'] = desc
    gp = g.fields[0]
    while isinstance(gp, Ptr): gp = ex.load(gp)
    make = prog.find_method('haystack::defs::namespace::Namespace', None, 'make')
    st['stage'] = 'make'
    ns = ex.call_body(make, [gp])
    nsp = Ptr(Cell(ns))
    if t['mode'] == 'fitskind':
        names = [nm for nm, _ in FITS_KIND_DEFS] + [b'zz']
        q = list(names[ex.pick(len(names))]); st['sym'] = q; st['base'] = list(b'marker')
        qs = Ptr(Cell(h.sym(q).fields[0]))
        def M(name): return prog.find_method('haystack::defs::namespace::Namespace', None, name)
        st['stage'] = 'query'
        st['out'] = {'fits_' + k: ex.call_body(M('fits_' + k), [nsp, qs]) for k in KINDS4}
        st['stage'] = 'done'
        return st
    q = [l.byte([ALPHA])] if t['mode'] == 'tax' else [l.byte([(0x61, 0x65)])]
    b = [l.byte([ALPHA])] if t['mode'] == 'tax' else [l.byte([(0x61, 0x65)])] if ex.pick(2) else list(b'm')
    st['sym'] = q; st['base'] = b
    qs = Ptr(Cell(h.sym(q).fields[0])); bs = Ptr(Cell(h.sym(b).fields[0]))
    def M(name): return prog.find_method('haystack::defs::namespace::Namespace', None, name)
    out = {}
    st['stage'] = 'query'
    out['has'] = ex.call_body(M('has'), [nsp, qs])
    out['supertypes'] = ex.call_body(M('supertypes_of'), [nsp, qs])
    out['all_supertypes'] = ex.call_body(M('all_supertypes_of'), [nsp, qs])
    out['subtypes'] = ex.call_body(M('subtypes_of'), [nsp, qs])
    out['all_subtypes'] = ex.call_body(M('all_subtypes_of'), [nsp, qs])
    out['inheritance'] = ex.call_body(M('inheritance'), [nsp, qs])
    out['fits'] = ex.call_body(M('fits'), [nsp, qs, bs])
    if t['mode'] == 'reflect':
        pairs = []
        for tg in (b'a', b'b', b'c', b'd'):
            k = ex.pick(3)
            if k == 1: pairs.append((tg, h.marker()))
            elif k == 2: pairs.append((tg, h.str_(list(b'x'))))
        rec = h.dict_payload(pairs); st['rec'] = rec
        recp = Ptr(Cell(rec))
        r = ex.call_body(M('reflect'), [nsp, recp])
        out['reflect'] = r.fields[1] if isinstance(r, Agg) else r
        st['reflection'] = r
        rf = prog.find_method('haystack::defs::reflection::Reflection', None, 'fits')
        out['reflect_fits'] = ex.call_body(rf, [Ptr(Cell(r)), bs])
        isa = prog.find_method('haystack::filter::nodes::IsA', 'Eval', 'eval')
        ctxv = Agg('EvalContext', 0, [recp, nsp, recp])
        out['filter'] = ex.call_body(isa, [Ptr(Cell(Agg('IsA', 0, [h.sym(b).fields[0]]))), Ptr(Cell(ctxv))])
    st['out'] = out; st['stage'] = 'done'
    return st


def names_of(ex, cz, v):
    """Vec<&Dict> / &Vec<Dict> / MapReadRef -> sorted def names (hex)"""
    while isinstance(v, Ptr): v = ex.load(v)
    if isinstance(v, Agg) and v.fields and not isinstance(v, VecV):
        # a guard object (dashmap Ref) wrapping the vector
        for f in v.fields:
            w = f
            while isinstance(w, Ptr): w = ex.load(w)
            if isinstance(w, VecV): v = w; break
    out = []
    for d in v.items:
        while isinstance(d, Ptr): d = ex.load(d)
        dd = cz.dict_(d)
        nm = [x for k, x in dd if k == b'def'.hex()]
        out.append(nm[0]['v'] if nm else '')
    return sorted(out)


def post(ex, t, r):
    if r.kind == 'unsupported': return {'kind': 'unsupported', 'detail': r.detail, 'where': r.where}
    st = ex.side.get('st') or {}
    s = {'kind': r.kind, 'detail': r.detail, 'where': r.where, 'mode': t['mode'], 'stage': st.get('stage')}
    try: m = ex.model()
    except Infeasible: return None
    cz = Concretizer(ex, m)
    try:
        s['defs'] = cz.value(st['defs'])
        s['sym'] = bytes(cz.c(b) for b in st.get('sym', [0x61])).hex(); s['base'] = bytes(cz.c(b) for b in st.get('base', [0x61])).hex()
        s['rec'] = cz.dict_(st['rec']) if 'rec' in st else None
        s['graph'] = [[bytes(cz.c(b) for b in nm).hex(), [bytes(cz.c(b) for b in x).hex() for x in sup]] for nm, sup in st['desc']]
        if r.kind == 'ok':
            o = st['out']; res = {}
            for k in ('supertypes', 'all_supertypes', 'subtypes', 'all_subtypes', 'inheritance', 'reflect'):
                if k in o: res[k] = names_of(ex, cz, o[k])
            for k in ('has', 'fits', 'reflect_fits', 'filter', 'fits_marker', 'fits_val', 'fits_choice', 'fits_entity'):
                if k in o: res[k] = bool(cz.c(o[k]))
            s['out'] = res
    except Unsupported as u:
        return {'kind': 'unsupported', 'detail': 'summarise: %s' % u, 'where': None}
    s['native_case'] = {'api': 'ns_query', 'defs': s['defs'], 'sym': s['sym'], 'base': s['base'], 'rec': s['rec']}
    return s


# --------------------------------------------------------------------------- reference: the graph's own answers
def reference(graph, symb, base, rec):
    defs = {}
    for nm, sup in graph: defs[nm] = sup            # a later def of the same name replaces the earlier one
    def supers(n): return sorted({x for x in defs.get(n, []) if x in defs})
    def all_supers(n):
        seen = set(); todo = list(supers(n))
        while todo:
            x = todo.pop()
            if x in seen: continue
            seen.add(x); todo.extend(supers(x))
        return sorted(seen)
    def subs(n): return sorted(x for x, sup in defs.items() if n in sup)
    def all_subs(n):
        seen = set(); todo = list(subs(n))
        while todo:
            x = todo.pop()
            if x in seen: continue
            seen.add(x); todo.extend(subs(x))
        return sorted(seen)
    def inh(n): return sorted({n} | set(all_supers(n))) if n in defs else []
    def fits(a, b): return b in defs and b in inh(a)
    out = {'has': symb in defs, 'supertypes': supers(symb), 'all_supertypes': all_supers(symb), 'subtypes': subs(symb), 'all_subtypes': all_subs(symb),
           'inheritance': inh(symb), 'fits': fits(symb, base)}
    if rec is not None:
        tags = {k: v for k, v in rec}
        markers = {k for k, v in rec if v['t'] == 'marker'}
        refl = set()
        for k in tags:
            if k in defs: refl.add(k)
        for nm in defs:
            parts = bytes.fromhex(nm).split(b'-')
            if len(parts) > 1 and all(p.hex() in markers and p.hex() in defs for p in parts): refl.add(nm)
        closure = set()
        for d in refl: closure |= set(inh(d))
        out['reflect'] = sorted(closure)
        out['reflect_fits'] = any(fits(d, base) for d in closure)
        out['filter'] = out['reflect_fits']
    return out


def run(ctx):
    prog = load.program(ctx.repo, ctx.cache)
    T = templates(ctx)
    ctx.cov['bounds'] = {'defs': '3 (quick) / 3-4 (thorough) defs with names = one symbolic byte a..f, 0-2 symbolic `is` entries each (supertype name < own name: acyclic)',
                         'queries': 'symbolic symbol and base symbol a..f', 'reflection': 'fixed 6-def taxonomy with a conjunct a-b; record over tags a,b,c,d each absent / marker / Str'}
    S = sym.explore_templates(ctx, __import__('props.C13', fromlist=['x']), T, prog, split_depth=6, max_steps=400000, budget_s=600 if ctx.quick() else 4200)
    sym.native_check(ctx, S)
    ctx.cov['path_kinds'] = dict(collections.Counter(s['kind'] for s in S))
    unsup = collections.Counter(); mism = 0; validated = 0
    for s in S:
        if s['kind'] == 'unsupported': unsup[(s.get('template', '?') + ': ' + s['detail'])[:200]] += 1; continue
        n = s.get('native') or {}
        if s['kind'] in ('panic', 'bound'):
            if 'panic' in n or 'hang' in n or 'abort' in n:
                validated += 1
                ctx.report('ns.%s:%s' % (s['kind'], s['stage']), 'namespace %s (%s) for defs %s, symbol %s' % (s['kind'], s['detail'], json.dumps(s['graph']), s['sym']), case=s['native_case'])
            else:
                mism += 1
                if mism <= 5: print('MODEL-MISMATCH %s graph=%s: mirsym %s (%s), native %s' % (s['template'], json.dumps(s['graph']), s['kind'], s['detail'], json.dumps(n)[:200]))
            continue
        nat = n.get('ok')
        if not isinstance(nat, dict) or any(nat.get(k) != v for k, v in s['out'].items()):
            mism += 1
            if mism <= int(os.environ.get('VERIF_SHOW', '5')):
                print('MODEL-MISMATCH %s graph=%s sym=%s base=%s rec=%s: mirsym %s native %s' % (s['template'], json.dumps(s['graph']), s['sym'], s['base'], json.dumps(s['rec']), json.dumps(s['out'])[:300], json.dumps(nat)[:300]))
            continue
        validated += 1
        want = reference(s['graph'], s['sym'], s['base'], s['rec'])
        if s['mode'] == 'fitskind':
            want = {'fits_' + k: reference(s['graph'], s['sym'], k.encode().hex(), None)['fits'] for k in KINDS4}
        for k, v in want.items():
            got = nat.get(k)
            if isinstance(got, list): got = sorted(set(got))      # answers are sets of defs (an `is` list naming a def twice repeats it)
            if got != v:
                ctx.report('ns.%s:%s' % (k, s['mode']), 'defs %s: %s(%s%s)%s = %s, the graph gives %s' % (json.dumps(s['graph']), k, bytes.fromhex(s['sym']).decode(), ', ' + bytes.fromhex(s['base']).decode() if 'fits' in k or k == 'filter' else '',
                           ' on record %s' % json.dumps(s['rec']) if s['rec'] is not None else '', json.dumps(nat.get(k)), json.dumps(v)), case=dict(s['native_case'], _expect=want))
                break
    ctx.cov['traces_validated_against_impl'] += validated
    ctx.cov['unsupported_paths'] = dict(unsup)
    for s in S[:4]: ctx.add_sample({'template': s.get('template'), 'graph': s.get('graph'), 'sym': s.get('sym'), 'out': s.get('out')})
    if mism: ctx.note_inconclusive('%d paths where the native build disagrees with the encoding (model mismatch)' % mism)
    if unsup: ctx.note_inconclusive('%d paths ended in an unmodelled construct: %s' % (sum(unsup.values()), list(unsup)[:3]))
    ctx.assume('dashmap (the two lazy caches) is modelled as a map; hash-set iteration order is modelled as insertion order (results are compared as sets)')


def replay(ctx, path):
    case = json.load(open(path))['case']
    r = native.run_cases(native.build(), [case])[0]
    print(json.dumps(r)[:600])
    if 'panic' in r or 'hang' in r or 'abort' in r: return 1
    want = case.get('_expect') or {}
    for k, v in want.items():
        got = r['ok'].get(k)
        if isinstance(got, list): got = sorted(set(got))
        if got != v: print('%s: %s, the graph gives %s' % (k, got, v)); return 1
    return 0
