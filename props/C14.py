"""C14 Namespace caches are invisible - PARTIAL: the sequential half (answers ignore query history; no self-deadlock on the
cache guards; no panic).  Thread interleavings on dashmap's sharded locks are NOT decided (no engine on this image has a
thread model for this code).
Engine M: over the symbolic defs graphs of C13, every ordered pair of queries (supertypes_of, all_supertypes_of, inheritance,
fits, reflect - symbolic symbols) is run on one namespace ("warm") and the second query alone on a second, freshly built
namespace ("cold"), from MIR; the answers must coincide.  dashmap is modelled as a map whose `get` hands out a read guard
(released by the MIR drop of the guard): a write to the same map while a guard is alive is reported as a possible
self-deadlock.  Each path is replayed natively (replay api "ns_history"; a deadlock shows as a hang)."""
import collections, json, os
import z3
from mirsym import load
from mirsym.values import *
from mirsym.hv import HV
from mirsym.vj import Concretizer
from mirsym.models_coll import dash_release
from vlib import sym, native
from props.zenc_common import Leaves
from props import C13

ALPHA = [(0x61, 0x64)]      # names a..d in the quick tier, a..f in the thorough tier (set in run / carried by the template)
OPS = ['supertypes', 'all_supertypes', 'inheritance', 'fits', 'reflect']
METHOD = {'supertypes': 'supertypes_of', 'all_supertypes': 'all_supertypes_of', 'inheritance': 'inheritance', 'fits': 'fits', 'reflect': 'reflect'}


def templates(ctx):
    T = []
    shapes = [(0, 1, 1)] if ctx.quick() else [(0, 1, 1), (0, 1, 2), (1, 1, 1)]
    for shape in shapes:
        # quick: the first query is one of the three that fill both caches in every way the others do
        for a in (['all_supertypes', 'inheritance', 'reflect'] if ctx.quick() else OPS):
            for b in OPS:
                T.append({'name': 'hist-%s-%s>%s' % (''.join(map(str, shape)), a, b), 'mode': 'tax', 'is': list(shape), 'q1': a, 'q2': b,
                          'alpha': (0x61, 0x64) if ctx.quick() else (0x61, 0x65)})
    return T


def ask(ex, prog, h, nsp, op, q):
    M = lambda name: prog.find_method('haystack::defs::namespace::Namespace', None, name)
    qs = Ptr(Cell(h.sym(q['sym']).fields[0])); bs = Ptr(Cell(h.sym(q['base']).fields[0]))
    if op == 'fits': return ex.call_body(M('fits'), [nsp, qs, bs])
    if op == 'reflect':
        r = ex.call_body(M('reflect'), [nsp, Ptr(Cell(q['rec']))])
        rf = prog.find_method('haystack::defs::reflection::Reflection', None, 'fits')
        return ('reflection', r, ex.call_body(rf, [Ptr(Cell(r)), bs]))
    return ex.call_body(M(METHOD[op]), [nsp, qs])


def path(ex, t):
    h = HV(ex); l = Leaves(ex); prog = ex.prog
    st = {'stage': 'build'}; ex.side['st'] = st
    ALPHA[0] = tuple(t['alpha']); C13_ALPHA_SAVE = C13.ALPHA; C13.ALPHA = ALPHA[0]
    ex.side['dash_guards'] = {}
    ex.side['drop_hook'] = dash_release
    g, desc = C13.build_defs(ex, h, l, t)
    st['defs'] = g; st['desc'] = desc
    gp = g.fields[0]
    while isinstance(gp, Ptr): gp = ex.load(gp)
    make = prog.find_method('haystack::defs::namespace::Namespace', None, 'make')
    st['stage'] = 'make'
    warm = Ptr(Cell(ex.call_body(make, [gp]))); cold = Ptr(Cell(ex.call_body(make, [gp])))
    def query():
        q = {'sym': [l.byte([ALPHA[0]])], 'base': [l.byte([ALPHA[0]])]}
        # one symbolic marker tag (a..f) + an undefined one (z): already in key order
        from mirsym.models import tup
        m = Agg('BTreeMap', 0, [VecV([tup(h.S([l.byte([ALPHA[0]])]), h.marker()), tup(h.S([0x7a]), h.marker())], 'vec')])
        q['rec'] = Agg(h.ty('Dict'), 0, [m])
        q['rec_names'] = None
        return q
    q1, q2 = query(), query()
    st['q1'] = q1; st['q2'] = q2
    def done(a):
        # the caller is finished with the answer: a returned guard (supertypes_of / inheritance) is dropped
        if isinstance(a, Agg): dash_release(ex, a)
        return a
    st['stage'] = 'q1'
    done(ask(ex, prog, h, warm, t['q1'], q1))
    st['stage'] = 'q2-warm'
    st['warm'] = done(ask(ex, prog, h, warm, t['q2'], q2))
    st['stage'] = 'q2-cold'
    st['cold'] = done(ask(ex, prog, h, cold, t['q2'], q2))
    st['guards_left'] = len(ex.side['dash_guards'])
    st['stage'] = 'done'
    return st


def answer(ex, cz, a):
    if isinstance(a, tuple):
        _, r, fits = a
        return {'defs': C13.names_of(ex, cz, r.fields[1]), 'fits': bool(cz.c(fits)), 'entity': cz.dict_(r.fields[3])}
    if isinstance(a, bool) or is_sym(a): return bool(cz.c(a))
    return C13.names_of(ex, cz, a)


def post(ex, t, r):
    if r.kind == 'unsupported': return {'kind': 'unsupported', 'detail': r.detail, 'where': r.where}
    st = ex.side.get('st') or {}
    s = {'kind': r.kind, 'detail': r.detail, 'where': r.where, 'stage': st.get('stage'), 'q1op': t['q1'], 'q2op': t['q2']}
    try: m = ex.model()
    except Infeasible: return None
    cz = Concretizer(ex, m)
    try:
        s['defs'] = cz.value(st['defs'])
        s['graph'] = [[bytes(cz.c(b) for b in nm).hex(), [bytes(cz.c(b) for b in x).hex() for x in sup]] for nm, sup in st['desc']]
        def qj(op, q): return {'op': op, 'sym': bytes(cz.c(b) for b in q['sym']).hex(), 'base': bytes(cz.c(b) for b in q['base']).hex(), 'rec': cz.dict_(q['rec'])}
        s['q1'] = qj(t['q1'], st['q1']) if 'q1' in st else None
        s['q2'] = qj(t['q2'], st['q2']) if 'q2' in st else None
        if r.kind == 'ok':
            s['warm'] = answer(ex, cz, st['warm']); s['cold'] = answer(ex, cz, st['cold'])
    except Unsupported as u:
        return {'kind': 'unsupported', 'detail': 'summarise: %s' % u, 'where': None}
    s['native_case'] = {'api': 'ns_history', 'defs': s['defs'], 'q1': s['q1'], 'q2': s['q2']} if s.get('q1') else None
    return s


def run(ctx):
    prog = load.program(ctx.repo, ctx.cache)
    T = templates(ctx)
    ctx.cov['bounds'] = {'defs': 'as C13: 3 defs, names one symbolic byte a..d (quick) / a..e (thorough), 1 (quick) / 3 (thorough) shapes of, 0-2 symbolic `is` entries, acyclic', 'histories': 'every ordered pair of %s with symbolic symbols; the second query also on a fresh namespace' % OPS,
                         'NOT decided': 'interleavings of 2-16 threads on dashmap (sequential model only)'}
    S = sym.explore_templates(ctx, __import__('props.C14', fromlist=['x']), T, prog, split_depth=6, max_steps=400000, budget_s=900 if ctx.quick() else 4500)
    sym.native_check(ctx, S)
    ctx.cov['path_kinds'] = dict(collections.Counter(s['kind'] for s in S))
    unsup = collections.Counter(); mism = 0; validated = 0; binary = None
    for s in S:
        if s['kind'] == 'unsupported': unsup[(s.get('template', '?') + ': ' + s['detail'])[:200]] += 1; continue
        n = s.get('native') or {}
        if s['kind'] in ('panic', 'bound'):
            bad = 'panic' in n or 'hang' in n or 'abort' in n
            if not bad and 'deadlock' in (s['detail'] or '') and s.get('q1'):
                # the shard is chosen by the key's hash: retry with both queries on the same symbol (same key, same shard)
                binary = binary or native.build()
                c2 = json.loads(json.dumps(s['native_case'])); c2['q2']['sym'] = c2['q1']['sym']; c2['q2']['base'] = c2['q1']['base']
                n2 = native.run_cases(binary, [c2])[0]
                if 'hang' in n2 or 'panic' in n2 or 'abort' in n2: bad = True; s['native_case'] = c2; n = n2
            if bad:
                validated += 1
                ctx.report('ns.cache.%s:%s>%s' % ('deadlock' if 'deadlock' in (s['detail'] or '') else s['kind'], s['q1op'], s['q2op']),
                           '%s then %s on defs %s: %s (native: %s)' % (json.dumps(s['q1'])[:160], json.dumps(s['q2'])[:160], json.dumps(s['graph']), s['detail'], str(n)[:100]), case=s['native_case'])
            else:
                mism += 1
                if mism <= 5: print('MODEL-MISMATCH %s graph=%s: mirsym %s (%s), native %s' % (s['template'], json.dumps(s['graph']), s['kind'], s['detail'], json.dumps(n)[:200]))
            continue
        nat = n.get('ok')
        def canon(x):
            if isinstance(x, dict) and 'defs' in x: return {'defs': sorted(set(x['defs'])), 'fits': x['fits'], 'entity': x['entity']}
            if isinstance(x, list): return sorted(set(x))
            return x
        if not isinstance(nat, dict) or canon(nat.get('warm')) != canon(s['warm']) or canon(nat.get('cold')) != canon(s['cold']):
            mism += 1
            if mism <= int(os.environ.get('VERIF_SHOW', '5')):
                print('MODEL-MISMATCH %s graph=%s q1=%s q2=%s: mirsym warm %s cold %s, native %s' % (s['template'], json.dumps(s['graph']), json.dumps(s['q1'])[:120], json.dumps(s['q2'])[:120], json.dumps(s['warm'])[:200], json.dumps(s['cold'])[:200], json.dumps(nat)[:300]))
            continue
        validated += 1
        if canon(nat['warm']) != canon(nat['cold']):
            ctx.report('ns.cache.history:%s>%s' % (s['q1op'], s['q2op']), 'defs %s: %s answers %s after %s but %s on a fresh namespace' % (json.dumps(s['graph']), json.dumps(s['q2'])[:160], json.dumps(nat['warm'])[:160], json.dumps(s['q1'])[:160], json.dumps(nat['cold'])[:160]), case=s['native_case'])
    ctx.cov['traces_validated_against_impl'] += validated
    ctx.cov['unsupported_paths'] = dict(unsup)
    for s in S[:4]: ctx.add_sample({'template': s.get('template'), 'graph': s.get('graph'), 'q1': s.get('q1'), 'q2': s.get('q2'), 'warm': s.get('warm'), 'cold': s.get('cold')})
    if mism: ctx.note_inconclusive('%d paths where the native build disagrees with the encoding (model mismatch)' % mism)
    if unsup: ctx.note_inconclusive('%d paths ended in an unmodelled construct: %s' % (sum(unsup.values()), list(unsup)[:3]))
    ctx.assume('dashmap is modelled as a sequential map with read guards; thread interleavings are NOT explored')


def replay(ctx, path):
    case = json.load(open(path))['case']
    r = native.run_cases(native.build(), [case])[0]
    print(json.dumps(r)[:600])
    if 'panic' in r or 'hang' in r or 'abort' in r: return 1
    o = r.get('ok') or {}
    def canon(x):
        if isinstance(x, dict) and 'defs' in x: return {'defs': sorted(set(x['defs'])), 'fits': x['fits'], 'entity': x['entity']}
        if isinstance(x, list): return sorted(set(x))
        return x
    return 1 if canon(o.get('warm')) != canon(o.get('cold')) else 0
