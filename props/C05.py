"""C05 Hayson conforms to the Project Haystack JSON encoding in both directions (engine M, tree level, vs /verif/spec/hayson.py).
writer: tree(v) == reference tree(v);  reader: the reference tree in every member order / optional-part spelling decodes to v."""
import collections, json, os, itertools
import z3
from mirsym import load
from mirsym.values import *
from mirsym.hv import HV, sym_eq
from mirsym.models_serde import J
from mirsym.vj import Concretizer, norm_native
from vlib import sym, native
from props import zenc_common as zc, hayson_common as hc, C02
from spec.hayson import Tree

QUICK = [True]


def templates(ctx):
    T = []
    for t in C02.templates(ctx):
        # writer direction: symbolic *integral* numbers need int<->float cast reasoning that z3 does not finish; they are
        # covered by the round trip of C02, here the writer is compared on the listed concrete numbers and non-integral floats
        if not t['name'].startswith(('num-int16', 'num-dec', 'num-unit-', 'num-any-unit')) and t['name'] not in ('coord',):
            T.append(dict(t, name='w:' + t['name'], dir='w'))
        T.append(dict(t, name='r:' + t['name'], dir='r'))
    return T


def variants(ex, node):
    """one legal spelling of the reference tree, chosen by forks: member order of every object (<= 4 members: all orders),
    integral numbers as integer or float, optional `"_kind":"dict"` on plain dicts"""
    k = node.kind
    if k == 'map':
        ent = [(key, variants(ex, n)) for key, n in node.v]
        if len(ent) <= 4:
            perms = list(itertools.permutations(range(len(ent))))
            p = perms[ex.pick(len(perms))] if len(perms) > 1 else perms[0]
            ent = [ent[i] for i in p]
        elif ex.pick(2): ent = list(reversed(ent))
        return J('map', ent)
    if k == 'seq': return J('seq', [variants(ex, n) for n in node.v])
    if k == 'f64':
        x = node.v
        if not is_sym(x) and x == x and abs(x) != float('inf') and x == int(x) and -2 ** 63 <= x < 2 ** 64 and ex.pick(2):
            return J('u64' if x >= 0 else 'i64', int(x))
        return node
    return node


def path(ex, t):
    QUICK[0] = True
    v = C02.build(ex, t)
    ex.side['orig'] = v
    st = {'stage': 'spec'}; ex.side['st'] = st
    spec = Tree(ex).value(v)
    st['spec'] = spec
    if t['dir'] == 'w':
        st['stage'] = 'encode'
        kind, tree = hc.encode(ex, v)
        st['enc'] = kind; st['tree'] = tree; st['stage'] = 'done'
        return st
    tree = variants(ex, spec)
    st['tree'] = tree; st['stage'] = 'decode'
    st['dec'] = hc.decode(ex, tree, v.ty); st['stage'] = 'done'
    return st


def post(ex, t, r):
    if r.kind == 'unsupported': return {'kind': 'unsupported', 'detail': r.detail, 'where': r.where}
    st = ex.side.get('st') or {}
    s = {'kind': r.kind, 'detail': r.detail, 'where': r.where, 'stage': st.get('stage'), 'dir': t['dir'], 'shape': t['shape']}
    viol = None; cond = None
    if r.kind in ('panic', 'bound'): viol = '%s-in-%s' % (r.kind, st.get('stage'))
    elif t['dir'] == 'w':
        if st['enc'] != 'ok': viol = 'encode-error'
        else:
            eq = hc.tree_eq(st['tree'], st['spec'])
            if eq is False: viol = 'tree-differs'
            elif eq is not True and ex.sat(z3.Not(eq)) is not None: viol = 'tree-differs'; cond = z3.Not(eq)
    else:
        if st['dec'].variant != 0: viol = 'document-rejected'
        else:
            eq = sym_eq(ex, ex.side['orig'], st['dec'].fields[0])
            if eq is False: viol = 'decoded-other-value'
            elif eq is not True and ex.sat(z3.Not(eq)) is not None: viol = 'decoded-other-value'; cond = z3.Not(eq)
    try:
        if cond is not None: ex.assume(cond)
        m = ex.model()
    except Infeasible:
        return None
    cz = Concretizer(ex, m)
    try: s['orig'] = cz.value(ex.side['orig'])
    except Unsupported as u: return {'kind': 'unsupported', 'detail': 'concretize: %s' % u, 'where': None}
    s['spec'] = hc.tj(cz, st['spec'])
    if st.get('tree') is not None and st.get('enc', 'ok') == 'ok': s['tree'] = hc.tj(cz, st['tree'])
    if ex.side.get('named_zone'): s['zone_axiom'] = True
    if t['dir'] == 'w': s['native_case'] = {'api': 'json_encode', 'v': s['orig']}
    else:
        s['native_case'] = {'api': 'json_decode', 'tree': s.get('tree')}
        if r.kind == 'ok' and st['dec'].variant == 0:
            try: s['decoded'] = cz.value(st['dec'].fields[0])
            except Unsupported: pass
    s['viol'] = viol
    return s


def run(ctx):
    prog = load.program(ctx.repo, ctx.cache)
    C02.QUICK[0] = ctx.quick()      # the shape catalogue of the tier (workers are forked after this)
    T = templates(ctx)
    ctx.cov['bounds'] = {'values': 'C02 catalogue', 'member orders': 'all permutations of objects with <= 4 members (forked), reversal for larger ones', 'number spellings': 'integer vs float for integral values'}
    S = sym.explore_templates(ctx, __import__('props.C05', fromlist=['x']), T, prog, split_depth=4, budget_s=270 if ctx.quick() else 1700)
    sym.native_check(ctx, S)
    ctx.cov['path_kinds'] = dict(collections.Counter(s['kind'] for s in S))
    mism = 0; validated = 0; unsup = collections.Counter()
    for s in S:
        if s['kind'] == 'unsupported': unsup[(s.get('template', '?') + ': ' + s['detail'])[:110]] += 1; continue
        n = s.get('native') or {}; v = s.get('viol')
        if s['dir'] == 'w':
            if s['kind'] == 'panic': okn = 'panic' in n
            elif v == 'encode-error': okn = 'err' in n
            else: okn = 'ok' in n and hc.tj_norm(n['ok']) == hc.tj_norm(s.get('tree'))
        else:
            if s['kind'] == 'panic': okn = 'panic' in n
            elif v == 'document-rejected': okn = 'err' in n
            else:
                okn = 'ok' in n
                if okn and 'decoded' in s:
                    nv, sv = norm_native(n['ok']), s['decoded']
                    if s.get('zone_axiom'):
                        from props.zinc_common import strip_dt
                        nv, sv = strip_dt(nv), strip_dt(sv)
                    okn = nv == sv
        if not okn:
            mism += 1
            if mism <= int(os.environ.get('VERIF_SHOW', '5')): print('MODEL-MISMATCH template=%s orig=%s: mirsym %s/%s tree %s native %s' % (s['template'], json.dumps(s.get('orig'))[:160], s['kind'], v, json.dumps(s.get('tree'))[:200], str(n)[:240]))
            continue
        validated += 1
        if not v: continue
        if not C02.is_wellformed(s['orig']): continue
        if v == 'decoded-other-value' and 'ok' in n:
            where = zc.diff_path(zc.norm_grid_meta(s['orig']), zc.norm_grid_meta(norm_native(n['ok'])))
            if not where: continue
            v += where
        ctx.report('hayson.conform.%s:%s:%s:%s' % ('writer' if s['dir'] == 'w' else 'reader', s['shape'].rstrip('0123456789'), v, C02.num_class(s['orig'])),
                   '%s: value %s; tree %s; reference tree %s; native %s' % (v, json.dumps(s['orig'])[:200], json.dumps(s.get('tree'))[:200], json.dumps(s['spec'])[:200], str(n)[:160]), case=s['native_case'])
    ctx.cov['traces_validated_against_impl'] += validated
    for s in S[:8]: ctx.add_sample({'template': s.get('template'), 'value': s.get('orig'), 'tree': s.get('tree'), 'violation': s.get('viol')})
    ctx.cov['unsupported_paths'] = dict(unsup)
    if mism: ctx.note_inconclusive('%d paths where the native build disagrees with the encoding (model mismatch)' % mism)
    if unsup: ctx.note_inconclusive('%d paths ended in an unmodelled construct: %s' % (sum(unsup.values()), list(unsup)[:3]))
    ctx.assume("JSON text level (serde_json) trusted; reference trees from /verif/spec/hayson.py (docHaystack Json)")
    ctx.obligation('hayson-conformance-both-directions', 'held' if not ctx.violations else 'violated', paths=len(S))


def replay(ctx, path):
    case = json.load(open(path))['case']
    r = native.run_cases(native.build(), [case])[0]
    print(json.dumps(r)[:600])
    return 1
