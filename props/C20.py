"""C20 Display names follow the documented precedence and macro substitution (PARTIAL: regex match placement is modelled by Python's re).
Engine M: dict_to_dis over every presence pattern of the eight display tags (values symbolic) and DisReplacer over macro skeletons with
symbolic lookup results, from MIR; z3 (regular-language theory) on the real pattern constant: every match contains '$'."""
import collections, json, os, itertools
import z3
from mirsym import load
from mirsym.values import *
from mirsym.hv import HV
from mirsym.engine import HostObj
from mirsym.models import some, none, deref, items_of, string_of, str_ref, conc_bytes
from mirsym.vj import Concretizer
from vlib import sym, native
from props.zenc_common import Leaves

TAGS = [b'dis', b'disMacro', b'disKey', b'name', b'def', b'tag', b'navName', b'id']
MACROS = [b'$a', b'${a}', b'$<k>', b'x $ab y', b'${ab}z', b'$a$b', b'$a ${b} $<k>', b'${a', b'$<k', b'$', b'$$a', b'${}', b'$<>', b'$A', b'$a1_b',
          'é $a ü'.encode(), b'no macro here', b'${a}${a}', b'$<k>$<zz>', b'a$']


ALPHABET = [b'$', b'{', b'}', b'<', b'>', b'a', b'b', b'k', b' ', 'é'.encode(), b'A', b'1']


class Localized(HostObj):
    host_type = 'GetLocalized'

    def __init__(s, table): s.table = table

    def call(s, ex, site, argv):
        key = conc_bytes(items_of(ex, argv[0]))
        if key is None: raise Unsupported('symbolic localisation key')
        v = s.table.get(key)
        return none() if v is None else some(Agg('Cow', 1, [string_of(list(v))]))


def tag_value(h, l, kind):
    if kind == 0: return h.str_(l.text(1))
    if kind == 1: return h.ref(list(b'r1'), l.text(1))
    if kind == 2: return h.ref([l.byte([(0x61, 0x7a)])])
    if kind == 3: return h.num(12.5, 'meter')
    if kind == 4: return h.marker()
    if kind == 6: return h.uri([l.byte([(0x61, 0x7a)]), 0x2f, 0x78])
    if kind == 7: return h.sym([l.byte([(0x61, 0x7a)]), 0x68])
    if kind == 8: return h.date(2021, 3, 4)
    return h.bool_(l.boolean())


def templates(ctx):
    T = [{'name': 'precedence', 'mode': 'prec'}]
    for tg in TAGS: T.append({'name': 'kinds-' + tg.decode(), 'mode': 'kinds', 'tag': tg})
    for i, mc in enumerate(MACROS): T.append({'name': 'macro%d' % i, 'mode': 'macro', 'macro': mc})
    T.append({'name': 'no-dollar', 'mode': 'nodollar'})
    # every macro text of length <= 3 (quick) / 4 (thorough) over the alphabet of the property
    for L in range(1, (3 if ctx.quick() else 4) + 1):
        for f in range(len(ALPHABET)): T.append({'name': 'alpha%d-%d' % (L, f), 'mode': 'alpha', 'len': L, 'first': f})
    return T


def path(ex, t):
    h = HV(ex); l = Leaves(ex); prog = ex.prog
    st = {}; ex.side['st'] = st
    loc = {b'k': b'LOC', b'lk': b'Localised'}
    pairs = []
    if t['mode'] == 'prec':
        # every presence pattern of the 8 tags; Str values with a symbolic char; disMacro without '$'; disKey localisable or not
        for tg in TAGS:
            if ex.pick(2):
                if tg == b'disKey': v = h.str_(list([b'lk', b'zz'][ex.pick(2)]))
                elif tg == b'disMacro':
                    c = l.byte([(0x20, 0x23), (0x25, 0x7e)]); v = h.str_([c, 77])
                elif tg == b'id': v = h.ref(list(b'r1'), list(b'R one') if ex.pick(2) else None)
                else: v = h.str_([l.byte([(0x20, 0x7e)]), 33])
                pairs.append((tg, v))
    elif t['mode'] == 'kinds':
        k = ex.pick(9)
        v = tag_value(h, l, k)
        if k == 0 and t['tag'] in (b'disKey', b'disMacro'): v = h.str_(list(b'lk' if t['tag'] == b'disKey' else b'plain text'))
        pairs.append((t['tag'], v))
        # a lower-priority tag is present as well: whatever the kind of the higher tag's value, it must still decide the name
        # (checked natively as: the name equals the name of the record without the lower tag)
        if t['tag'] not in (b'navName', b'id'): pairs.append((b'navName', h.str_(list(b'LOWER'))))
        st['lower'] = t['tag'] not in (b'navName', b'id')
    elif t['mode'] == 'macro':
        pairs.append((b'disMacro', h.str_(list(t['macro']))))
        import re as _re2
        mentioned = sorted(set(_re2.findall(rb'[a-z][a-zA-Z0-9_]*', t['macro'])) & {b'a', b'b', b'ab', b'a1_b'})
        for tg in mentioned:
            k = ex.pick(5)
            if k < 4: pairs.append((tg, tag_value(h, l, k)))
    elif t['mode'] == 'alpha':
        syms = [ALPHABET[t['first']]] + [ALPHABET[ex.pick(len(ALPHABET))] for _ in range(t['len'] - 1)]
        text = b''.join(syms)
        pairs.append((b'disMacro', h.str_(list(text))))
        # every name the documented syntax would look up is absent / a Str / a Ref with dis
        for nm in sorted({tok[1] for tok in scan_macro(text) if tok[0] == 'tag'}):
            if nm == b'disMacro': continue
            k = ex.pick(3)
            if k == 1: pairs.append((nm, h.str_([l.byte([(0x30, 0x7a)])])))
            elif k == 2: pairs.append((nm, h.ref(list(b'r1'), list(b'R one'))))
    else:
        # text without '$': 3 symbolic bytes that are not '$'
        bs = [l.byte([(0x20, 0x23), (0x25, 0x7e)]) for _ in range(3)]
        pairs.append((b'disMacro', h.str_(bs)))
    rec = h.dict_payload(pairs); st['rec'] = rec; st['loc'] = loc
    f = prog.find_fn(['val', 'dict', 'dict_to_dis'])
    default = some(Agg('Cow', 0, [str_ref(list(b'DEFAULT'))])) if ex.pick(2) else none()
    st['def'] = default.variant == 1
    r = ex.call_body(f, [Ptr(Cell(rec)), Ptr(Cell(Localized(loc))), default])
    st['out'] = list(items_of(ex, r))
    return st


def disp(v):
    """display text of a tag value (canonical JSON form) as the specification has it"""
    t = v['t']
    if t == 'str': return bytes.fromhex(v['v'])
    return None


def spec_dis(rec, loc, default):
    """reference: first of dis, disMacro, disKey, name, def, tag, navName, id"""
    d = {bytes.fromhex(k): v for k, v in rec}
    def text(v, allow_ref_dis=False):
        if v['t'] == 'str': return bytes.fromhex(v['v'])
        if v['t'] == 'ref' and allow_ref_dis: return bytes.fromhex(v['dis'] if v.get('dis') is not None else v['v'])
        # other kinds: their display text is their Zinc form (Value's Display); spelled out here for the kinds without escapes
        if v['t'] == 'uri' and all(0x61 <= c <= 0x7a or c == 0x2f for c in bytes.fromhex(v['v'])): return b'`' + bytes.fromhex(v['v']) + b'`'
        if v['t'] == 'sym': return b'^' + bytes.fromhex(v['v'])
        if v['t'] == 'marker': return b'Marker'
        if v['t'] == 'bool': return b'true' if v['v'] else b'false'
        if v['t'] == 'date': return b'%04d-%02d-%02d' % (v['y'], v['m'], v['d'])
        return None      # numbers, refs under a tag other than id: compared natively only
    for tg in TAGS:
        if tg not in d: continue
        v = d[tg]
        if tg == b'disMacro' and v['t'] == 'str': return macro(bytes.fromhex(v['v']), d, loc)
        if tg == b'disKey' and v['t'] == 'str' and bytes.fromhex(v['v']) in loc: return loc[bytes.fromhex(v['v'])]
        return text(v, allow_ref_dis=(tg == b'id'))
    return b'DEFAULT' if default else b''


def is_name_start(c): return 0x61 <= c <= 0x7a
def is_name_char(c): return 0x61 <= c <= 0x7a or 0x41 <= c <= 0x5a or 0x30 <= c <= 0x39 or c == 0x5f


def scan_macro(pat):
    """hand-written scanner for the documented macro syntax (independent of any regular-expression engine):
    -> list of ('lit', bytes) | ('tag', name, source) | ('loc', key, source); `$tag` ends at the first non-tag character"""
    out = []; i = 0; n = len(pat); lit = b''
    while i < n:
        c = pat[i]
        if c == 0x24 and i + 1 < n:
            d = pat[i + 1]
            if is_name_start(d):
                j = i + 2
                while j < n and is_name_char(pat[j]): j += 1
                if lit: out.append(('lit', lit)); lit = b''
                out.append(('tag', pat[i + 1:j], pat[i:j])); i = j; continue
            if d == 0x7b and i + 2 < n and is_name_start(pat[i + 2]):
                j = i + 3
                while j < n and is_name_char(pat[j]): j += 1
                if j < n and pat[j] == 0x7d:
                    if lit: out.append(('lit', lit)); lit = b''
                    out.append(('tag', pat[i + 2:j], pat[i:j + 1])); i = j + 1; continue
            if d == 0x3c:
                j = pat.find(b'>', i + 2)
                if j > i + 2:
                    if lit: out.append(('lit', lit)); lit = b''
                    out.append(('loc', pat[i + 2:j], pat[i:j + 1])); i = j + 1; continue
        lit += bytes([c]); i += 1
    if lit: out.append(('lit', lit))
    return out


def macro(pat, d, loc):
    def val_text(v):
        if v['t'] == 'str': return bytes.fromhex(v['v'])
        if v['t'] == 'ref': return bytes.fromhex(v['dis'] if v.get('dis') is not None else v['v'])
        return None
    out = b''
    for tok in scan_macro(pat):
        if tok[0] == 'lit': out += tok[1]
        elif tok[0] == 'tag':
            if tok[1] in d:
                tv = val_text(d[tok[1]])
                if tv is None: return None
                out += tv
            else: out += tok[2]
        else: out += loc.get(tok[1], tok[2])
    return out


def post(ex, t, r):
    if r.kind == 'unsupported': return {'kind': 'unsupported', 'detail': r.detail, 'where': r.where}
    st = ex.side.get('st') or {}
    try: m = ex.model()
    except Infeasible: return None
    cz = Concretizer(ex, m)
    s = {'kind': r.kind, 'detail': r.detail, 'where': r.where, 'mode': t['mode']}
    s['rec'] = cz.dict_(st['rec'])
    s['native_case'] = {'api': 'dis', 'rec': s['rec'], 'localized': [[k.hex(), v.hex()] for k, v in st['loc'].items()], 'def': b'DEFAULT'.hex() if st.get('def') else None}
    s['def'] = st.get('def')
    if st.get('lower'): s['alt_case'] = dict(s['native_case'], rec=[kv for kv in s['rec'] if kv[0] != b'navName'.hex()])
    if r.kind == 'ok': s['out'] = bytes(cz.c(b) & 0xff for b in st['out']).hex()
    if t['mode'] == 'nodollar' and r.kind == 'ok':
        # unchanged for EVERY such text on this path: the output bytes are the input bytes (as formulas)
        inp = deref(ex, deref(ex, st['rec'].fields[0]).fields[0].items[0].fields[1].fields[0]).fields[0].items
        from mirsym.models import eq_items
        same = eq_items(st['out'], inp)
        s['nodollar_violation'] = (same is False) or (same is not True and ex.sat(z3.Not(same)) is not None)
    return s


class RxUnsupported(Exception): pass


def rx_to_z3(p):
    """regular expression (the subset of the regex crate's syntax: literals, escapes, classes with ranges and negation,
    groups, alternation, * + ?) -> z3 regular expression over code units 0..255"""
    pos = [0]
    ANY = z3.Range(chr(0), chr(255))
    def peek(): return p[pos[0]] if pos[0] < len(p) else None
    def take():
        c = p[pos[0]]; pos[0] += 1; return c
    def cls_of(ranges, neg):
        if neg:
            out = []; lo = 0
            for a, b in sorted(ranges):
                if a > lo: out.append((lo, a - 1))
                lo = max(lo, b + 1)
            if lo <= 255: out.append((lo, 255))
            ranges = out
        rs = [z3.Range(chr(a), chr(b)) for a, b in ranges]
        if not rs: return z3.Empty(z3.ReSort(z3.StringSort()))
        return rs[0] if len(rs) == 1 else z3.Union(*rs)
    # the regex crate's \d \w \s are Unicode-aware: every byte of a non-ASCII char (0x80..0xFF) is admitted as well, an
    # over-approximation of the match language (sound for "every match contains $"); the negated forms use the ASCII sets
    ESC_ASCII = {'d': [(48, 57)], 'w': [(48, 57), (65, 90), (95, 95), (97, 122)], 's': [(9, 13), (32, 32)]}
    ESC = {k: v + [(0x80, 0xFF)] for k, v in ESC_ASCII.items()}
    def atom():
        c = take()
        if c == '(':
            if peek() == '?':
                if p[pos[0]:pos[0] + 2] == '?:': pos[0] += 2
                else: raise RxUnsupported('group flags')
            r = alt()
            if take() != ')': raise RxUnsupported('unbalanced group')
            return r
        if c == '[':
            neg = False
            if peek() == '^': take(); neg = True
            ranges = []
            first = True
            while True:
                c = take()
                if c == ']' and not first: break
                first = False
                if c == '\\':
                    d = take()
                    if d in ESC: ranges += ESC[d]; continue
                    c = {'n': '\n', 't': '\t', 'r': '\r'}.get(d, d)
                if c == '[': raise RxUnsupported('nested class')
                if peek() == '-' and p[pos[0] + 1] != ']':
                    take(); e = take()
                    if e == '\\': e = take()
                    ranges.append((ord(c), ord(e)))
                else: ranges.append((ord(c), ord(c)))
            if any(b > 255 for a, b in ranges): raise RxUnsupported('non-Latin-1 class')
            return cls_of(ranges, neg)
        if c == '.': return cls_of([(10, 10)], True)
        if c == '\\':
            d = take()
            if d in ESC: return cls_of(ESC[d], False)
            if d in 'DWS': return cls_of(ESC_ASCII[d.lower()], True)
            if d.isalnum() and d not in 'ntr': raise RxUnsupported('escape \\' + d)
            return z3.Re({'n': '\n', 't': '\t', 'r': '\r'}.get(d, d))
        if c in '^$' : raise RxUnsupported('anchor')
        if c in '*+?{': raise RxUnsupported('dangling repetition')
        if ord(c) > 255: raise RxUnsupported('non-Latin-1 literal')
        return z3.Re(c)
    def rep():
        r = atom()
        while peek() in ('*', '+', '?'):
            q = take()
            r = z3.Star(r) if q == '*' else z3.Plus(r) if q == '+' else z3.Option(r)
            if peek() == '?': take()      # laziness does not change the language
        if peek() == '{': raise RxUnsupported('counted repetition')
        return r
    def seq():
        items = []
        while peek() is not None and peek() not in '|)': items.append(rep())
        if not items: return z3.Re('')
        return items[0] if len(items) == 1 else z3.Concat(*items)
    def alt():
        alts = [seq()]
        while peek() == '|': take(); alts.append(seq())
        return alts[0] if len(alts) == 1 else z3.Union(*alts)
    r = alt()
    if pos[0] != len(p): raise RxUnsupported('trailing ' + p[pos[0]:])
    return r


def reglan_obligation(ctx, patterns):
    """every match of the real pattern contains '$' (so text without '$' has no match) - z3 sequence/regex theory.
    The pattern is the constant found in this run's MIR, translated by rx_to_z3."""
    ctx.cov['reglan'] = []
    for p in patterns:
        try: pat = rx_to_z3(p)
        except (RxUnsupported, IndexError) as e:
            ctx.note_inconclusive('macro pattern %r is outside the translated regex subset: %s' % (p, e)); continue
        x = z3.String('x')
        sol = z3.Solver(); sol.set('timeout', 60000)
        sol.add(z3.InRe(x, pat), z3.Not(z3.Contains(x, z3.StringVal('$'))))
        r = sol.check()
        ctx.cov['reglan'].append({'pattern': p, 'query': 'in_re(x, pattern) and not contains(x, "$")', 'result': str(r)})
        ctx.cov['queries'] += 1
        if r == z3.sat: ctx.report('dis.regex:match-without-dollar', 'the macro pattern matches %r, which has no $' % sol.model()[x].as_string(), case={'api': 'dis', 'rec': [[b'disMacro'.hex(), {'t': 'str', 'v': sol.model()[x].as_string().encode('latin-1', 'replace').hex()}]], 'localized': [], 'def': None})
        elif r != z3.unsat: ctx.note_inconclusive('regular-language query: ' + str(r))


def run(ctx):
    prog = load.program(ctx.repo, ctx.cache)
    T = templates(ctx)
    ctx.cov['bounds'] = {'presence patterns': 'all 2^8 of the display tags', 'macro skeletons': [m.decode('utf-8', 'replace') for m in MACROS], 'lookup results': 'absent / Str / Ref with dis / Ref / Number for each macro tag'}
    S = sym.explore_templates(ctx, __import__('props.C20', fromlist=['x']), T, prog, split_depth=4, budget_s=240 if ctx.quick() else 900)
    sym.native_check(ctx, S)
    ctx.cov['path_kinds'] = dict(collections.Counter(s['kind'] for s in S))
    mism = 0; validated = 0; unsup = collections.Counter()
    pats = set()
    for s in S:
        if s['kind'] == 'unsupported': unsup[(s.get('template', '?') + ': ' + s['detail'])[:220]] += 1; continue
        n = s.get('native') or {}
        if s['kind'] == 'panic':
            if 'panic' in n: ctx.report('dis.panic:' + s['template'], '%s for record %s' % (s['detail'], json.dumps(s['rec'])[:300]), case=s['native_case']); validated += 1
            else: mism += 1
            continue
        if 'ok' not in n or n['ok'] != s.get('out'):
            mism += 1
            if mism <= int(os.environ.get('VERIF_SHOW', '5')): print('MODEL-MISMATCH %s rec=%s: mirsym %r native %s' % (s['template'], json.dumps(s['rec'])[:200], bytes.fromhex(s.get('out') or ''), str(n)[:200]))
            continue
        validated += 1
        loc = {bytes.fromhex(k): bytes.fromhex(v) for k, v in s['native_case']['localized']}
        want = spec_dis(s['rec'], loc, s['def'])
        got = bytes.fromhex(n['ok'])
        if want is not None and want != got:
            ctx.report('dis.%s:%s' % (s['mode'], s['template']), 'record %s displays as %r, the documented rules give %r' % (json.dumps(s['rec'])[:300], got, want), case=s['native_case'])
        if s.get('nodollar_violation'):
            ctx.report('dis.no-dollar-changed', 'a disMacro text without $ was changed: %s -> %r' % (json.dumps(s['rec'])[:200], got), case=s['native_case'])
    # precedence regardless of the value's kind: dropping the lower-priority tag must not change the name
    alts = [s for s in S if s.get('alt_case') and s.get('kind') == 'ok' and 'ok' in (s.get('native') or {})]
    if alts:
        res = native.run_cases(native.build(), [s['alt_case'] for s in alts])
        for s, r in zip(alts, res):
            if 'ok' in r and r['ok'] != s['native']['ok']:
                ctx.report('dis.kinds:%s' % s['template'], 'record %s displays as %r, but as %r without the lower-priority navName tag: the first present tag does not decide' % (json.dumps(s['rec'])[:300], bytes.fromhex(s['native']['ok']), bytes.fromhex(r['ok'])), case=s['native_case'])
    ctx.cov['traces_validated_against_impl'] += validated
    # the pattern constant as read from the MIR on this run
    import re as _re
    mir = open(prog.mir_path, encoding='utf-8', errors='replace').read()
    found = set()
    for blk in _re.findall(r'(?s)\nfn [^\n]*dis_macro[^\n]*\{.*?\n\}', mir):
        if 'Regex::new' in blk: found.update(_re.findall(r'= const "((?:[^"\\]|\\.)*)";', blk))
    pl = [f.encode().decode('unicode_escape') for f in found]
    ctx.cov['regex_patterns_in_mir'] = pl
    if pl: reglan_obligation(ctx, pl)
    else: ctx.note_inconclusive('no Regex::new pattern constant found in the MIR of dis_macro')
    for s in S[:6]: ctx.add_sample({'template': s.get('template'), 'record': s.get('rec'), 'display': s.get('out')})
    ctx.cov['unsupported_paths'] = dict(unsup)
    if mism: ctx.note_inconclusive('%d paths where the native build disagrees with the encoding (model mismatch)' % mism)
    if unsup: ctx.note_inconclusive('%d paths ended in an unmodelled construct: %s' % (sum(unsup.values()), list(unsup)[:3]))
    ctx.assume("regex crate: leftmost-first non-overlapping match placement is modelled by Python's re on concrete macro texts (trusted)")
    ctx.obligation('display precedence, macro substitution, no-$ unchanged', 'held' if not ctx.violations else 'violated', paths=len(S))


def replay(ctx, path):
    case = json.load(open(path))['case']
    if case is None: return 1
    r = native.run_cases(native.build(), [case])[0]
    print(json.dumps(r)[:600])
    if 'panic' in r or 'hang' in r or 'abort' in r: return 1
    loc = {bytes.fromhex(k): bytes.fromhex(v) for k, v in case.get('localized', [])}
    want = spec_dis(case['rec'], loc, case.get('def') is not None)
    got = bytes.fromhex(r['ok'])
    print('displays as %r, the documented rules give %r' % (got, want))
    return 1 if (want is not None and want != got) else 0
