"""C03 Decoders are total (Zinc reader; engine M)."""
import collections, json, re
import z3
from mirsym import load
from vlib import sym
from vlib.ctx import Inconclusive
from props import zinc_common as zc

GRID = b'ver:"3.0"\n'


def templates(ctx):
    q = ctx.quick()
    T = []
    nmax = 3 if q else 4
    for n in range(0, nmax + 1):
        T.append({'name': 'any%d' % n, 'parts': [n], 'core': True})
    k = 2 if q else 3
    sk = [
        ('grid-cols', [GRID, k]), ('grid-row', [GRID + b'a\n', k]), ('grid-row2', [GRID + b'a,b\n1', k]),
        ('grid-meta', [b'ver:"3.0" ', k]), ('grid-colmeta', [GRID + b'a ', k]),
        ('list', [b'[', k]), ('list2', [b'[1,', k]), ('dict', [b'{', k]), ('dict2', [b'{a:1 ', k]), ('dict3', [b'{a', k]),
        ('nested-grid', [b'<<', k]), ('str', [b'"', k]), ('str-esc', [b'"\\', k]), ('str-u', [b'"\\u', k + 1]), ('str-u4', [b'"\\u', 4, b'"']), ('uri-u4', [b'`\\u', 4, b'`']),
        ('uri', [b'`', k]), ('uri-esc', [b'`\\', k]), ('ref', [b'@', k]), ('ref-dis', [b'@a ', k]), ('sym', [b'^', k]),
        ('coord', [b'C(', k]), ('coord2', [b'C(1,', k]), ('xstr', [b'X(', k]), ('xstr2', [b'Xy("', k]),
        ('num', [b'1', k]), ('num-exp', [b'1e', k]), ('neg', [b'-', k]), ('num-unit', [b'1.5', k]),
        ('time', [b'12:', k]), ('time2', [b'12:30:', k]), ('date', [b'2021-', k]), ('date2', [b'2021-03-', k]),
        ('dt', [b'2021-03-04T', k]), ('dt2', [b'2021-03-04T05:06:07', k]), ('dt3', [b'2021-03-04T05:06:07Z', k]),
        ('dt4', [b'2021-03-04T05:06:07-05:00 ', k]),
        ('lit', [b'N', k]), ('lit2', [b'IN', k]),
        # long tokens: more digits / characters than any fixed-size buffer or machine integer a decoder might use
        ('long-time-frac', [b'12:00:00.012345678901', 1]), ('long-dt-frac', [b'2021-03-04T05:06:07.0123456789012', 1, b'Z']),
        ('long-num', [b'123456789012345678901234567890', 1]), ('long-num-frac', [b'0.123456789012345678901234567890', 1]),
        ('long-exp', [b'1e40', 1]), ('long-exp-neg', [b'1e-40', 1]), ('long-year', [b'12345-01-0', 1]), ('long-date-digits', [b'2021-003-0', 1]),
        ('long-coord', [b'C(12.3456789012345678901234,-0.00000000000000000000001', 1]), ('long-ref', [b'@' + b'a' * 70, 1]),
        ('long-unit', [b'1' + b'x' * 40, 1]),
        # long non-ASCII tokens (anything that cuts, pads or indexes text by bytes)
        ('long-unit-u', [b'42' + '\u65e5'.encode() * 70, 1]), ('long-unit-u2', [b'421' + '\u65e5'.encode() * 70, 1]), ('long-unit-u3', [b'4211' + '\u65e5'.encode() * 70, 1]),
        ('long-str-u', [b'[1 "' + '\u00fc'.encode() * 120 + b'"', 1]), ('long-str-u2', [b'[12 "' + '\u00fc'.encode() * 120 + b'"', 1]),
        ('long-ref-u', [b'ver:@site "x' + '\u00fc'.encode() * 120 + b'"', 1]), ('long-ref-u2', [b'ver:@site "xy' + '\u00fc'.encode() * 120 + b'"', 1]), ('long-zone', [b'2021-03-04T05:06:07+00:00 ' + b'A' * 50, 1]), ('long-hex', [b'"\\u00000000', 1]),
    ]
    for name, parts in sk:
        T.append({'name': 'sk-' + name, 'parts': parts, 'core': False})
    # flat collections of 2 and 9 entries: the decoder's call depth must not grow with the number of entries (only with nesting)
    for nm, mk in (('list', lambda n: b'[' + b','.join([b'1'] * n) + b']'), ('dict', lambda n: b'{' + b' '.join(b'a%d:1' % i for i in range(n)) + b'}'),
                   ('rows', lambda n: GRID + b'a\n' + b'1\n' * n), ('cols', lambda n: GRID + b','.join(b'a%d' % i for i in range(n)) + b'\n')):
        for n in (2, 9): T.append({'name': 'flat-%s-%d' % (nm, n), 'parts': [mk(n)], 'core': False, 'flat': (nm, n)})
    # reader faults: a non-EOF error at every offset of a few documents
    docs = [b'[1,"a"]', GRID + b'a\n1\n', b'{a:1 b}']
    if q: docs = docs[:2]
    for d in docs:
        for off in range(0, len(d) + 1):
            T.append({'name': 'fault-%s@%d' % (d[:4].decode(), off), 'parts': [d], 'fail_at': off, 'core': False})
    return T


def path(ex, t):
    return zc.run_decode(ex, t)


def post(ex, t, r):
    return zc.summarize_decode(ex, t, r)


def fn_of(where):
    if not where: return '?'
    m = re.match(r'^(\S+?) (?:bb\d+|loop)', where)
    nm = m.group(1) if m else where
    return nm.split('::')[-1]


HAYSON_KINDS = {'number': ['val', 'unit'], 'ref': ['val', 'dis'], 'symbol': ['val'], 'uri': ['val'], 'date': ['val'], 'time': ['val'],
                'dateTime': ['val', 'tz'], 'coord': ['lat', 'lng'], 'xstr': ['type', 'val'], 'grid': ['meta', 'cols', 'rows'], 'dict': ['a'],
                'marker': [], 'na': [], 'remove': [], 'bogus': ['val']}


def hayson_templates(ctx):
    return [{'name': 'hayson-' + k, 'hayson': k} for k in HAYSON_KINDS] + [{'name': 'hayson-kind-type', 'hayson': None}] + \
           [{'name': 'hayson-dt-offset', 'hayson': 'dateTime', 'dt_offset': True}, {'name': 'hayson-dt-offset-tz', 'hayson': 'dateTime', 'dt_offset': True, 'tz': b'New_York'}]


def hayson_member(ex, l, conc_numbers=False):
    from mirsym.models_serde import J
    k = ex.pick(8)
    if k == 0: return None
    if k == 1: return J('str', [])
    if k == 2: return J('str', l.text(1))
    if k == 3 and conc_numbers:
        # re-encoding a symbolic float needs int<->float cast reasoning that z3 does not finish: listed values instead
        return J('f64', [1.0, 2.5, -3.0, 1e21, 9007199254740993.0][ex.pick(5)])
    if k == 3:
        x = l.f64(); ex.assume(z3.And(z3.Not(z3.fpIsNaN(x)), z3.Not(z3.fpIsInf(x))))      # JSON numbers are finite
        return J('f64', x)
    if k == 4: return J('null')
    if k == 5: return J('bool', True)
    if k == 6: return J('seq', [J('map', []), J('str', [l.byte([(0x20, 0x7e)])])] if ex.pick(2) else [])
    return J('map', [(list(b'name'), J('str', [l.byte([(0x61, 0x7a)])]))] if ex.pick(2) else [])


def hayson_path(ex, t):
    from mirsym.models_serde import J
    from props.zenc_common import Leaves
    from props import hayson_common as hc
    from mirsym.hv import HV
    l = Leaves(ex)
    if t.get('dt_offset'):
        # a full RFC 3339 text with every offset +-hh:mm (four symbolic digits), with and without a zone name
        sign = [43, 45][ex.pick(2)]
        ds = [l.byte([(48, 57)]) for _ in range(4)]
        val = list(b'2021-06-15T12:30:00') + [sign] + ds[:2] + [58] + ds[2:]
        ent = [(list(b'_kind'), J('str', list(b'dateTime'))), (list(b'val'), J('str', val))]
        if t.get('tz'): ent.append((list(b'tz'), J('str', list(t['tz']))))
        tree = J('map', ent); ex.side['tree'] = tree
        return hc.decode(ex, tree, HV(ex).ty('Value'))
    if t['hayson'] is None:
        kindv = hayson_member(ex, l, t.get('conc_numbers')) or J('null'); members = [(list(b'val'), J('str', [l.byte([(0x20, 0x7e)])]))]
    else:
        kindv = J('str', list(t['hayson'].encode())); members = []
        for m in HAYSON_KINDS[t['hayson']]:
            v = hayson_member(ex, l, t.get('conc_numbers'))
            if v is not None: members.append((list(m.encode()), v))
    ent = [(list(b'_kind'), kindv)] + members
    if ex.pick(2): ent = list(reversed(ent))
    tree = J('map', ent)
    ex.side['tree'] = tree
    return hc.decode(ex, tree, HV(ex).ty('Value'))


def hayson_post(ex, t, r):
    from props import hayson_common as hc
    from mirsym.vj import Concretizer
    if r.kind == 'unsupported': return {'kind': 'unsupported', 'detail': r.detail, 'where': r.where}
    try: m = ex.model()
    except Infeasible: return None
    cz = Concretizer(ex, m)
    tj = hc.tj(cz, ex.side['tree'])
    s = {'kind': r.kind, 'detail': r.detail, 'where': r.where, 'input': json.dumps(tj), 'native_case': {'api': 'json_decode', 'tree': tj}}
    if r.kind == 'ok':
        s['expect'] = 'ok' if r.value.variant == 0 else 'err'
        if r.value.variant == 0:
            try: s['value'] = cz.value(r.value.fields[0])
            except Unsupported as u: s['value_unsupported'] = str(u)
    else: s['expect'] = 'panic' if r.kind == 'panic' else 'hang'
    if ex.side.get('named_zone'): s['zone_axiom'] = True
    return s


class _Hayson:
    path = staticmethod(hayson_path); post = staticmethod(hayson_post)


def run(ctx):
    prog = load.program(ctx.repo, ctx.cache)
    T = templates(ctx)
    ctx.cov['bounds'] = {'fully_symbolic_bytes': 3 if ctx.quick() else 4, 'skeleton_holes': 2 if ctx.quick() else 3,
                         'mir_steps_per_path': 40000, 'call_depth': 60}
    S = sym.explore_templates(ctx, __import__('props.C03', fromlist=['x']), T, prog, split_depth=5,
                              budget_s=240 if ctx.quick() else 1800)
    H = sym.explore_templates(ctx, _Hayson, hayson_templates(ctx), prog, split_depth=4, budget_s=120 if ctx.quick() else 600)
    for h_ in H:
        if h_.get('input') is not None and h_['kind'] != 'unsupported': h_['hayson'] = True
    S = S + H
    sym.native_check(ctx, S)
    byk = collections.Counter(s['kind'] for s in S)
    ctx.cov['path_kinds'] = dict(byk)
    # unbounded recursion: flat collections are decoded in constant call depth
    depth = {s['template']: s.get('maxdepth', 0) for s in S if s.get('template', '').startswith('flat-') and s['kind'] == 'ok'}
    ctx.cov['flat_collection_call_depth'] = depth
    BIG = {'list': lambda: b'[' + b','.join([b'1'] * 300000) + b']', 'dict': lambda: b'{' + b' '.join(b'a%d:1' % i for i in range(200000)) + b'}',
           'rows': lambda: GRID + b'a\n' + b'1\n' * 300000, 'cols': lambda: GRID + b','.join(b'a%d' % i for i in range(200000)) + b'\n'}
    for nm in ('list', 'dict', 'rows', 'cols'):
        d2, d9 = depth.get('flat-%s-2' % nm), depth.get('flat-%s-9' % nm)
        if d2 is None or d9 is None: ctx.note_inconclusive('flat %s: no depth measurement' % nm); continue
        if d9 > d2:
            case = {'api': 'zinc_decode', 'in': BIG[nm]().hex()}
            n_ = native.run_cases(native.build(), [case], per_case_timeout=120)[0]
            if 'abort' in n_ or 'hang' in n_ or 'panic' in n_:
                ctx.report('zinc.decode.recursion:flat-%s' % nm, 'the call depth of the decoder grows with the number of entries of a flat %s (%d frames for 2, %d for 9); a flat %s of 2-3e5 entries: %s' % (nm, d2, d9, nm, str(n_)[:80]), case=case)
            else: ctx.note_inconclusive('call depth grows with a flat %s (%d -> %d frames) but a very long one decodes natively' % (nm, d2, d9))
    mism = 0; validated = 0
    unsup = collections.Counter()
    for s in S:
        if s['kind'] == 'unsupported':
            unsup[s['detail'][:100]] += 1; continue
        if s.get('native') is None: continue
        d = zc.compare(s)
        if d is not None:
            mism += 1
            if mism <= int(__import__("os").environ.get("VERIF_SHOW", "5")): print('MODEL-MISMATCH template=%s input=%s: %s' % (s['template'], s['input'], d))
            continue
        validated += 1
        if s['expect'] in ('panic', 'hang'):
            kind = 'panic' if s['expect'] == 'panic' else 'nonterm'
            key = '%s.decode.%s:%s' % ('hayson' if s.get('hayson') else 'zinc', kind, fn_of(s.get('where')))
            what = '%s in %s on input %r (native: %s)' % (s['detail'], s.get('where'), s['input'] if s.get('hayson') else bytes.fromhex(s['input']), str(s['native'])[:120])
            ctx.report(key, what, case=s['native_case'])
    ctx.cov['traces_validated_against_impl'] += validated
    for s in S[:6]:
        ctx.add_sample({'template': s['template'], 'input': s.get('input'), 'mirsym': s.get('expect'), 'native': str(s.get('native'))[:80]})
    ctx.cov['unsupported_paths'] = dict(unsup)
    if mism: ctx.note_inconclusive('%d paths where the native build disagrees with the encoding (model mismatch)' % mism)
    nun = sum(unsup.values())
    if nun: ctx.note_inconclusive('%d paths ended in an unmodelled construct: %s' % (nun, list(unsup)[:3]))
    ctx.assume('std float text: parse/Display of decimals with more than 15 significant digits or |exp|>22 is axiomatised')
    ctx.obligation('no-panic-no-hang', 'held' if not ctx.violations else 'violated', paths=len(S))


def replay(ctx, path):
    from vlib import native
    case = json.load(open(path))['case']
    r = native.run_cases(native.build(), [case])[0]
    print(json.dumps(r)[:400])
    return 1 if native.outcome(r) in ('panic', 'hang', 'abort') else 0
