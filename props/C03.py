"""C03 Decoders are total (Zinc reader; engine M)."""
import collections, json, re
from mirsym import load
from vlib import sym
from vlib.ctx import Inconclusive
from props import zinc_common as zc

GRID = b'ver:"3.0"\n'


def templates(ctx):
    q = ctx.quick()
    T = []
    nmax = 3 if q else 4
    for n in range(0, nmax + 1):
        T.append({'name': 'any%d' % n, 'parts': [n], 'core': True})
    k = 2 if q else 3
    sk = [
        ('grid-cols', [GRID, k]), ('grid-row', [GRID + b'a\n', k]), ('grid-row2', [GRID + b'a,b\n1', k]),
        ('grid-meta', [b'ver:"3.0" ', k]), ('grid-colmeta', [GRID + b'a ', k]),
        ('list', [b'[', k]), ('list2', [b'[1,', k]), ('dict', [b'{', k]), ('dict2', [b'{a:1 ', k]), ('dict3', [b'{a', k]),
        ('nested-grid', [b'<<', k]), ('str', [b'"', k]), ('str-esc', [b'"\\', k]), ('str-u', [b'"\\u', k + 1]),
        ('uri', [b'`', k]), ('uri-esc', [b'`\\', k]), ('ref', [b'@', k]), ('ref-dis', [b'@a ', k]), ('sym', [b'^', k]),
        ('coord', [b'C(', k]), ('coord2', [b'C(1,', k]), ('xstr', [b'X(', k]), ('xstr2', [b'Xy("', k]),
        ('num', [b'1', k]), ('num-exp', [b'1e', k]), ('neg', [b'-', k]), ('num-unit', [b'1.5', k]),
        ('time', [b'12:', k]), ('time2', [b'12:30:', k]), ('date', [b'2021-', k]), ('date2', [b'2021-03-', k]),
        ('dt', [b'2021-03-04T', k]), ('dt2', [b'2021-03-04T05:06:07', k]), ('dt3', [b'2021-03-04T05:06:07Z', k]),
        ('dt4', [b'2021-03-04T05:06:07-05:00 ', k]),
        ('lit', [b'N', k]), ('lit2', [b'IN', k]),
    ]
    for name, parts in sk:
        T.append({'name': 'sk-' + name, 'parts': parts, 'core': False})
    # reader faults: a non-EOF error at every offset of a few documents
    docs = [b'[1,"a"]', GRID + b'a\n1\n', b'{a:1 b}']
    if q: docs = docs[:2]
    for d in docs:
        for off in range(0, len(d) + 1):
            T.append({'name': 'fault-%s@%d' % (d[:4].decode(), off), 'parts': [d], 'fail_at': off, 'core': False})
    return T


def path(ex, t):
    return zc.run_decode(ex, t)


def post(ex, t, r):
    return zc.summarize_decode(ex, t, r)


def fn_of(where):
    if not where: return '?'
    m = re.match(r'^(\S+?) (?:bb\d+|loop)', where)
    nm = m.group(1) if m else where
    return nm.split('::')[-1]


def run(ctx):
    prog = load.program(ctx.repo, ctx.cache)
    T = templates(ctx)
    ctx.cov['bounds'] = {'fully_symbolic_bytes': 3 if ctx.quick() else 4, 'skeleton_holes': 2 if ctx.quick() else 3,
                         'mir_steps_per_path': 40000, 'call_depth': 60}
    S = sym.explore_templates(ctx, __import__('props.C03', fromlist=['x']), T, prog, split_depth=5,
                              budget_s=240 if ctx.quick() else 1800)
    sym.native_check(ctx, S)
    byk = collections.Counter(s['kind'] for s in S)
    ctx.cov['path_kinds'] = dict(byk)
    mism = 0; validated = 0
    unsup = collections.Counter()
    for s in S:
        if s['kind'] == 'unsupported':
            unsup[s['detail'][:100]] += 1; continue
        if s.get('native') is None: continue
        d = zc.compare(s)
        if d is not None:
            mism += 1
            if mism <= int(__import__("os").environ.get("VERIF_SHOW", "5")): print('MODEL-MISMATCH template=%s input=%s: %s' % (s['template'], s['input'], d))
            continue
        validated += 1
        if s['expect'] in ('panic', 'hang'):
            kind = 'panic' if s['expect'] == 'panic' else 'nonterm'
            key = 'zinc.decode.%s:%s' % (kind, fn_of(s.get('where')))
            what = '%s in %s on input %r (native: %s)' % (s['detail'], s.get('where'), bytes.fromhex(s['input']), str(s['native'])[:120])
            ctx.report(key, what, case=s['native_case'])
    ctx.cov['traces_validated_against_impl'] += validated
    for s in S[:6]:
        ctx.add_sample({'template': s['template'], 'input': s.get('input'), 'mirsym': s.get('expect'), 'native': str(s.get('native'))[:80]})
    ctx.cov['unsupported_paths'] = dict(unsup)
    if mism: ctx.note_inconclusive('%d paths where the native build disagrees with the encoding (model mismatch)' % mism)
    nun = sum(unsup.values())
    if nun: ctx.note_inconclusive('%d paths ended in an unmodelled construct: %s' % (nun, list(unsup)[:3]))
    ctx.assume('std float text: parse/Display of decimals with more than 15 significant digits or |exp|>22 is axiomatised')
    ctx.obligation('no-panic-no-hang', 'held' if not ctx.violations else 'violated', paths=len(S))


def replay(ctx, path):
    from vlib import native
    case = json.load(open(path))['case']
    r = native.run_cases(native.build(), [case])[0]
    print(json.dumps(r)[:400])
    return 1 if native.outcome(r) in ('panic', 'hang', 'abort') else 0
