"""Shared machinery for C17/C18: drive every `extern "C"` function of src/c_api from its MIR body, one call from an
arbitrary pool of value handles (symbolic payloads), with an object-granular heap model (allocation records on Box / CString
cells, drop tracking), and summarise the outcome in the JSON form the native driver (replay api "capi") produces."""
import os, re, json, struct, datetime, importlib.util
import z3
from mirsym.values import *
from mirsym.hv import HV
from mirsym.models import some, none, deref, items_of, string_of, str_ref, conc_bytes
from mirsym.vj import Concretizer, norm_native
from mirsym.engine import F64
from props.zenc_common import Leaves, sym_date, sym_time

ROOT = os.path.dirname(os.path.dirname(os.path.abspath(__file__)))
KINDS = ['null', 'marker', 'na', 'remove', 'bool', 'num', 'str', 'ref', 'sym', 'uri', 'xstr', 'coord', 'date', 'time', 'dt', 'list', 'dict', 'grid']
U32MAX = (1 << 32) - 1
USIZEMAX = (1 << 64) - 1
NANBITS = '7ff8000000000000'


def signatures(repo):
    spec = importlib.util.spec_from_file_location('gen_capi', os.path.join(ROOT, 'tools', 'gen_capi.py'))
    g = importlib.util.module_from_spec(spec); spec.loader.exec_module(g)
    return [(mod, name, [(pn, g.norm(t)) for pn, t in params], g.norm(ret)) for mod, name, params, ret in g.signatures(repo)]


# --------------------------------------------------------------------------- pool values (symbolic payloads)
TEXTUAL = ('haystack_value_to_zinc_string', 'haystack_value_to_json_string')


DEEP = [False]       # thorough tier: larger containers and strings (set per template in the worker)


def make_value(ex, h, l, kind, fn=''):
    """a value of the given kind; payloads symbolic, container shapes chosen by forks.  For the two encoder entry points
    floats are short decimals (the float -> text model needs decimal provenance); elsewhere any f64"""
    from props.zenc_common import dec_float
    if fn == 'haystack_value_to_json_string': fl = lambda: [12.5, 3.0, -0.5][ex.pick(3)]     # serde_json's float writer is not modelled on symbolic floats
    else: fl = (lambda: dec_float(ex, l, 1, 1)) if fn in TEXTUAL else l.f64
    if kind == 'null': return h.null()
    if kind == 'marker': return h.marker()
    if kind == 'na': return h.na()
    if kind == 'remove': return h.remove()
    if kind == 'bool': return h.bool_(l.boolean())
    if kind == 'num':
        x = fl()
        return h.num(x, 'meter' if ex.pick(2) else None)
    if kind == 'str':
        n = ex.pick(3 if DEEP[0] else 2)
        return h.str_([l.byte([(0, 0x7f)]) for _ in range(n)])
    if kind == 'ref': return h.ref([l.byte([(0, 0x7f)])], [l.byte([(0, 0x7f)])] if ex.pick(2) else None)
    if kind == 'sym': return h.sym([l.byte([(0, 0x7f)])])
    if kind == 'uri': return h.uri([l.byte([(0, 0x7f)])])
    if kind == 'xstr': return h.xstr([l.byte([(0, 0x7f)])], [l.byte([(0, 0x7f)])])
    if kind == 'coord': return h.coord(fl(), fl())
    if kind == 'date': return h.date(*sym_date(ex, l))
    if kind == 'time':
        hh, mi, ss, _ = sym_time(ex, l)
        return h.time(hh, mi, ss, 123000000 if ex.pick(2) else 0)
    if kind == 'dt':
        k = ex.pick(3)
        if k == 0: return h.dt(2021, 3, 4, 5, 6, 7, 0, 0, 'UTC')
        if k == 1: return h.dt(2021, 1, 15, 23, 59, 59, 0, -18000, 'America/New_York')      # local date != UTC date
        return h.dt(2021, 6, 15, 1, 30, 0, 0, 19800, 'Asia/Kolkata')                          # local date != UTC date, fractional offset
    if kind == 'list':
        # three element mixes: scalars only; dicts with a non-dict in between (grid construction from rows); a non-dict first
        k = ex.pick(3)
        if k == 0: els = [h.marker(), h.str_([l.byte([(0x61, 0x7a)])]), h.num(3.0), h.list_([h.na()])]
        elif k == 1: els = [h.dict_([(b'a', h.num(1.0))]), h.str_(list(b'x')), h.dict_([(b'b', h.num(2.0))]), h.dict_([(b'a', h.marker()), (b'c', h.na())])]
        else: els = [h.marker(), h.dict_([(b'a', h.num(1.0))]), h.dict_([(b'b', h.str_([l.byte([(0x61, 0x7a)])]))])]
        n = ex.pick(min(len(els), 4 if DEEP[0] else 3) + 1)
        return h.list_(els[:n])
    if kind == 'dict':
        pairs = []
        if ex.pick(2): pairs.append((b'a', h.num(1.0)))
        if ex.pick(2): pairs.append((b'b', h.str_([l.byte([(0x61, 0x7a)])])))
        if DEEP[0] and ex.pick(2): pairs.append((b'c', h.dict_([(b'a', h.marker())])))
        return h.dict_(pairs)
    if kind == 'grid':
        n = ex.pick(4 if DEEP[0] else 3)
        rows = [[(b'a', h.num(1.0))], [(b'a', h.num(2.0)), (b'b', h.marker())], [(b'b', h.str_([l.byte([(0x61, 0x7a)])]))]][:n]
        meta = [(b'm', h.marker())] if ex.pick(2) else None
        return h.grid(meta, [(b'a', None), (b'b', None)], rows)
    raise ValueError(kind)


# --------------------------------------------------------------------------- heap model
class Heap:
    def __init__(s, ex):
        s.ex = ex; s.allocs = []; s.dropped = {}; s.events = []; s.where = {}
        ex.side['alloc_hook'] = s.on_alloc
        ex.side['from_raw_hook'] = s.on_from_raw
        ex.side['drop_hook'] = s.on_drop

    def new(s, cell, kind, origin):
        a = Alloc(kind, len(s.allocs), origin); s.allocs.append(a); cell.alloc = a
        s.where[a.id] = s.ex.where() if origin == 'call' else None
        return a

    def on_alloc(s, ex, cell, kind): s.new(cell, kind, 'call')

    def on_from_raw(s, ex, ptr, kind):
        a = ptr.cell.alloc if isinstance(ptr, Ptr) else None
        if a is None: raise Panic('bad-free', '%s::from_raw of a pointer that is no %s allocation' % (kind, kind), ex.where())
        if a.state != 'live': raise Panic('double-free', '%s::from_raw of %s allocation #%d' % (kind, a.state, a.id), ex.where())
        if a.kind != kind: raise Panic('bad-free', '%s::from_raw of a %s allocation' % (kind, a.kind), ex.where())
        if kind == 'CString': a.state = 'freed'       # the CString is dropped at the end of the only scope that reclaims it
        else: a.state = 'boxed'                       # owned by a Box again: freed when that Box is dropped

    def on_drop(s, ex, v):
        if isinstance(v, Ptr):
            a = v.cell.alloc
            if a is not None and a.kind == 'Box':
                if a.state == 'freed': raise Panic('double-free', 'drop of freed Box #%d' % a.id, ex.where())
                a.state = 'freed'
                s.note_dropped(v.cell.v)
            return
        if isinstance(v, Agg):
            if v.ty == 'Option' and v.variant == 1: return s.on_drop(ex, v.fields[0])
            s.note_dropped(v)

    def note_dropped(s, v):
        if isinstance(v, Agg):
            k = id(v)
            if k in s.dropped: raise Panic('double-drop', 'value dropped twice', s.ex.where())
            s.dropped[k] = v


# --------------------------------------------------------------------------- one call
class Call:
    """descriptor of one concrete-shaped call built on a path; .args are mirsym values, .desc is the native arg JSON skeleton"""
    pass


def string_domain(fn, pname):
    """C string arguments worth distinguishing for this parameter"""
    if 'unit' in pname: return [b'm', b'meter', b'%', b'zz', b'', b'\xff']
    if pname == 'tz': return [b'UTC', b'New_York', b'Asia/Kolkata', b'Nowhere', b'', b'\xff']
    if pname == 'key': return [b'a', b'b', b'c', b'', b'\xff']
    if fn == 'haystack_value_from_zinc_string': return [b'1', b'"x"', b'[1,M]', b'{a:1}', b'ver:"3.0"\na\n1\n', b'', b'[', b'\xff']
    if fn == 'haystack_value_from_json_string':
        return [b'1', b'"x"', b'[1,{"_kind":"marker"}]', b'{"a":1}', b'{"_kind":"number","val":1,"unit":"zz"}', b'', b'[', b'\xff',
                b'{"_kind":"ref","val":"a","dis":"b"}', b'{"_kind":"grid","meta":{"ver":"3.0"},"cols":[{"name":"a"}],"rows":[{"a":1}]}']
    if fn == 'haystack_filter_parse': return [b'a', b'a == 1', b'a and b', b'', b'(', b'\xff']
    return None      # free text: symbolic bytes


FILTERS = ['a', 'b', 'a == 1', 'a and b', 'not a', 'a < 2']


def build_call(ex, fn, params, plan=None):
    """choose every argument by forks; returns (argv, desc, pool_cells, heap-tracked cells).  `plan` optionally fixes the
    choice of some parameters: {index: choice}"""
    h = HV(ex); l = Leaves(ex)
    pool = []          # cells of the handles
    argv = []; desc = []
    heap = ex.side['heap']
    for i, (pn, t) in enumerate(params):
        if t in ('*const Value', '*mut Value'):
            k = ex.pick(len(KINDS) + (0 if fn == 'haystack_value_destroy' else 1))
            if k == len(KINDS): argv.append(NULL); desc.append(None); continue
            v = make_value(ex, h, l, KINDS[k], fn)
            c = Cell(v); heap.new(c, 'Box', 'pre'); pool.append(c)
            argv.append(Ptr(c)); desc.append({'h': len(pool) - 1})
        elif t == '*mut *const Value':
            if ex.pick(2): argv.append(NULL); desc.append(None)
            else:
                c = Cell('unset'); argv.append(Ptr(c)); desc.append({'outp': 1, '_cell': c})
        elif t in ('*const c_char', '*mut c_char'):
            dom = string_domain(fn, pn)
            if t == '*mut c_char':
                # haystack_string_destroy: the protocol excludes null for the two destroy functions
                bs = [l.byte([(1, 0x7f)])]
                c = Cell(VecV(bs, 'cstring')); heap.new(c, 'CString', 'pre')
                argv.append(Ptr(c)); desc.append({'s': bs}); continue
            if dom is None:
                k = ex.pick(4)
                if k == 3: argv.append(NULL); desc.append(None); continue
                bs = [[], [l.byte([(1, 0x7f)])], [0xff]][k]
            else:
                k = ex.pick(len(dom) + 1)
                if k == len(dom): argv.append(NULL); desc.append(None); continue
                bs = list(dom[k])
            c = Cell(VecV(list(bs), 'cstring')); heap.new(c, 'cstr-arg', 'pre')
            argv.append(Ptr(c)); desc.append({'s': bs})
        elif t == '*const Filter':
            k = ex.pick(len(FILTERS) + 1)
            if k == len(FILTERS): argv.append(NULL); desc.append(None); continue
            f = ex.prog.find_method('haystack::filter::Filter', 'TryFrom', 'try_from')
            r = ex.call_body(f, [str_ref(list(FILTERS[k].encode()))])
            c = Cell(r.fields[0]); heap.new(c, 'Box', 'pre-filter')
            argv.append(Ptr(c)); desc.append({'filter': FILTERS[k]})
        elif t == 'bool':
            b = l.boolean(); argv.append(b); desc.append({'b': b})
        elif t == 'f64':
            x = l.f64(); argv.append(x); desc.append({'f': x})
        elif t in ('u32', 'i32', 'usize'):
            bits = 64 if t == 'usize' else 32
            x = z3.BitVec('n%d' % l.n, bits); l.n += 1
            if pn == 'year': ex.assume(z3.And(x >= 0, x <= 9999))       # bound of the calendar model (stated)
            argv.append(x); desc.append({'n': x, '_t': t})
        else:
            raise Unsupported('parameter type ' + t)
    return argv, desc, pool


def ret_json(ex, cz, r, rt, heap):
    """return value -> native JSON form; also names the allocation that escapes through it"""
    esc = None
    if rt == 'f64': return {'f': cz.bits(r)}, esc
    if rt in ('u32', 'i32', 'usize', 'u64', 'i64'):
        v = cz.c(r)
        if rt == 'i32' and v >= 1 << 31: v -= 1 << 32
        return {'n': str(v)}, esc
    if rt == 'ResultType':
        d = ex.discriminant(r); d = cz.c(d)
        # enum ResultType { ERR = -1, FALSE = 0, TRUE = 1 }: variant index -> value
        return {'r': [-1, 0, 1][r.variant] if isinstance(r, Agg) else d}, esc
    if rt == 'bool': return {'b': bool(cz.c(r))}, esc
    if rt == '*const c_char':
        if r is NULL or isinstance(r, NullPtr): return None, esc
        esc = r.cell.alloc
        return {'s': cz.bytes_(r.cell.v).hex()}, esc
    if rt in ('Box<Value>', 'Option<Box<Value>>', 'Option<Box<Filter>>'):
        if rt.startswith('Option'):
            if r.variant == 0: return None, esc
            r = r.fields[0]
        esc = r.cell.alloc
        if rt.endswith('Filter>>'): return {'filter': '?'}, esc
        return {'v': cz.value(r.cell.v)}, esc
    if rt == '()': return None, esc
    raise Unsupported('return type ' + rt)


def locate(ex, target, pool):
    """which pool container holds (by identity) the value a borrowed pointer designates"""
    for hi, c in enumerate(pool):
        v = c.v
        if not isinstance(v, Agg) or not v.fields: continue
        p = v.fields[0]
        while isinstance(p, Ptr): p = ex.load(p)
        if isinstance(p, VecV):
            for i, e in enumerate(p.items):
                if e is target: return {'h': hi, 'i': i}
        elif isinstance(p, Agg):
            m = p.fields[0] if p.fields else None
            while isinstance(m, Ptr): m = ex.load(m)
            if isinstance(m, Agg) and m.fields and isinstance(m.fields[0], VecV):
                for kv in m.fields[0].items:
                    if kv.fields[1] is target: return {'h': hi, 'k': kv.fields[0]}
    return None


def last_error(ex, cz):
    """take the thread-local error the way last_error_message does; -> hex | '?' (present, text not modelled) | None"""
    b = ex.prog.find_fn(['last_error_message'])
    from mirsym.models_fmt import Lossy
    slot = None
    for c in ex.side.get('tls', {}).values():
        o = c.v.fields[0]
        if isinstance(o, Agg) and o.variant == 1 and isinstance(o.fields[0], Ptr): slot = (c, o.fields[0].cell.alloc)
    try:
        r = ex.call_body(b, [])
    except (Unsupported, Lossy):
        # the message text is not modelled (std error Display): the slot's Box is released as the real function does
        if slot is not None:
            if slot[1] is not None: slot[1].state = 'freed'
            slot[0].v.fields[0] = none()
        return '?'
    if r is NULL or isinstance(r, NullPtr): return None
    r.cell.alloc.state = 'freed'          # the driver destroys the message
    bs = cz.bytes_(r.cell.v)
    return '?' if b'<debug>' in bs else bs.hex()


def conc_desc(cz, d):
    if d is None: return None
    if 'h' in d: return {'h': d['h']}
    if 'outp' in d: return {'outp': 1}
    if 's' in d: return {'s': bytes(cz.c(b) & 0xff for b in d['s']).hex()}
    if 'filter' in d: return {'filter': d['filter']}
    if 'b' in d: return {'b': bool(cz.c(d['b']))}
    if 'f' in d: return {'f': cz.bits(d['f'])}
    if 'n' in d:
        v = cz.c(d['n'])
        if d.get('_t') == 'i32' and v >= 1 << 31: v -= 1 << 32
        return {'n': str(v)}
    raise ValueError(d)


def clone_val(v):
    if isinstance(v, Agg): return Agg(v.ty, v.variant, [clone_val(f) for f in v.fields])
    if isinstance(v, VecV): return VecV([clone_val(x) for x in v.items], v.kind)
    return v


def run_one(ex, fn, sig, plan=None):
    """build the arguments, run the extern fn body, return the state needed by post()"""
    mod, name, params, rt = sig
    heap = Heap(ex); ex.side['heap'] = heap
    DEEP[0] = bool(plan and plan.get('deep'))
    st = {'fn': name, 'stage': 'build'}; ex.side['st'] = st
    argv, desc, pool = build_call(ex, name, params, plan)
    st.update(argv=argv, desc=desc, pool=pool, orig=[c.v for c in pool], rt=rt, params=params)
    st['pre'] = [clone_val(c.v) for c in pool]      # containers are mutated in place: keep a structural copy of the pre-state
    body = ex.prog.find_fn([name])
    if body is None: raise Unsupported('no MIR body for ' + name)
    st['stage'] = 'call'
    st['ret'] = ex.call_body(body, argv)
    st['stage'] = 'done'
    return st


def summarise(ex, st, r):
    """-> dict with native case, predicted outcome, heap verdicts (under one model of the path)"""
    m = ex.model()
    cz = Concretizer(ex, m)
    heap = ex.side['heap']
    s = {'fn': st['fn']}
    # arguments + pool BEFORE the call need the original objects; containers are mutated in place, so the pre-state is
    # re-derived from the descriptors recorded before the call
    s['args'] = [conc_desc(cz, d) for d in st['desc']]
    s['pool_pre'] = [cz.value(v) for v in st['pre']]
    out = {}
    mem = []
    if r.kind == 'panic':
        s['panic'] = r.detail
    else:
        ret, esc = ret_json(ex, cz, st['ret'], st['rt'], heap)
        out['ret'] = ret
        for d, (pn, pt) in zip(st['desc'], st['params']):
            if d is None and pt == '*mut *const Value': out['outp'] = None
            if d and 'outp' in d:
                c = d['_cell']
                if c.v == 'unset': out['outp'] = 'unset'
                elif c.v is NULL or isinstance(c.v, NullPtr): out['outp'] = None
                else:
                    tgt = ex.load(c.v)
                    loc = locate(ex, tgt, st['pool'])
                    if loc is None: out['outp'] = {'dangling': True}; mem.append('borrowed pointer does not point into a live container of the pool')
                    else:
                        if 'k' in loc: loc['k'] = cz.hexs(loc['k'])
                        loc['v'] = cz.value(tgt); out['outp'] = loc
        # the caller retrieves (and destroys) the error message: part of the protocol, so the slot's Box is released first
        out['err'] = last_error(ex, cz)
        out['err_cleared'] = last_error(ex, cz) is None
        # heap verdicts
        if ret is not None and st['rt'] == '*const c_char' and (esc is None or esc.kind != 'CString'):
            mem.append('dangling: the returned string is not an allocation released with CString::into_raw (the caller will free it)')
        if ret is not None and st['rt'] in ('Box<Value>', 'Option<Box<Value>>', 'Option<Box<Filter>>') and (esc is None or esc.kind != 'Box'):
            mem.append('dangling: the returned handle is not a Box allocation')
        destroy = st['fn'] in ('haystack_value_destroy', 'haystack_string_destroy')
        for a in heap.allocs:
            if a.origin and a.origin.startswith('pre'):
                if destroy and a.kind in ('Box', 'CString') and a.origin == 'pre':
                    if a.state != 'freed': mem.append('destroy left allocation #%d %s' % (a.id, a.state))
                elif a.state != 'live': mem.append('allocation #%d (%s, owned by the caller) is %s after the call' % (a.id, a.kind, a.state))
            else:
                if a is esc:
                    if a.state != 'live': mem.append('returned allocation #%d is %s' % (a.id, a.state))
                elif a.state == 'live': mem.append('leak: %s allocation #%d made during the call is neither returned nor freed' % (a.kind, a.id))
                elif a.state == 'boxed': mem.append('leak: Box #%d reclaimed by from_raw is never dropped' % a.id)
        if not destroy:
            for c, o in zip(st['pool'], st['orig']):
                if c.v is not o and id(o) not in heap.dropped: mem.append('leak: the value previously held by an overwritten handle was not dropped')
                if c.v is o and id(o) in heap.dropped: mem.append('a handle still holds a value that was dropped')
        out['pool'] = [None if (c.alloc.state == 'freed') else cz.value(c.v) for c in st['pool']]
    s['out'] = out; s['mem'] = mem
    return s
