"""C09 The filter parser is total (engine M): Filter::try_from over symbolic text."""
import collections, json, re
import z3
from mirsym import load
from mirsym.values import *
from mirsym.models import str_ref
from mirsym.fj import FilterDump
from mirsym.engine import conc_value
from mirsym.vj import norm_native
from vlib import sym, native
from props.zinc_common import strip_bits, strip_dt


def templates(ctx):
    q = ctx.quick()
    T = []
    nmax = 3 if q else 4
    for n in range(0, nmax + 1):
        T.append({'name': 'any%d' % n, 'parts': [n]})
    k = 2 if q else 3
    sk = [('cmp', [b'a ', k]), ('cmp-op', [b'a ==', k]), ('cmp-lt', [b'a<', k]), ('and', [b'a and', k]), ('or', [b'a or ', k]),
          ('not', [b'not ', k]), ('paren', [b'(', k]), ('paren2', [b'(a', k]), ('paren3', [b'((a)', k]), ('path', [b'a->', k]),
          ('path2', [b'a->b', k]), ('sym', [b'^', k]), ('rel', [b'a?', k]), ('rel2', [b'a? ^b', k]), ('rel3', [b'a-b? ', k]),
          ('weq', [b'a *==', k]), ('weq2', [b'a *== @', k]), ('str', [b'a == "', k]), ('uri', [b'a == `', k]), ('num', [b'a == 1', k]),
          ('date', [b'a == 2021-', k]), ('time', [b'a == 12:', k]), ('ref', [b'a == @x ', k]), ('bool', [b'a == t', k]),
          ('dt', [b'a == 2021-03-04T05:06:07Z', k]), ('nonascii', ['a == "é"'.encode(), k]), ('op-noarg', [b'a and and', k]),
          ('close', [b'a)', k]), ('deep', [b'((((a))))', k])]
    # non-ASCII characters where a token is expected or right behind the last token (error paths that touch the text)
    U = ['é', 'ß', 'ø', '\u20ac', '\U0001F600']
    for i, (nm, pre) in enumerate([('u-start', ''), ('u-cmp', 'a == '), ('u-and', 'site and '), ('u-lt', 'a <'), ('u-not', 'not '), ('u-path', 'a->'),
                                   ('u-paren', '(a and '), ('u-after', 'a == 1 '), ('u-weq', 'a *== @x '), ('u-or', 'a or '),
                                   # ... glued to a name, path segment, ref, symbol, number, date, keyword (no space in between)
                                   ('u-name', 'site'), ('u-name2', 'a and b'), ('u-seg', 'a->dis'), ('u-ref', 'id == @abc'), ('u-symb', '^site'),
                                   ('u-num', 'a == 1'), ('u-date', 'a == 2021-03-04'), ('u-kw', 'a and'), ('u-bool', 'a == true'), ('u-rel', 'a? ^b')]):
        T.append({'name': 'sk-' + nm, 'parts': [(pre + U[i % len(U)]).encode('utf-8'), 1]})
        if not q: T.append({'name': 'sk-' + nm + '2', 'parts': [(pre + U[(i + 2) % len(U)]).encode('utf-8'), 1]})
    for name, parts in sk:
        T.append({'name': 'sk-' + name, 'parts': parts})
    # flat chains of 2 and 9 operands: the parser's call depth must not grow with the number of operands (only with nesting)
    for op in (b'and', b'or'):
        for n in (2, 9): T.append({'name': 'chain-%s-%d' % (op.decode(), n), 'parts': [(b' ' + op + b' ').join([b'a'] * n)]})
    return T


def sym_text(t):
    data = []; syms = []
    for part in t['parts']:
        if isinstance(part, (bytes, bytearray)): data += list(part)
        else:
            for _ in range(part):
                v = z3.BitVec('b%d' % len(syms), 8); syms.append(v); data.append(v)
    return data, syms


def path(ex, t):
    data, syms = sym_text(t)
    ex.side['input'] = data
    for v in syms: ex.assume(z3.ULT(v, 0x80))      # &str: symbolic holes range over ASCII (stated bound)
    b = ex.prog.find_method('haystack::filter::Filter', 'TryFrom', 'try_from')
    return ex.call_body(b, [str_ref(data)])


def post(ex, t, r):
    if r.kind == 'unsupported': return {'kind': 'unsupported', 'detail': r.detail, 'where': r.where}
    try: m = ex.model()
    except Infeasible: return None
    inp = bytes((conc_value(m.eval(b, model_completion=True)) if is_sym(b) else b) & 0xFF for b in ex.side['input'])
    s = {'kind': r.kind, 'detail': r.detail, 'where': r.where, 'input': inp.hex(), 'native_case': {'api': 'filter_parse', 'in': inp.hex()}}
    if ex.side.get('axiomatised_floats'): s['float_axiom'] = True
    if ex.side.get('named_zone'): s['zone_axiom'] = True
    if r.kind == 'ok':
        if r.value.variant == 0:
            s['expect'] = 'ok'
            try: s['value'] = FilterDump(ex, m).or_(r.value.fields[0].fields[0])
            except Unsupported as u: s['value_unsupported'] = str(u)
        else: s['expect'] = 'err'
    elif r.kind == 'panic': s['expect'] = 'panic'
    else: s['expect'] = 'hang'
    return s


def compare(s):
    n = s.get('native')
    if n is None: return None
    o = native.outcome(n); e = s['expect']
    if e == 'hang': return None if o in ('hang', 'abort') else 'mirsym: bound exceeded (%s), native: %s' % (s.get('detail'), o)
    if e == 'panic': return None if o in ('panic', 'abort') else 'mirsym: panic %s, native: %s' % (s.get('detail'), o)
    if e != o: return 'mirsym: %s, native: %s %s' % (e, o, str(n)[:200])
    if e == 'ok' and 'value' in s:
        nv = norm_native(n['ok']); sv = s['value']
        if s.get('zone_axiom'): nv, sv = strip_dt(nv), strip_dt(sv)
        if s.get('float_axiom'): nv, sv = strip_bits(nv), strip_bits(sv)
        if nv != sv: return 'trees differ: mirsym %s native %s' % (str(sv)[:300], str(nv)[:300])
    return None


def fn_of(where):
    if not where: return '?'
    m = re.match(r'^(\S+?) (?:bb\d+|loop)', where)
    return (m.group(1) if m else where).split('::')[-1]


def run(ctx):
    import os
    prog = load.program(ctx.repo, ctx.cache)
    T = templates(ctx)
    ctx.cov['bounds'] = {'fully_symbolic_ascii_bytes': 3 if ctx.quick() else 4, 'skeleton_holes': 2 if ctx.quick() else 3,
                         'mir_steps_per_path': 40000, 'call_depth': 60}
    S = sym.explore_templates(ctx, __import__('props.C09', fromlist=['x']), T, prog, split_depth=5, budget_s=240 if ctx.quick() else 1800)
    sym.native_check(ctx, S)
    ctx.cov['path_kinds'] = dict(collections.Counter(s['kind'] for s in S))
    mism = 0; validated = 0; unsup = collections.Counter()
    for s in S:
        if s['kind'] == 'unsupported': unsup[s['detail'][:100]] += 1; continue
        if s.get('native') is None: continue
        d = compare(s)
        if d is not None:
            mism += 1
            if mism <= int(os.environ.get('VERIF_SHOW', '5')): print('MODEL-MISMATCH template=%s input=%r: %s' % (s['template'], bytes.fromhex(s['input']), d))
            continue
        validated += 1
        if s['expect'] in ('panic', 'hang'):
            kind = 'panic' if s['expect'] == 'panic' else 'nonterm'
            ctx.report('filter.parse.%s:%s' % (kind, fn_of(s.get('where'))),
                       '%s in %s on input %r (native: %s)' % (s['detail'], s.get('where'), bytes.fromhex(s['input']), str(s['native'])[:120]), case=s['native_case'])
    # unbounded recursion: a flat `a and a and ...` / `a or a or ...` must be parsed in constant call depth
    depth = {s['template']: s.get('maxdepth', 0) for s in S if s.get('template', '').startswith('chain-') and s['kind'] == 'ok'}
    ctx.cov['flat_chain_call_depth'] = depth
    for op in ('and', 'or'):
        d2, d9 = depth.get('chain-%s-2' % op), depth.get('chain-%s-9' % op)
        if d2 is None or d9 is None: ctx.note_inconclusive('flat chain %s: no depth measurement' % op); continue
        if d9 > d2:
            # confirm natively: a flat chain long enough to exhaust the stack if the depth is linear in it
            big = (b' ' + op.encode() + b' ').join([b'a'] * 300000)
            case = {'api': 'filter_parse', 'in': big.hex()}
            n = native.run_cases(native.build(), [case], per_case_timeout=60)[0]
            if 'abort' in n or 'hang' in n or 'panic' in n:
                ctx.report('filter.parse.recursion:%s-chain' % op, 'the call depth of the parser grows with the number of operands of a flat %s chain (%d frames for 2 operands, %d for 9); 300000 operands: %s' % (op, d2, d9, str(n)[:80]),
                           case={'api': 'filter_parse', 'in': (b' ' + op.encode() + b' ').join([b'a'] * 300000).hex()})
            else: ctx.note_inconclusive('call depth grows with a flat %s chain (%d -> %d frames) but 300000 operands parse natively' % (op, d2, d9))
    ctx.cov['traces_validated_against_impl'] += validated
    for s in S[:6]:
        ctx.add_sample({'template': s['template'], 'input': s.get('input'), 'mirsym': s.get('expect'), 'native': str(s.get('native'))[:80]})
    ctx.cov['unsupported_paths'] = dict(unsup)
    if mism: ctx.note_inconclusive('%d paths where the native build disagrees with the encoding (model mismatch)' % mism)
    if unsup: ctx.note_inconclusive('%d paths ended in an unmodelled construct: %s' % (sum(unsup.values()), list(unsup)[:3]))
    # second clause of the property: evaluation terminates, also with a resolver whose refs form cycles
    from props import C07
    C07.QUICK[0] = ctx.quick()
    W = sym.explore_templates(ctx, C07, C07.wildcard_templates(), prog, split_depth=4, budget_s=120 if ctx.quick() else 600)
    sym.native_check(ctx, W)
    C07.verdict(ctx, W)
    ctx.cov['eval_paths'] = len(W)
    ctx.assume('symbolic text bytes range over ASCII (Filter::try_from takes &str); non-ASCII text only in concrete skeleton parts')
    ctx.assume('std float text beyond 15 significant digits is axiomatised')
    ctx.obligation('parser-no-panic-no-hang', 'held' if not ctx.violations else 'violated', paths=len(S))


def replay(ctx, path):
    case = json.load(open(path))['case']
    r = native.run_cases(native.build(), [case])[0]
    print(json.dumps(r)[:400])
    return 1 if native.outcome(r) in ('panic', 'hang', 'abort') else 0
