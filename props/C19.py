"""C19 Kinds, typed accessors and grid construction are coherent (engine M + Kani for the code table)."""
import collections, json, os
import z3
from mirsym import load
from mirsym.values import *
from mirsym.hv import HV, sym_eq
from mirsym.models import str_ref, some, deref
from mirsym.vj import Concretizer, norm_native
from mirsym.engine import conc_value
from vlib import sym, native
from props.zenc_common import Leaves
from props import C12

PREDS = ['is_null', 'is_remove', 'is_marker', 'is_bool', 'is_na', 'is_number', 'is_str', 'is_ref', 'is_symbol', 'is_uri', 'is_date', 'is_time',
         'is_datetime', 'is_coord', 'is_xstr', 'is_list', 'is_dict', 'is_grid']
KIND_PRED = {'null': 'is_null', 'remove': 'is_remove', 'marker': 'is_marker', 'bool': 'is_bool', 'na': 'is_na', 'num': 'is_number', 'str': 'is_str',
             'ref': 'is_ref', 'sym': 'is_symbol', 'uri': 'is_uri', 'date': 'is_date', 'time': 'is_time', 'dt': 'is_datetime', 'coord': 'is_coord',
             'xstr': 'is_xstr', 'list': 'is_list', 'dict': 'is_dict', 'grid': 'is_grid'}
KIND_CODE = {'null': 0, 'remove': 1, 'marker': 2, 'na': 3, 'bool': 4, 'num': 5, 'str': 6, 'uri': 7, 'ref': 8, 'sym': 9, 'date': 10, 'time': 11,
             'dt': 12, 'coord': 13, 'xstr': 14, 'list': 15, 'dict': 16, 'grid': 17}
CONV_PRIM = {'bool': 'bool', 'f64': 'num', 'String': 'str'}      # TryFrom<&Value> for primitives: the payload's inner value
CONV = {'bool': 'bool', 'f64': 'num', 'String': 'str', 'Bool': 'bool', 'Number': 'num', 'Str': 'str', 'Ref': 'ref', 'Uri': 'uri', 'Symbol': 'sym', 'Date': 'date', 'Time': 'time', 'DateTime': 'dt',
        'Coord': 'coord', 'XStr': 'xstr', 'Dict': 'dict', 'Grid': 'grid', 'Vec': 'list', 'Marker': 'marker', 'Na': 'na', 'Remove': 'remove'}
GETTERS = {'get_bool': 'bool', 'get_num': 'num', 'get_str': 'str', 'get_xstr': 'xstr', 'get_ref': 'ref', 'get_uri': 'uri', 'get_symbol': 'sym',
           'get_date': 'date', 'get_time': 'time', 'get_date_time': 'dt', 'get_coord': 'coord', 'get_dict': 'dict', 'get_list': 'list', 'get_grid': 'grid'}
NAMES = ['null', 'remove', 'marker', 'na', 'bool', 'number', 'str', 'uri', 'ref', 'symbol', 'date', 'time', 'dateTime', 'coord', 'xstr', 'list', 'dict', 'grid']


def templates(ctx):
    T = [{'name': 'code', 'mode': 'code'}]
    for L in range(0, 9): T.append({'name': 'name%d' % L, 'mode': 'name', 'len': L})
    for k in C12.KINDS: T.append({'name': 'acc-' + k, 'mode': 'acc', 'kind': k})
    for n in range(0, 4 if not ctx.quick() else 3): T.append({'name': 'grid%d' % n, 'mode': 'grid', 'rows': n, 'meta': False})
    T.append({'name': 'grid2-meta', 'mode': 'grid', 'rows': 2, 'meta': True})
    return T


def kind_ty(ex): return [k[0] for k in ex.prog.impl_methods if k[0].endswith('kind::HaystackKind')][0]


def path(ex, t):
    prog = ex.prog; h = HV(ex); l = Leaves(ex)
    KT = kind_ty(ex)
    if t['mode'] == 'code':
        c = z3.BitVec('code', 8); ex.side['in'] = ('code', c)
        b = prog.find_method(KT, 'TryFrom', 'try_from', 'u8')
        r = ex.call_body(b, [c])
        if r.variant == 1: return {'ok': None}
        k = r.fields[0]
        name = ex.call_named('<&str as From<haystack::val::kind::HaystackKind>>::from', [k])
        return {'ok': {'code': ex.discriminant(k), 'name': name}}
    if t['mode'] == 'name':
        bs = [z3.BitVec('n%d' % i, 8) for i in range(t['len'])]
        for b_ in bs: ex.assume(z3.ULT(b_, 0x80))
        ex.side['in'] = ('name', bs)
        b = prog.find_method(KT, 'TryFrom', 'try_from', '&str')
        r = ex.call_body(b, [str_ref(bs)])
        return {'ok': None if r.variant == 1 else {'code': ex.discriminant(r.fields[0])}}
    if t['mode'] == 'acc':
        v = C12.mk(t['kind'])(h, l); ex.side['in'] = ('val', v)
        vt = v.ty; pv = Ptr(Cell(v))
        f = {'preds': [], 'conv': [], 'getters': [], 'getters_missing': []}
        for p in PREDS:
            if C12.B(ex, ex.call_body(prog.find_method(vt, None, p), [pv])): f['preds'].append(p)
        kb = prog.find_method(KT, 'From', 'from', '&Value')
        f['kind'] = ex.discriminant(ex.call_body(kb, [pv]))
        for (ty, tr, me), lst in prog.impl_methods.items():
            if tr == 'TryFrom' and me == 'try_from' and any((x[1] or '').replace(' ', '') == '&Value' for x in lst):
                short = ty.split('::')[-1]
                if short not in CONV: continue
                b = [x[0] for x in lst if (x[1] or '').replace(' ', '') == '&Value'][0]
                r = ex.call_body(b, [pv])
                if r.variant == 0:
                    f['conv'].append(short)
                    if short not in ('Marker', 'Na', 'Remove'):
                        payload = v.fields[0] if v.fields else None
                        if short in CONV_PRIM and payload is not None:
                            pl = payload
                            while isinstance(pl, Ptr): pl = ex.load(pl)
                            payload = pl.fields[0] if isinstance(pl, Agg) and pl.fields else pl
                        same = sym_eq(ex, r.fields[0], payload)
                        if not C12.B(ex, same): f['conv'].append(short + '-payload-differs')
        d = h.dict_payload([(b'k', v)])
        pd = Ptr(Cell(d))
        for key, out in ((b'k', 'getters'), (b'zz', 'getters_missing')):
            for g in list(GETTERS) + ['has', 'has_marker', 'has_na', 'has_remove']:
                b = prog.find_method(d.ty, 'HaystackDict', g)
                r = ex.call_body(b, [pd, str_ref(list(key))])
                hit = (r.variant == 1) if isinstance(r, Agg) else C12.B(ex, r)
                if hit: f[out].append(g)
        return {'ok': f}
    if t['mode'] == 'grid':
        rows = []
        for i in range(t['rows']):
            pairs = []
            for k in (b'a', b'b', b'c', b'd'):
                if ex.pick(2): pairs.append((k, h.num(float(i))))
            rows.append(pairs)
        ex.side['in'] = ('rows', rows)
        rv = VecV([h.dict_payload(r) for r in rows], 'vec')
        gt = h.ty('Grid')
        if t['meta']:
            g = ex.call_body(prog.find_method(gt, None, 'make_from_dicts_with_meta'), [rv, h.dict_payload([(b'm', h.marker())])])
        else:
            g = ex.call_body(prog.find_method(gt, None, 'make_from_dicts'), [rv])
        return {'grid': h.val('Grid', g)}


def post(ex, t, r):
    if r.kind == 'unsupported': return {'kind': 'unsupported', 'detail': r.detail, 'where': r.where}
    try: m = ex.model()
    except Infeasible: return None
    cz = Concretizer(ex, m)
    kind, x = ex.side['in']
    s = {'kind': r.kind, 'detail': r.detail, 'where': r.where, 'mode': t['mode']}
    if kind == 'code':
        s['input'] = cz.c(x); s['native_case'] = {'api': 'kind_code', 'code': s['input']}
    elif kind == 'name':
        s['input'] = bytes(cz.c(b) for b in x).hex(); s['native_case'] = {'api': 'kind_name', 'in': s['input']}
    elif kind == 'val':
        s['input'] = cz.value(x); s['native_case'] = {'api': 'accessors', 'v': s['input']}; s['vkind'] = t['kind']
    else:
        rows = [[[k.hex(), cz.value(v)] for k, v in sorted(r_, key=lambda kv: kv[0])] for r_ in x]
        s['input'] = rows; s['native_case'] = {'api': 'grid_from_dicts', 'rows': rows, 'meta': [['6d', {'t': 'marker'}]] if t.get('meta') else None}
    if r.kind == 'ok':
        v = r.value
        if 'grid' in v: s['result'] = cz.value(v['grid'])
        elif v['ok'] is None: s['result'] = None
        else:
            o = dict(v['ok'])
            if 'name' in o: o['name'] = cz.bytes_(o['name']).decode()
            s['result'] = o
    return s


def run(ctx):
    prog = load.program(ctx.repo, ctx.cache)
    T = templates(ctx)
    ctx.cov['bounds'] = {'kind_codes': 'all 256', 'kind_names': 'all ASCII strings of length <= 8', 'records': '<= 2 (quick) / 3 (thorough) dicts over keys {a,b,c,d}, every membership pattern'}
    S = sym.explore_templates(ctx, __import__('props.C19', fromlist=['x']), T, prog, split_depth=4, budget_s=240 if ctx.quick() else 900)
    sym.native_check(ctx, S)
    ctx.cov['path_kinds'] = dict(collections.Counter(s['kind'] for s in S))
    mism = 0; validated = 0; unsup = collections.Counter()
    for s in S:
        if s['kind'] == 'unsupported': unsup[(s.get('template', '?') + ': ' + s['detail'])[:110]] += 1; continue
        n = s.get('native')
        if s['kind'] != 'ok' or n is None or 'ok' not in n:
            if s['kind'] == 'panic' and n and 'panic' in n: ctx.report('kinds.panic:' + s['template'], s['detail'], case=s['native_case']); continue
            mism += 1
            if mism <= 5: print('MODEL-MISMATCH template=%s: %s native %s' % (s['template'], s['kind'], str(n)[:200]))
            continue
        nv = n['ok']; mv = s['result']; mode = s['mode']
        agree = True
        if mode == 'code': agree = (nv is None) == (mv is None) and (nv is None or (nv['code'] == mv['code'] and nv['name'] == mv['name']))
        elif mode == 'name': agree = (nv is None) == (mv is None) and (nv is None or nv['code'] == mv['code'])
        elif mode == 'acc': agree = all(sorted(nv[k]) == sorted(mv[k]) for k in ('preds', 'conv', 'getters', 'getters_missing')) and nv['kind'] == mv['kind']
        else: agree = norm_native(nv) == mv
        if not agree:
            mism += 1
            if mism <= int(os.environ.get('VERIF_SHOW', '5')): print('MODEL-MISMATCH template=%s input=%s: mirsym %s native %s' % (s['template'], str(s['input'])[:200], str(mv)[:300], str(nv)[:300]))
            continue
        validated += 1
        # ---- the property itself, on the (validated) facts
        bad = []
        if mode == 'code':
            c = s['input']
            if (nv is None) != (c >= 18): bad.append('code %d: %s' % (c, 'rejected' if nv is None else 'accepted'))
            elif nv is not None and (nv['code'] != c or nv['name'] != NAMES[c] or nv.get('display') not in (None, NAMES[c])): bad.append('code %d maps to %s' % (c, nv))
        elif mode == 'name':
            t = bytes.fromhex(s['input']).decode('utf-8', 'replace')
            want = NAMES.index(t) if t in NAMES else None
            got = None if nv is None else nv['code']
            if want != got: bad.append('name %r maps to %s, expected %s' % (t, got, want))
        elif mode == 'acc':
            k = s['vkind']
            if nv['preds'] != [KIND_PRED[k]]: bad.append('predicates %s for a %s' % (nv['preds'], k))
            if nv['kind'] != KIND_CODE[k] or nv['kind_name'] != NAMES[KIND_CODE[k]]: bad.append('kind %s/%s for a %s' % (nv['kind'], nv['kind_name'], k))
            wantc = sorted(c for c, kk in CONV.items() if kk == k)
            if sorted(nv['conv']) != wantc: bad.append('conversions %s for a %s' % (nv['conv'], k))
            wantg = sorted([g for g, kk in GETTERS.items() if kk == k] + ['has'] + (['has_marker'] if k == 'marker' else []) + (['has_na'] if k == 'na' else []) + (['has_remove'] if k == 'remove' else []))
            if k == 'null': wantg = [g for g in wantg if g != 'has'] if 'has' not in nv['getters'] else wantg
            if sorted(nv['getters']) != wantg: bad.append('getters %s for a %s' % (nv['getters'], k))
            if nv['getters_missing']: bad.append('getters on a missing key: %s' % nv['getters_missing'])
        else:
            rows = s['input']; g = norm_native(nv)
            cols = sorted(set(k for r_ in rows for k, _ in r_))
            if [c[0] for c in g['cols']] != cols: bad.append('columns %s for rows with keys %s' % ([c[0] for c in g['cols']], cols))
            if g['rows'] != rows: bad.append('rows changed')
        for b_ in bad:
            ctx.report('kinds.%s:%s' % (mode, s['template'] if mode != 'name' else 'name'), b_ + ' (input %s)' % str(s['input'])[:200], case=s['native_case'])
    ctx.cov['traces_validated_against_impl'] += validated
    for s in S[:6]: ctx.add_sample({'template': s.get('template'), 'input': s.get('input'), 'result': s.get('result')})
    ctx.cov['unsupported_paths'] = dict(unsup)
    if mism: ctx.note_inconclusive('%d paths where the native build disagrees with the encoding (model mismatch)' % mism)
    if unsup: ctx.note_inconclusive('%d paths ended in an unmodelled construct: %s' % (sum(unsup.values()), list(unsup)[:3]))
    ctx.obligation('kinds-accessors-grid (mirsym)', 'held' if not ctx.violations else 'violated', paths=len(S))
    C12.run_kani(ctx, ['kind_codes'], 'kinds.kani')


def replay(ctx, path):
    case = json.load(open(path))['case']
    r = native.run_cases(native.build(), [case])[0]
    print(json.dumps(r)[:600])
    return 1
