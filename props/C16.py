"""C16 Unit conversion and Number arithmetic are dimensionally sound (structure + conversion formula).
Engine M: Unit::convert_to and Number + - on symbolic units (dimension vectors, quantity, names, scale, offset, operands all symbolic);
Engine K: UnitDimensions + / - component-wise (Kani)."""
import collections, json, os, struct
import z3
from mirsym import load
from mirsym.values import *
from mirsym.models import some, none, string_of, deref
from mirsym.engine import F64, RNE, conc_value, fp_to_float
from vlib import sym, native
from props import C12

BYTE_NAMES = ['byte', 'kilobyte', 'megabyte', 'gigabyte', 'terabyte', 'petabyte']


def f2bits(x): return '%016x' % struct.unpack('<Q', struct.pack('<d', x))[0]


def mk_unit(ex, tag, with_dims=None):
    """symbolic Unit: dims 7 x i8 (or None), quantity in {None, 'bytes', 'length'}, name in {'x', 'byte', 'kilobyte'}; scale/offset symbolic"""
    prog = ex.prog
    ut = prog.canon_type('units::unit::Unit'); dt = prog.canon_type('units::unit_dimension::UnitDimensions')
    q = [None, b'bytes', b'length'][ex.pick(3)]
    name = [b'x', b'byte', b'kilobyte'][ex.pick(3)]
    has_dims = ex.pick(2) if with_dims is None else with_dims
    dims = none()
    dv = None
    if has_dims:
        dv = [z3.BitVec('%s_d%d' % (tag, i), 8) for i in range(7)]
        dims = some(Agg(dt, 0, list(dv)))
    scale = z3.FP(tag + '_scale', F64); off = z3.FP(tag + '_off', F64)
    u = Agg(ut, 0, [none() if q is None else some(string_of(list(q))), VecV([string_of(list(name)), string_of(list(b'sym'))], 'vec'), dims, scale, off])
    meta = {'quantity': q, 'name': name, 'dims': dv, 'scale': scale, 'off': off}
    return u, meta


def templates(ctx):
    return [{'name': 'convert', 'mode': 'convert'}, {'name': 'add', 'mode': 'arith', 'op': 'add'}, {'name': 'sub', 'mode': 'arith', 'op': 'sub'},
            {'name': 'mul-dimless', 'mode': 'unitop', 'op': 'mul'}, {'name': 'div-dimless', 'mode': 'unitop', 'op': 'div'},
            # the database search behind unit products / quotients: whatever it returns has the dimension and (within the crate's own
            # tolerance) the scale that was asked for - symbolic dimension and scale over the real generated table
            {'name': 'match-units', 'mode': 'match', 'max_steps': 4000000}] + \
           [{'name': 'muldiv-%s-%s-%s' % (op, a, b), 'mode': 'muldiv', 'op': op, 'a': a, 'b': b, 'max_steps': 4000000} for a, b, op in MULDIV_PAIRS] + \
           [{'name': 'num-%s-%s-%s' % (op, a, b), 'mode': 'nummuldiv', 'op': op, 'a': a, 'b': b, 'max_steps': 8000000} for a, b, op in NUM_PAIRS]


# pairs of database units whose product / quotient has a same-named unit in the table or none at all: whatever the operator
# returns must have the dimension and (within the crate's tolerance) the scale of the product / quotient
MULDIV_PAIRS = [('pound', 'square_inch', 'div'), ('foot', 'pounds_per_second', 'mul'), ('joule', 'gram', 'div'), ('imperial_gallon', 'minute', 'div'),
                ('watt', 'square_meter', 'div'), ('kilowatt', 'hour', 'mul'), ('meter', 'second', 'div'), ('newton', 'meter', 'mul'),
                ('gram', 'kilogram', 'div'), ('volt', 'ampere', 'mul'), ('kilogram', 'cubic_meter', 'div'), ('ampere', 'foot', 'div')]


# Number * Number and Number / Number: the unit of the result is the unit operator's answer for the two units (an error
# when that is an error), the other operand's unit when one side has none; the value is the product / quotient.  Pairs of
# one dimension (different scale / offset / none) are included: their quotient is not a plain ratio.
NUM_PAIRS = [('kilowatt', 'hour', 'mul'), ('meter', 'second', 'div'), ('kilometer', 'meter', 'div'), ('celsius', 'kelvin', 'div'),
             ('meter', 'meter', 'div'), ('us_dollar', 'euro', 'div'), ('kilometer', 'meter', 'mul'), ('gram', 'kilogram', 'div')]


def path(ex, t):
    prog = ex.prog
    ut = prog.canon_type('units::unit::Unit')
    if t['mode'] == 'nummuldiv':
        from mirsym.hv import HV
        h = HV(ex)
        nt = prog.canon_type('val::number::Number')
        a = h.unit(t['a']); b = h.unit(t['b'])
        if not isinstance(a, Ptr): a = Ptr(Cell(a))
        if not isinstance(b, Ptr): b = Ptr(Cell(b))
        shape = ex.pick(3)      # 0: both have a unit, 1: left unit-less, 2: right unit-less
        x = z3.FP('x', F64); y = z3.FP('y', F64)
        tr = {'mul': 'Mul', 'div': 'Div'}[t['op']]
        ex.side['in'] = {'a': a, 'b': b, 'x': x, 'y': y, 'shape': shape}
        rn = ex.call_body(prog.find_method(nt, tr, t['op']), [Agg(nt, 0, [x, none() if shape == 1 else some(a)]), Agg(nt, 0, [y, none() if shape == 2 else some(b)])])
        ex.side['rn'] = rn
        cands = [k for k in prog.impl_methods if k[1] == tr and k[2] == t['op'] and 'Unit' in k[0]]
        return ex.call_body(prog.impl_methods[cands[0]][0][0], [a, b])
    if t['mode'] == 'convert':
        a, ma = mk_unit(ex, 'a'); b, mb = mk_unit(ex, 'b')
        x = z3.FP('x', F64)
        ex.side['in'] = {'a': ma, 'b': mb, 'x': x}
        r = ex.call_body(prog.find_method(ut, None, 'convert_to'), [Ptr(Cell(a)), x, Ptr(Cell(b))])
        return r
    if t['mode'] == 'arith':
        nt = prog.canon_type('val::number::Number')
        shape = ex.pick(4)      # 0: same unit, 1: two different units, 2: left unit-less, 3: both unit-less
        a, ma = mk_unit(ex, 'a', with_dims=1); b, mb = mk_unit(ex, 'b', with_dims=1)
        pa, pb = Ptr(Cell(a)), Ptr(Cell(b))
        x = z3.FP('x', F64); y = z3.FP('y', F64)
        ua = none() if shape in (2, 3) else some(pa)
        ub = some(pa) if shape == 0 else (some(pb) if shape in (1, 2) else none())
        ex.side['in'] = {'a': ma, 'b': mb, 'x': x, 'y': y, 'shape': shape}
        tr = {'add': 'Add', 'sub': 'Sub'}[t['op']]
        r = ex.call_body(prog.find_method(nt, tr, t['op']), [Agg(nt, 0, [x, ua]), Agg(nt, 0, [y, ub])])
        ex.side['pa'] = pa; ex.side['pb'] = pb
        return r
    if t['mode'] == 'muldiv':
        from mirsym.hv import HV
        h = HV(ex)
        a = h.unit(t['a']); b = h.unit(t['b'])
        ex.side['in'] = {'a': a, 'b': b}
        tr = {'mul': 'Mul', 'div': 'Div'}[t['op']]
        cands = [k for k in prog.impl_methods if k[1] == tr and k[2] == t['op'] and 'Unit' in k[0]]
        return ex.call_body(prog.impl_methods[cands[0]][0][0], [a, b])
    if t['mode'] == 'match':
        dt = prog.canon_type('units::unit_dimension::UnitDimensions')
        dv = [z3.BitVec('md%d' % i, 8) for i in range(7)]
        # the scale is one of a few values (forked): a symbolic f64 makes every tolerance test of the 946 table rows an FP query
        scale = [1.0, 3.280839895013123, 7.5, 0.001, 1000.0, 3600.0, 0.3048][ex.pick(7)]
        ex.side['in'] = {'dims': dv, 'scale': scale}
        f = prog.find_fn(['units', 'match_units'])
        return ex.call_body(f, [Agg(dt, 0, list(dv)), scale])
    if t['mode'] == 'unitop':
        a, ma = mk_unit(ex, 'a'); b, mb = mk_unit(ex, 'b')
        ex.assume(True)
        if ma['dims'] is not None and mb['dims'] is not None: raise Infeasible()     # only the dimensionless rule is decided here
        ex.side['in'] = {'a': ma, 'b': mb}
        tr = {'mul': 'Mul', 'div': 'Div'}[t['op']]
        cands = [k for k in prog.impl_methods if k[1] == tr and k[2] == t['op'] and 'Unit' in k[0]]
        r = ex.call_body(prog.impl_methods[cands[0]][0][0], [Ptr(Cell(a)), Ptr(Cell(b))])
        return r


def narrow_witness(a, b, vars_, sort=None):
    """find values (exactly representable in f64) on which the FP terms a and b differ, solving over Float16"""
    S16 = z3.FPSort(5, 11)
    cache = {}
    def tr(e):
        k = e.get_id()
        if k in cache: return cache[k]
        d = e.decl().kind()
        if z3.is_fprm(e): r = e
        elif z3.is_fp_value(e): r = z3.fpFPToFP(z3.RNE(), e, S16)
        elif e.num_args() == 0: r = z3.FP('n_' + e.decl().name(), S16)
        else:
            args = [tr(e.arg(i)) for i in range(e.num_args())]
            ops = {z3.Z3_OP_FPA_ADD: z3.fpAdd, z3.Z3_OP_FPA_SUB: z3.fpSub, z3.Z3_OP_FPA_MUL: z3.fpMul, z3.Z3_OP_FPA_DIV: z3.fpDiv}
            if d in ops: r = ops[d](*args)
            elif d == z3.Z3_OP_FPA_NEG: r = z3.fpNeg(args[0])
            else: raise Unsupported('narrow: operator %s' % e.decl().name())
        cache[k] = r
        return r
    try:
        na, nb = tr(a), tr(b)
    except Unsupported:
        return None
    sol = z3.Solver(); sol.set('timeout', 30000)
    sol.add(z3.Not(z3.fpIsNaN(na)), z3.Not(z3.fpIsNaN(nb)), z3.Not(z3.fpIsInf(na)), z3.Not(z3.fpIsInf(nb)), z3.Not(z3.fpEQ(na, nb)))
    nv = [tr(v) for v in vars_]
    for v in nv: sol.add(z3.fpIsNormal(v), z3.fpLT(z3.fpAbs(v), z3.FPVal(64.0, S16)), z3.fpGT(z3.fpAbs(v), z3.FPVal(0.125, S16)))
    if sol.check() != z3.sat: return None
    m = sol.model()
    out = []
    for v, n in zip(vars_, nv):
        val = m.eval(n, model_completion=True)
        out.append((v, fp_to_float(z3.simplify(z3.fpFPToFP(z3.RNE(), val, F64)))))
    return out


def is_bytes(m):
    return m['quantity'] == b'bytes' or m['name'] in (b'byte', b'kilobyte')


def unit_json(cz, m):
    return {'quantity': None if m['quantity'] is None else m['quantity'].decode(), 'ids': [m['name'].decode(), 'sym'],
            'dims': None if m['dims'] is None else [wrap_int(cz.c(d), 8, True) for d in m['dims']],
            'scale': f2bits(cz.c(m['scale'])), 'offset': f2bits(cz.c(m['off']))}


def post(ex, t, r):
    if r.kind == 'unsupported': return {'kind': 'unsupported', 'detail': r.detail, 'where': r.where}
    I = ex.side.get('in')
    s = {'kind': r.kind, 'detail': r.detail, 'where': r.where, 'mode': t['mode'], 'op': t.get('op')}
    cond = None; viol = None
    if r.kind == 'ok' and t['mode'] == 'convert':
        ma, mb = I['a'], I['b']
        if ma['dims'] is None or mb['dims'] is None: same = (ma['dims'] is None and mb['dims'] is None)
        else: same = z3.And([p == q for p, q in zip(ma['dims'], mb['dims'])])
        want_ok = z3.Or(z3.BoolVal(is_bytes(ma) and is_bytes(mb)), same if not isinstance(same, bool) else z3.BoolVal(same))
        got_ok = r.value.variant == 0
        bad = ex.sat(want_ok != z3.BoolVal(got_ok))
        if bad is not None:
            viol = 'convertibility'; cond = (want_ok != z3.BoolVal(got_ok))
        elif got_ok:
            x = I['x']
            spec = z3.fpDiv(RNE, z3.fpSub(RNE, z3.fpAdd(RNE, z3.fpMul(RNE, x, ma['scale']), ma['off']), mb['off']), mb['scale'])
            got = r.value.fields[0]
            if not z3.eq(z3.simplify(got), z3.simplify(spec)):
                # different term: ask for an input on which the two differ (both not NaN)
                q = z3.And(z3.Not(z3.fpIsNaN(got)), z3.Not(z3.fpIsNaN(spec)), z3.Not(z3.fpEQ(got, spec)),
                           z3.fpIsNormal(x), z3.fpIsNormal(ma['scale']), z3.fpIsNormal(mb['scale']), z3.fpIsNormal(ma['off']), z3.fpIsNormal(mb['off']))
                # the two terms differ syntactically: search a differing input over a narrow float sort (fast), lift it to f64
                # (every half-precision value is an f64 value) and let the f64 semantics + the native replay confirm it
                wit = narrow_witness(got, spec, [x, ma['scale'], mb['scale'], ma['off'], mb['off']])
                if wit is None:
                    return {'kind': 'unsupported', 'detail': 'conversion formula differs from the specification term but no differing input was found', 'where': None}
                q = z3.And([q] + [v == z3.FPVal(val, F64) for v, val in wit])
                if ex.sat(q) is not None: viol = 'formula'; cond = q
                else: return {'kind': 'unsupported', 'detail': 'narrow-float witness of a formula difference does not carry over to f64', 'where': None}
            s['formula_identical'] = viol is None
    if r.kind == 'ok' and t['mode'] == 'arith':
        shape = I['shape']; okk = r.value.variant == 0
        if shape == 1:
            # two units that differ: must be an error
            ma, mb = I['a'], I['b']
            differ = z3.Or([p != q for p, q in zip(ma['dims'], mb['dims'])] + [z3.BoolVal(ma['quantity'] != mb['quantity'] or ma['name'] != mb['name']),
                           z3.Not(ma['scale'] == mb['scale']), z3.Not(ma['off'] == mb['off'])])
            bad = ex.sat(z3.And(differ, z3.BoolVal(okk)))
            if bad is not None: viol = 'different-units-accepted'; cond = z3.And(differ, z3.BoolVal(okk))
        if shape == 0:
            if not okk: viol = 'same-unit-rejected'
            else:
                n = r.value.fields[0]
                uo = n.fields[1]
                if uo.variant == 0 or deref(ex, uo.fields[0]) is not deref(ex, ex.side['pa']): viol = 'common-unit-not-kept'
                spec = (z3.fpAdd if t['op'] == 'add' else z3.fpSub)(RNE, I['x'], I['y'])
                if viol is None and not z3.eq(z3.simplify(n.fields[0]), z3.simplify(spec)):
                    q = z3.And(z3.Not(z3.fpIsNaN(spec)), z3.Not(z3.fpEQ(n.fields[0], spec)))
                    if ex.sat(q) is not None: viol = 'value'; cond = q
    if r.kind == 'ok' and t['mode'] == 'match':
        got = []
        for up in r.value.items:
            u = up
            while isinstance(u, Ptr): u = ex.load(u)
            ud = deref(ex, u.fields[2]); us = u.fields[3]
            sc = I['scale']
            # the crate's own tolerance (approx_eq): equal, or |a - b| <= min(|a|, |b|) / 1000
            usv = float(us)
            close = z3.BoolVal(usv == sc or abs(usv - sc) <= min(abs(usv / 1e3), abs(sc / 1e3)))
            dims_ok = ud.variant == 1 and True
            dq = z3.And([a_ == b_ for a_, b_ in zip(deref(ex, ud.fields[0]).fields, I['dims'])]) if ud.variant == 1 else z3.BoolVal(False)
            bad = z3.Not(z3.And(dq, close))
            if viol is None and ex.sat(bad) is not None: viol = 'returns-a-unit-of-another-dimension-or-scale'; cond = bad
    if r.kind == 'ok' and t['mode'] == 'muldiv':
        def U(p):
            u = p
            while isinstance(u, Ptr): u = ex.load(u)
            dd = deref(ex, u.fields[2])
            dims = None if dd.variant == 0 else [x - 256 if x >= 128 else x for x in deref(ex, dd.fields[0]).fields]
            return bytes(deref(ex, u.fields[1]).items[0].items).decode(), dims, float(u.fields[3])
        na, da, sa = U(I['a']); nb, db, sb = U(I['b'])
        if r.value.variant == 0:
            nu, du, su = U(r.value.fields[0])
            want_d = None if (da is None or db is None) else [x + y if t['op'] == 'mul' else x - y for x, y in zip(da, db)]
            want_s = sa * sb if t['op'] == 'mul' else sa / sb
            close = su == want_s or abs(su - want_s) <= min(abs(su / 1e3), abs(want_s / 1e3))
            s['result'] = nu
            if du != want_d or not close: viol = 'result-of-another-dimension-or-scale'; s['detail2'] = '%s %s %s = %s with dims %s scale %r, expected dims %s scale %r' % (na, t['op'], nb, nu, du, su, want_d, want_s)
        else: s['result'] = None
    if r.kind == 'ok' and t['mode'] == 'nummuldiv':
        def UN(p):
            u = p
            while isinstance(u, Ptr): u = ex.load(u)
            return bytes(deref(ex, u.fields[1]).items[0].items).decode()
        rn = ex.side['rn']; sh = I['shape']
        want = (UN(r.value.fields[0]) if r.value.variant == 0 else 'ERR') if sh == 0 else (UN(I['b']) if sh == 1 else UN(I['a']))
        if rn.variant != 0: got = 'ERR'
        else:
            n = deref(ex, rn.fields[0]); uo = deref(ex, n.fields[1])
            got = None if uo.variant == 0 else UN(uo.fields[0])
            val = n.fields[0]; ref = z3.fpMul(RNE, I['x'], I['y']) if t['op'] == 'mul' else z3.fpDiv(RNE, I['x'], I['y'])
            bad = z3.And(z3.Not(z3.fpIsNaN(ref)), z3.Not(z3.fpEQ(val, ref))) if is_sym(val) else z3.BoolVal(True)
            if ex.sat(bad) is not None: viol = 'value-is-not-the-%s' % ('product' if t['op'] == 'mul' else 'quotient'); cond = bad
        s['result'] = got; s['want'] = want
        if viol is None and got != want: viol = 'unit-of-result'; s['detail2'] = '%s %s %s (operands %s): result unit %s, the unit operator gives %s' % (t['a'], t['op'], t['b'], ['both with units', 'left unit-less', 'right unit-less'][sh], got, want)
    if r.kind == 'ok' and t['mode'] == 'unitop':
        if r.value.variant == 0: viol = 'dimensionless-accepted'
    if r.kind == 'panic': viol = 'panic'
    try:
        if cond is not None: ex.assume(cond)
        m = ex.model()
    except Infeasible:
        return None
    class CZ:
        def c(s_, v):
            if not is_sym(v): return v
            return conc_value(m.eval(v, model_completion=True))
    cz = CZ()
    s['viol'] = viol
    if t['mode'] == 'convert':
        s['native_case'] = {'api': 'convert', 'a': unit_json(cz, I['a']), 'b': unit_json(cz, I['b']), 'x': f2bits(cz.c(I['x']))}
        if r.kind == 'ok': s['result'] = None if r.value.variant == 1 else f2bits(cz.c(r.value.fields[0]))
    elif t['mode'] == 'arith':
        sh = I['shape']
        s['native_case'] = {'api': 'number_arith', 'op': t['op'], 'ua': None if sh in (2, 3) else unit_json(cz, I['a']),
                            'ub': None if sh == 3 else (unit_json(cz, I['b']) if sh in (1, 2) else None), 'same_unit': sh == 0,
                            'x': f2bits(cz.c(I['x'])), 'y': f2bits(cz.c(I['y']))}
        if r.kind == 'ok': s['result'] = None if r.value.variant == 1 else f2bits(cz.c(r.value.fields[0].fields[0]))
    elif t['mode'] == 'muldiv':
        s['native_case'] = {'api': 'unit_muldiv', 'a': t['a'], 'b': t['b'], 'op': t['op']}
    elif t['mode'] == 'nummuldiv':
        s['native_case'] = {'api': 'number_muldiv', 'a': None if I['shape'] == 1 else t['a'], 'b': None if I['shape'] == 2 else t['b'], 'ua': t['a'], 'ub': t['b'], 'op': t['op'],
                            'x': f2bits(cz.c(I['x'])), 'y': f2bits(cz.c(I['y']))}
    elif t['mode'] == 'match':
        dv = [cz.c(x) for x in I['dims']]; dv = [x - 256 if x >= 128 else x for x in dv]
        s['native_case'] = {'api': 'match_units', 'dims': dv, 'scale': f2bits(cz.c(I['scale']))}
        if r.kind == 'ok':
            names = []
            for up in r.value.items:
                u = up
                while isinstance(u, Ptr): u = ex.load(u)
                names.append(bytes(deref(ex, u.fields[1]).items[0].items).decode())
            s['result'] = sorted(set(names))
    else:
        s['native_case'] = None
        s['result'] = None
    return s


def run(ctx):
    prog = load.program(ctx.repo, ctx.cache)
    T = templates(ctx)
    ctx.cov['bounds'] = {'units': 'symbolic: 7 x i8 dimensions or none, quantity in {none,bytes,length}, name in {x,byte,kilobyte}, scale/offset any f64',
                         'formula': 'term identity with the specification formula, else a 60 s solver search for a differing normal input'}
    S = sym.explore_templates(ctx, __import__('props.C16', fromlist=['x']), T, prog, split_depth=3, max_steps=40000, budget_s=240 if ctx.quick() else 900)
    sym.native_check(ctx, S)
    ctx.cov['path_kinds'] = dict(collections.Counter(s['kind'] for s in S))
    mism = 0; validated = 0; unsup = collections.Counter()
    for s in S:
        if s['kind'] == 'unsupported': unsup[(s.get('template', '?') + ': ' + s['detail'])[:110]] += 1; continue
        n = s.get('native')
        if n is not None:
            if 'ok' not in n and not (s['kind'] == 'panic' and 'panic' in n):
                mism += 1; print('MODEL-MISMATCH %s: %s vs native %s' % (s['template'], s['kind'], str(n)[:200])); continue
            if s['kind'] == 'ok' and s['mode'] == 'muldiv':
                o = n['ok']; gotn = None if 'err' in o else o['name']
                if gotn != s.get('result'):
                    mism += 1; print('MODEL-MISMATCH %s: mirsym %s native %s' % (s['template'], s.get('result'), gotn)); continue
                validated += 1
                if s.get('viol'):
                    ctx.report('units.muldiv:%s' % s['viol'], s.get('detail2', s['template']) + ' (native: %s)' % json.dumps(o)[:200], case=s['native_case'])
                continue
            if s['kind'] == 'ok' and s['mode'] == 'nummuldiv':
                o = n['ok']
                if o['number'] != s.get('result'):
                    mism += 1; print('MODEL-MISMATCH %s: mirsym %s native %s' % (s['template'], s.get('result'), o)); continue
                validated += 1
                # the verdict is taken on the native answers alone
                c = s['native_case']; nwant = o['unit_op'] if (c['a'] and c['b']) else (c['b'] or c['a'])
                if o['number'] != nwant:
                    ctx.report('units.number-muldiv:unit-of-result:%s' % s['template'], '%s (native: %s)' % (s.get('detail2', s['template']), json.dumps(o)[:200]), case=c)
                elif o['number'] != 'ERR' and not o['value_ok']:
                    ctx.report('units.number-muldiv:value:%s' % s['template'], 'the value of %s is not the product / quotient (native: %s)' % (json.dumps(c), json.dumps(o)[:200]), case=c)
                elif s.get('viol'):
                    mism += 1; print('MODEL-MISMATCH %s: mirsym verdict %s not confirmed natively %s' % (s['template'], s['viol'], o))
                continue
            if s['kind'] == 'ok' and s['mode'] == 'match':
                nn = sorted(set(x['name'] for x in n['ok']))
                if nn != s['result']:
                    mism += 1; print('MODEL-MISMATCH match-units %s: mirsym %s native %s' % (json.dumps(s['native_case']), s['result'], nn)); continue
                if s.get('viol'):
                    # confirm on the native answer: some returned unit has another dimension or a scale outside the tolerance
                    import struct as _st
                    want = s['native_case']['dims']; sc = _st.unpack('<d', bytes.fromhex(s['native_case']['scale'])[::-1])[0]
                    def off(x):
                        us = _st.unpack('<d', bytes.fromhex(x['scale'])[::-1])[0]
                        return x['dims'] != want or not (us == sc or abs(us - sc) <= min(abs(us / 1e3), abs(sc / 1e3)))
                    if not any(off(x) for x in n['ok']):
                        mism += 1; print('MODEL-MISMATCH match-units verdict not reproduced: %s -> %s' % (json.dumps(s['native_case']), json.dumps(n['ok'])[:200])); continue
                validated += 1
                if s.get('viol'):
                    ctx.report('units.%s:%s' % (s['template'], s['viol']), 'match_units(%s, scale %s) returns %s' % (s['native_case']['dims'], s['native_case']['scale'], json.dumps(n['ok'])[:300]), case=s['native_case'])
                continue
            if s['kind'] == 'ok':
                nv = n['ok']; got = None if nv is None else (nv if isinstance(nv, str) else nv['bits'])
                same = (got is None) == (s['result'] is None) and (got is None or got == s['result'] or (got[:3] in ('7ff', 'fff') and s['result'][:3] in ('7ff', 'fff')))
                if not same:
                    mism += 1
                    if mism <= int(os.environ.get('VERIF_SHOW', '5')): print('MODEL-MISMATCH %s case=%s: mirsym %s native %s' % (s['template'], json.dumps(s['native_case'])[:300], s['result'], got))
                    continue
            validated += 1
        if s.get('viol'):
            ctx.report('units.%s:%s' % (s['template'], s['viol']), '%s on %s -> %s (native %s)' % (s['viol'], json.dumps(s.get('native_case'))[:400], s.get('result'), str(n)[:120]), case=s.get('native_case'))
    ctx.cov['traces_validated_against_impl'] += validated
    for s in S[:5]: ctx.add_sample({'template': s.get('template'), 'case': s.get('native_case'), 'result': s.get('result')})
    ctx.cov['unsupported_paths'] = dict(unsup)
    if mism: ctx.note_inconclusive('%d paths where the native build disagrees with the encoding (model mismatch)' % mism)
    if unsup: ctx.note_inconclusive('%d paths ended in an unmodelled construct: %s' % (sum(unsup.values()), list(unsup)[:3]))
    ctx.obligation('convert/arith structure and formula (mirsym)', 'held' if not ctx.violations else 'violated', paths=len(S))
    C12.run_kani(ctx, ['dims_add_sub'], 'units.kani')
    ctx.assume('numeric clauses: the conversion result is compared as an IEEE term with the specification formula; round-trip "within rounding" and the database search of unit products/quotients are not decided')


def replay(ctx, path):
    case = json.load(open(path))['case']
    r = native.run_cases(native.build(), [case])[0]
    print(json.dumps(r)[:600])
    return 1
