"""C17 The C API behaves like the Rust API on the same values; C18 (same exploration) memory safety, null tolerance, no panic
inside the C boundary.  Engine M: every `extern "C"` function's MIR body is run once from an arbitrary pool of handles - one
handle of every kind (symbolic payload) or a null pointer for every pointer parameter, symbolic indices / numbers / flags,
C strings from a per-parameter domain - with an object-granular heap model.  One inductive step from an arbitrary valid
state covers call sequences of any length (a handle's state is just its Value).  Every path is replayed natively through the
real extern functions (replay api "capi"); the oracle is the reference semantics in spec/capi.py, or the Rust API itself for
the entry points that only forward (codecs, filters, zones)."""
import collections, json, os, sys
from mirsym import load
from mirsym.values import *
from vlib import sym, native
from props import capi_common as cc

ROOT = os.path.dirname(os.path.dirname(os.path.abspath(__file__)))
sys.path.insert(0, os.path.join(ROOT, 'spec'))
SIGS = {}
PID = ['C17']


def sigs(repo):
    if repo not in SIGS: SIGS[repo] = {s[1]: s for s in cc.signatures(repo)}
    return SIGS[repo]


def templates(ctx):
    return [{'name': n, 'fn': n, 'repo': ctx.repo, 'deep': not ctx.quick()} for n in sigs(ctx.repo)]


def path(ex, t):
    return cc.run_one(ex, t['fn'], sigs(t['repo'])[t['fn']], {'deep': t.get('deep')})


def post(ex, t, r):
    if r.kind == 'unsupported': return {'kind': 'unsupported', 'detail': r.detail, 'where': r.where}
    st = ex.side.get('st') or {}
    if st.get('stage') == 'build' and r.kind != 'ok': return {'kind': 'unsupported', 'detail': 'harness: %s %s' % (r.kind, r.detail), 'where': r.where}
    try:
        s = cc.summarise(ex, st, r)
    except Infeasible:
        return None
    except Unsupported as u:
        return {'kind': 'unsupported', 'detail': 'summarise: %s' % u, 'where': None}
    s.update(kind=r.kind, detail=r.detail, where=r.where)
    s['native_case'] = {'api': 'capi', 'pool': s['pool_pre'], 'calls': [{'fn': s['fn'], 'args': s['args']}]}
    return s


def nozone(j):
    """named zones: the offset comes from the IANA rules, which are outside the model (instant and zone id are compared)"""
    if isinstance(j, dict):
        j = {k: nozone(v) for k, v in j.items()}
        if j.get('t') == 'dt' and j.get('tz') not in ('UTC',): j.pop('off', None)
        return j
    if isinstance(j, list): return [nozone(x) for x in j]
    return j


def same_outcome(o, n):
    """mirsym's predicted outcome against the native one; '?' = an error text that is not modelled (presence only)"""
    d = []
    for k in ('ret', 'pool'):
        a, b = o.get(k), n.get(k)
        if k == 'ret' and isinstance(a, dict) and a.get('filter') == '?' and isinstance(b, dict) and 'filter' in b: continue
        if nozone(cc.norm_native(b)) != nozone(a): d.append('%s: mirsym %s native %s' % (k, json.dumps(a)[:160], json.dumps(cc.norm_native(b))[:160]))
    if ('outp' in o) != ('outp' in n) or ('outp' in o and cc.norm_native(n['outp']) != o['outp']): d.append('outp: mirsym %s native %s' % (o.get('outp'), n.get('outp')))
    if o.get('err_cleared') != n.get('err_cleared'): d.append('err_cleared: mirsym %s native %s' % (o.get('err_cleared'), n.get('err_cleared')))
    if (o.get('err') is None) != (n.get('err') is None): d.append('err: mirsym %s native %s' % (o.get('err'), n.get('err')))
    elif o.get('err') not in (None, '?') and o['err'] != n['err']: d.append('err text: mirsym %r native %r' % (bytes.fromhex(o['err']), bytes.fromhex(n['err'])))
    return d


def run(ctx, pid='C17'):
    PID[0] = pid
    import capi as spec
    prog = load.program(ctx.repo, ctx.cache)
    T = templates(ctx)
    S_ = sigs(ctx.repo)
    ctx.cov['bounds'] = {'functions': len(T), 'handles': 'one value of each of the 18 kinds per Value parameter (payload symbolic; quick: list <= 3, dict <= 2 keys, grid <= 2 rows, strings <= 1 byte; thorough: list <= 4, dict <= 3 keys with a nested dict, grid <= 3 rows, strings <= 2 bytes) or null',
                         'numbers': 'fully symbolic (u32 / i32 / usize / f64 / bool)', 'strings': 'per-parameter domains (see capi_common.string_domain) or 0-1 symbolic bytes, null, invalid UTF-8'}
    S = sym.explore_templates(ctx, __import__('props.C17', fromlist=['x']), T, prog, split_depth=2, budget_s=420 if ctx.quick() else 2400)
    sym.native_check(ctx, S)
    ctx.cov['path_kinds'] = dict(collections.Counter(s['kind'] for s in S))
    unsup = collections.Counter(); mism = 0; validated = 0
    need_rust = []; mem_verdicts = collections.defaultdict(list); clean_cases = []
    per_fn = collections.Counter()
    for s in S:
        if s['kind'] == 'unsupported': unsup[(s.get('template', '?') + ': ' + s['detail'])[:200]] += 1; continue
        n = s.get('native') or {}
        per_fn[s['fn']] += 1
        if s['kind'] in ('panic', 'bound'):
            # a panic inside an extern "C" function aborts the process
            if 'abort' in n or 'panic' in n or 'hang' in n:
                validated += 1
                if pid == 'C18':
                    ctx.report('capi.%s:%s' % ('panic' if s['kind'] == 'panic' else 'nonterm', s['fn']), '%s(%s) ends in %s (%s): aborts the caller' % (s['fn'], json.dumps(s['args'])[:200], s['kind'], s['detail']), case=s['native_case'])
                else:
                    ctx.report('capi.sem:%s:abort' % s['fn'], '%s(%s) aborts the process (%s) where the Rust API returns a value or an error' % (s['fn'], json.dumps(s['args'])[:200], s['detail']), case=s['native_case'])
            else:
                mism += 1
                if mism <= 5: print('MODEL-MISMATCH %s args=%s: mirsym %s (%s), native %s' % (s['fn'], json.dumps(s['args'])[:200], s['kind'], s['detail'], json.dumps(n)[:200]))
            continue
        if 'ok' not in n and s.get('mem') and ('abort' in n or 'hang' in n):
            # the heap model predicted a memory error and the real call kills the process (e.g. free of a pointer that is no allocation)
            validated += 1
            if pid == 'C18':
                ctx.report('capi.mem:%s:%s' % (s['fn'], s['mem'][0].split(':')[0][:30]), '%s(%s): %s [native: %s]' % (s['fn'], json.dumps(s['args'])[:200], s['mem'][0], str(n)[:80]), case=s['native_case'])
            else:
                ctx.report('capi.sem:%s:abort' % s['fn'], '%s(%s) aborts the process (%s) where the Rust API returns a value' % (s['fn'], json.dumps(s['args'])[:200], str(n)[:80]), case=s['native_case'])
            continue
        if 'ok' not in n:
            mism += 1
            if mism <= 5: print('MODEL-MISMATCH %s args=%s: mirsym ok, native %s' % (s['fn'], json.dumps(s['args'])[:200], json.dumps(n)[:200]))
            continue
        nat = n['ok'][0]
        d = same_outcome(s['out'], nat)
        if d:
            mism += 1
            if mism <= int(os.environ.get('VERIF_SHOW', '5')): print('MODEL-MISMATCH %s args=%s pool=%s: %s' % (s['fn'], json.dumps(s['args'])[:200], json.dumps(s['pool_pre'])[:200], '; '.join(d)[:500]))
            continue
        validated += 1
        s['nat'] = nat
        if pid == 'C18':
            for msg in s['mem']:
                mem_verdicts['capi.mem:%s:%s' % (s['fn'], msg.split(':')[0][:30])].append((s, msg))
            # null tolerance: a null pointer argument of a non-destroy function is reported as an error
            sg = S_[s['fn']]
            if not s['fn'].endswith('_destroy'):
                nulls = [i for i, (pn, t) in enumerate(sg[2]) if t.startswith('*') and s['args'][i] is None]
                if nulls and nat.get('err') is None:
                    ctx.report('capi.null:%s' % s['fn'], '%s with a null pointer for parameter %s returns %s and records no error' % (s['fn'], [sg[2][i][0] for i in nulls], json.dumps(nat.get('ret'))), case=s['native_case'])
            continue
        sg = S_[s['fn']]
        e = spec.expected(s['fn'], sg[2], sg[3], s['args'], s['pool_pre'])
        if e is None: need_rust.append(s); continue
        judge(ctx, s, e)
    if pid == 'C18':
        # replay before reporting: a memory verdict of the heap model must be reproduced by AddressSanitizer / LeakSanitizer
        # on the real build (a leaked value is visible to LSan only if it owns heap memory: such witnesses are tried first)
        asan = native.build_asan()
        def heapy(s): return -len(json.dumps(s['pool_pre']))
        for key, lst in sorted(mem_verdicts.items()):
            confirmed = None
            for s, msg in sorted(lst, key=lambda sm: heapy(sm[0]))[:12]:
                v, tail = native.run_asan(asan, [s['native_case']])
                ctx.cov['queries'] += 0
                if v is not None: confirmed = (s, msg, v); break
            if confirmed:
                s, msg, v = confirmed
                ctx.report(key, '%s(%s) on %s: %s [sanitizer: %s]' % (s['fn'], json.dumps(s['args'])[:200], json.dumps(s['pool_pre'])[:200], msg, v), case=s['native_case'])
            else:
                ctx.note_inconclusive('heap-model verdict not reproduced under ASan/LSan (%d witnesses tried): %s' % (min(len(lst), 12), key))
        # and the other way round: every explored call, batched per function, must be clean under the sanitizers
        byfn = collections.defaultdict(list)
        bad_keys = {s['fn'] for lst in mem_verdicts.values() for s, _ in lst}
        for s in S:
            if s.get('kind') == 'ok' and s.get('nat') is not None and not s['mem']: byfn[s['fn']].append(s['native_case'])
        ran = 0
        import concurrent.futures as cf
        lim = 40 if ctx.quick() else 100000
        with cf.ThreadPoolExecutor(max_workers=ctx.jobs) as pool:
            futs = {pool.submit(native.run_asan, asan, cases[:lim]): fn for fn, cases in byfn.items()}
            for f in cf.as_completed(futs):
                fn = futs[f]; v, tail = f.result(); ran += min(len(byfn[fn]), lim)
                if v is None: continue
                # find the single case
                for c in byfn[fn][:lim]:
                    v1, t1 = native.run_asan(asan, [c])
                    if v1 is not None:
                        ctx.report('capi.asan:%s:%s' % (fn, v1), '%s(%s): the sanitizer reports %s although the heap model predicted a clean call' % (fn, json.dumps(c['calls'][0]['args'])[:200], v1), case=c); break
                else:
                    ctx.note_inconclusive('sanitizer verdict %s for a batch of %s not attributable to one call' % (v, fn))
        ctx.cov['asan_cases'] = ran
    # entry points that forward to the Rust API: the expectation is what that API gives natively on the same inputs
    if pid == 'C17' and need_rust:
        binary = native.build()
        res = native.run_cases(binary, [{'api': 'capi_rust', 'fn': s['fn'], 'args': s['args'], 'pool': s['pool_pre']} for s in need_rust])
        for s, r in zip(need_rust, res):
            e = (r or {}).get('ok')
            if not isinstance(e, dict) or 'ret' not in e:
                ctx.note_inconclusive('no Rust-API reference for %s: %s' % (s['fn'], json.dumps(r)[:200])); continue
            e['outp'] = 'absent'
            judge(ctx, s, e)
    ctx.cov['traces_validated_against_impl'] += validated
    ctx.cov['paths_per_function'] = dict(per_fn)
    ctx.cov['functions_without_paths'] = sorted(set(S_) - set(per_fn))
    ctx.cov['unsupported_paths'] = dict(unsup)
    for s in S[:4]: ctx.add_sample({'fn': s.get('fn'), 'args': s.get('args'), 'out': s.get('out')})
    if mism: ctx.note_inconclusive('%d paths where the native build disagrees with the encoding (model mismatch)' % mism)
    if unsup: ctx.note_inconclusive('%d paths ended in an unmodelled construct: %s' % (sum(unsup.values()), list(unsup)[:3]))
    if ctx.cov['functions_without_paths']: ctx.note_inconclusive('no path explored for: %s' % ctx.cov['functions_without_paths'][:5])


def differences(nat, e):
    bad = []
    if cc.norm_native(nat.get('ret')) != cc.norm_native(e['ret']): bad.append('returns %s, the reference gives %s' % (json.dumps(nat.get('ret'))[:200], json.dumps(e['ret'])[:200]))
    if not nat.get('err_cleared'): bad.append('the error slot is not cleared by last_error_message')
    if (nat.get('err') is not None) != bool(e['err']): bad.append('error recorded: %s, the reference: %s' % (nat.get('err') is not None, e['err']))
    if cc.norm_native(nat.get('pool')) != cc.norm_native(e['pool']): bad.append('handles afterwards %s, the reference gives %s' % (json.dumps(cc.norm_native(nat.get('pool')))[:300], json.dumps(cc.norm_native(e['pool']))[:300]))
    if e.get('outp') != 'absent' and cc.norm_native(nat.get('outp', 'absent')) != cc.norm_native(e['outp']): bad.append('borrowed entry %s, the reference gives %s' % (json.dumps(nat.get('outp'))[:200], json.dumps(e['outp'])[:200]))
    return bad


def judge(ctx, s, e):
    """native outcome against the reference"""
    bad = differences(s['nat'], e)
    if bad:
        ctx.report('capi.sem:%s:%s' % (s['fn'], bad[0].split(',')[0].split(' ')[0]), '%s(%s) on %s: %s' % (s['fn'], json.dumps(s['args'])[:200], json.dumps(s['pool_pre'])[:200], '; '.join(bad)),
                   case=dict(s['native_case'], _expect=e))


def replay(ctx, path):
    """exit 1 iff the recorded violation reproduces on the current tree: the call aborts, differs from the recorded reference
    answer, (C18) is reported by the sanitizers or swallows a null pointer without recording an error"""
    obj = json.load(open(path)); case = obj['case']; key = obj.get('key', '')
    r = native.run_cases(native.build(), [case])[0]
    print(json.dumps(r)[:600])
    if 'panic' in r or 'hang' in r or 'abort' in r: return 1
    if key.startswith(('capi.mem', 'capi.asan')):
        v, tail = native.run_asan(native.build_asan(), [case]); print('sanitizer:', v)
        return 1 if v is not None else 0
    if key.startswith('capi.null'): return 1 if r['ok'][0].get('err') is None else 0
    e = case.get('_expect')
    if e is not None:
        bad = differences(r['ok'][0], e); print('; '.join(bad)[:600])
        return 1 if bad else 0
    return 0
