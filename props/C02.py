"""C02 Hayson encode -> decode returns the original value (engine M at the serde data-model level)."""
import collections, json, os
import z3
from mirsym import load
from mirsym.values import *
from mirsym.hv import HV, sym_eq
from mirsym.vj import Concretizer, norm_native
from vlib import sym, native
from props import zenc_common as zc, hayson_common as hc
from mirsym.engine import F64

QUICK = [True]


def extra_shapes():
    """numbers over all f64 (Hayson has no text stage for them at this level)"""
    from props.zenc_common import Leaves
    S = {}
    def fin(h, l):
        x = l.f64(); h.ex.assume(z3.And(z3.Not(z3.fpIsNaN(x)), z3.Not(z3.fpIsInf(x)))); return x
    def nonint(h, l):
        x = l.f64(); h.ex.assume(z3.And(z3.Not(z3.fpIsNaN(x)), z3.Not(z3.fpIsInf(x)), z3.fpLT(z3.fpAbs(x), z3.FPVal(4503599627370496.0, F64)),
                                    z3.Not(z3.fpEQ(z3.fpRoundToIntegral(z3.RTZ(), x), x)))); return h.num(x)
    def smallint(h, l):
        i = z3.BitVec('i%d' % l.n, 16); l.n += 1; return h.num(z3.fpSignedToFP(z3.RNE(), i, F64))
    def big(h, l):
        x = l.f64(); h.ex.assume(z3.And(z3.Not(z3.fpIsNaN(x)), z3.Not(z3.fpIsInf(x)), z3.fpGEQ(z3.fpAbs(x), z3.FPVal(9007199254740992.0, F64)))); return h.num(x)
    S['num-1e19'] = lambda h, l: h.num(1e19)
    S['num-2^63'] = lambda h, l: h.num(9223372036854775808.0)
    S['num-neg-2^63'] = lambda h, l: h.num(-9223372036854775808.0)
    S['num-nonint'] = nonint
    S['num-int16'] = smallint
    S['num-beyond-2^53'] = big
    S['num-any-unit'] = lambda h, l: h.num(fin(h, l), 'meter')     # well-formed: non-finite numbers carry no unit
    S['coord-any'] = lambda h, l: h.coord(fin(h, l), fin(h, l))
    return S


def templates(ctx):
    # the decimal-text number shapes of the Zinc catalogue are replaced by the float-class shapes below (no text stage here)
    T = [dict(t, shape=t['name']) for t in zc.templates(ctx.quick(), only_wf=True) if not t['name'].startswith(('num-dec', 'num-unit-')) and t['name'] != 'coord']
    for n in extra_shapes(): T.append({'name': n, 'shape': n, 'wf': True, 'extra': True})
    return T


def build(ex, t):
    if t.get('extra'):
        h = HV(ex); l = zc.Leaves(ex)
        return extra_shapes()[t['shape']](h, l)
    return zc.build(ex, dict(t, name=t['shape']), QUICK[0])


def path(ex, t):
    v = build(ex, t)
    ex.side['orig'] = v
    st = {'stage': 'encode'}; ex.side['st'] = st
    kind, tree = hc.encode(ex, v)
    st['enc'] = kind; st['tree'] = tree
    if kind != 'ok': return st
    st['stage'] = 'decode'
    d = hc.decode(ex, tree, v.ty)
    st['dec'] = d; st['stage'] = 'done'
    return st


def wf_extra(ex, v):
    """well-formedness of the extra numeric shapes: non-finite numbers carry no unit; Coord components are finite"""
    return True


def post(ex, t, r):
    if r.kind == 'unsupported': return {'kind': 'unsupported', 'detail': r.detail, 'where': r.where}
    st = ex.side.get('st') or {}
    s = {'kind': r.kind, 'detail': r.detail, 'where': r.where, 'stage': st.get('stage'), 'shape': t['shape']}
    viol = None; cond = None
    if r.kind in ('panic', 'bound'): viol = '%s-in-%s' % (r.kind, st.get('stage'))
    elif st['enc'] != 'ok': viol = 'encode-error'
    elif st['dec'].variant != 0: viol = 'decode-error'
    else:
        eq = sym_eq(ex, ex.side['orig'], st['dec'].fields[0])
        if eq is False: viol = 'value-differs'
        elif eq is not True:
            if ex.sat(z3.Not(eq)) is not None: viol = 'value-differs'; cond = z3.Not(eq)
    try:
        if cond is not None: ex.assume(cond)
        m = ex.model()
    except Infeasible:
        return None
    cz = Concretizer(ex, m)
    try: s['orig'] = cz.value(ex.side['orig'])
    except Unsupported as u: return {'kind': 'unsupported', 'detail': 'concretize: %s' % u, 'where': None}
    if st.get('tree') is not None and st.get('enc') == 'ok': s['tree'] = hc.tj(cz, st['tree'])
    if r.kind == 'ok' and st.get('enc') == 'ok' and st['dec'].variant == 0:
        try: s['decoded'] = cz.value(st['dec'].fields[0])
        except Unsupported: pass
    if ex.side.get('named_zone'): s['zone_axiom'] = True
    s['native_case'] = {'api': 'json_roundtrip', 'v': s['orig']}
    s['viol'] = viol
    return s


def is_wellformed(vj):
    """statement: non-finite numbers carry no unit; (Coord components finite: implied)"""
    def walk(j):
        if isinstance(j, dict):
            if j.get('t') == 'num' and j.get('unit') and j['bits'][:3] in ('7ff', 'fff'): return False
            if j.get('t') == 'coord' and (j['lat'][:3] in ('7ff', 'fff') or j['lng'][:3] in ('7ff', 'fff')): return False
            return all(walk(v) for v in j.values())
        if isinstance(j, list): return all(walk(x) for x in j)
        return True
    return walk(vj)


def run(ctx):
    QUICK[0] = ctx.quick()
    from mirsym.engine import Exec
    Exec.query_timeout_ms = 90000        # IEEE conversion queries need more than the default 20 s under load
    prog = load.program(ctx.repo, ctx.cache)
    T = templates(ctx)
    ctx.cov['bounds'] = {'string_code_points': 2 if ctx.quick() else 3, 'collection_entries': 2, 'nesting': 2, 'numbers': 'every f64 bit pattern (symbolic), with and without unit'}
    S = sym.explore_templates(ctx, __import__('props.C02', fromlist=['x']), T, prog, split_depth=4, budget_s=240 if ctx.quick() else 1500)
    sym.native_check(ctx, S)
    ctx.cov['path_kinds'] = dict(collections.Counter(s['kind'] for s in S))
    mism = 0; validated = 0; unsup = collections.Counter()
    for s in S:
        if s['kind'] == 'unsupported': unsup[(s.get('template', '?') + ': ' + s['detail'])[:110]] += 1; continue
        n = s.get('native') or {}
        v = s.get('viol')
        # native agreement (tree level is internal; natively we see text -> value)
        if s['kind'] == 'panic': okn = 'panic' in n
        elif v == 'encode-error': okn = 'enc_err' in n
        elif v == 'decode-error': okn = 'err' in n
        else:
            okn = 'ok' in n
            if okn and 'decoded' in s:
                nv, sv = norm_native(n['ok']), s['decoded']
                if s.get('zone_axiom'):
                    from props.zinc_common import strip_dt
                    nv, sv = strip_dt(nv), strip_dt(sv)
                okn = nv == sv
        if not okn:
            mism += 1
            if mism <= int(os.environ.get('VERIF_SHOW', '5')): print('MODEL-MISMATCH template=%s orig=%s: mirsym %s/%s tree %s native %s' % (s['template'], json.dumps(s.get('orig'))[:200], s['kind'], v, json.dumps(s.get('tree'))[:160], str(n)[:240]))
            continue
        validated += 1
        if not v: continue
        if not is_wellformed(s['orig']): continue
        where = ''
        if v == 'value-differs' and 'ok' in n:
            where = zc.diff_path(zc.norm_grid_meta(s['orig']), zc.norm_grid_meta(norm_native(n['ok']))) or ''
            if not where: continue
        cls = num_class(s['orig'])
        ctx.report('hayson.roundtrip:%s:%s%s:%s' % (s['shape'].rstrip('0123456789'), v, where, cls),
                   '%s for %s; JSON %r; native: %s' % (v, json.dumps(s['orig'])[:240], bytes.fromhex(n.get('text', '')), str({k: n[k] for k in n if k != 'text'})[:200]), case=s['native_case'])
    ctx.cov['traces_validated_against_impl'] += validated
    for s in S[:8]: ctx.add_sample({'template': s.get('template'), 'value': s.get('orig'), 'tree': s.get('tree'), 'violation': s.get('viol')})
    ctx.cov['unsupported_paths'] = dict(unsup)
    if mism: ctx.note_inconclusive('%d paths where the native build disagrees with the encoding (model mismatch)' % mism)
    if unsup: ctx.note_inconclusive('%d paths ended in an unmodelled construct: %s' % (sum(unsup.values()), list(unsup)[:3]))
    ctx.assume("serde_json's text layer (number and string writer/reader) is trusted: the model works on the serde data model; non-finite f64 -> null as serde_json documents")
    ctx.obligation('hayson-roundtrip-identity', 'held' if not ctx.violations else 'violated', paths=len(S))


def num_class(vj):
    import struct as st_
    cl = set()
    def walk(j):
        if isinstance(j, dict):
            if j.get('t') == 'num':
                x = st_.unpack('<d', bytes.fromhex(j['bits'])[::-1])[0]
                if x != x: cl.add('nan')
                elif x in (float('inf'), float('-inf')): cl.add('inf')
                elif abs(x) >= 2 ** 63: cl.add('beyond-i64')
                elif x == 0 and j['bits'][0] == '8': cl.add('negzero')
            for v in j.values(): walk(v)
        elif isinstance(j, list):
            for x in j: walk(x)
    walk(vj)
    return '+'.join(sorted(cl)) or '-'


def replay(ctx, path):
    case = json.load(open(path))['case']
    r = native.run_cases(native.build(), [case])[0]
    print(json.dumps(r)[:600])
    return 0 if r.get('same') is True else 1
