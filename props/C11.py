"""C11 Re-encoding decoded text is stable; stream decoding equals buffer decoding; the lazy row iterator reads at most one token ahead.
Engine M: (a) decode(t)=v, encode(v)=t2, decode(t2)=v2, v2==v for symbolic t; (b) on every explored path the reader is only asked
for 1 byte through read_exact and only UnexpectedEof is inspected; (c) bytes consumed when each row is yielded."""
import collections, json, os
import z3
from mirsym import load, zinc
from mirsym.values import *
from mirsym.hv import HV, sym_eq
from mirsym.vj import Concretizer, norm_native
from mirsym.models_fmt import Cursor
from vlib import sym, native
from props import zinc_common as zc, zenc_common as ze, C03

GRID = b'ver:"3.0"\n'


def templates(ctx):
    q = ctx.quick(); T = []
    for n in range(0, (3 if q else 4) + 1): T.append({'name': 'any%d' % n, 'parts': [n], 'mode': 'restable'})
    k = 2 if q else 3
    for name, parts in [('grid-row', [GRID + b'a\n', k]), ('grid-row2', [GRID + b'a,b\n1', k, b'\n']), ('grid-meta', [b'ver:"3.0" ', k, b'\na\n']),
                        ('grid-colmeta', [GRID + b'a ', k, b'\n1\n']), ('list', [b'[', k, b']']), ('list2', [b'[1,', k, b']']), ('dict', [b'{', k, b'}']),
                        ('dict2', [b'{a:1 ', k, b'}']), ('nested-grid', [b'[<<\n' + GRID + b'a\n', k, b'\n>>]']), ('str', [b'"', k, b'"']),
                        ('str-esc', [b'"\\', k, b'"']), ('uri', [b'`', k, b'`']), ('uri-esc', [b'`\\', k, b'`']), ('ref', [b'@', k]), ('ref-dis', [b'@a "', k, b'"']),
                        ('sym', [b'^', k]), ('coord', [b'C(1,', k, b')']), ('xstr', [b'Xy("', k, b'")']), ('num', [b'1', k]), ('num-exp', [b'1e', k]),
                        ('neg', [b'-', k]), ('time', [b'12:30:', k]), ('date', [b'2021-03-', k]), ('dt', [b'2021-03-04T05:06:07', k]),
                        ('dt-gmt', [b'2021-03-04T05:06:07+0', 1, b':00 GMT-', 1])]:
        T.append({'name': 'sk-' + name, 'parts': parts, 'mode': 'restable'})
    # laziness: three rows of symbolic one-digit cells
    T.append({'name': 'lazy-3rows', 'mode': 'lazy', 'parts': [GRID + b'a,b\n', ('cls', list(range(48, 58))), b',', ('cls', list(range(48, 58))), b'\n',
                                                                ('cls', list(range(48, 58))), b',', ('cls', list(range(48, 58))), b'\n', ('cls', list(range(48, 58))), b',', ('cls', list(range(48, 58))), b'\n']})
    T.append({'name': 'lazy-str-rows', 'mode': 'lazy', 'parts': [GRID + b'a\n"', ('cls', list(range(97, 123))), b'"\n"', ('cls', list(range(97, 123))), b'"\n']})
    return T


def path(ex, t):
    data, syms = zc.sym_input(t)
    ex.side['input'] = data
    for s_ in syms:
        if isinstance(s_, tuple): ex.assume(z3.Or([s_[0] == c for c in s_[1]]))
    st = {'stage': 'decode1'}; ex.side['st'] = st
    if t['mode'] == 'lazy':
        prog = ex.prog
        rd = Cursor(data); ex.side['reader'] = rd
        mk = zinc.find_impl_method(prog, 'zinc/decode/parser.rs', 'make')
        r = ex.call_body(mk, [Ptr(Cell(rd))])
        if r.variant == 1: return st
        pc = Cell(r.fields[0])
        it = ex.call_named('haystack::encoding::zinc::decode::complex::grid::parse_grid_iterator', [Ptr(pc)])
        if it.variant == 1: return st
        itc = Cell(it.fields[0])
        nxt = prog.find_method(it.fields[0].ty, 'Iterator', 'next')
        pos = []
        while len(pos) < 10:
            o = ex.call_body(nxt, [Ptr(itc)])
            if o.variant == 0: break
            pos.append((rd.pos, o.fields[0].variant))
            if o.fields[0].variant == 1: break
        st['positions'] = pos; st['stage'] = 'done'
        return st
    r, rd = zinc.parse_value(ex, data)
    ex.side['reader'] = rd
    st['dec1'] = r
    if r.variant != 0: return st
    st['stage'] = 'encode'
    e, sink = ze.encode(ex, r.fields[0])
    st['enc'] = e; st['text2'] = list(sink.items)
    if e.variant != 0: return st
    st['stage'] = 'decode2'
    d2, _ = zinc.parse_value(ex, list(sink.items))
    st['dec2'] = d2; st['stage'] = 'done'
    return st


def post(ex, t, r):
    if r.kind == 'unsupported': return {'kind': 'unsupported', 'detail': r.detail, 'where': r.where}
    st = ex.side.get('st') or {}
    rd = ex.side.get('reader')
    s = {'kind': r.kind, 'detail': r.detail, 'where': r.where, 'stage': st.get('stage'), 'mode': t['mode']}
    viol = None; cond = None
    if rd is not None:
        s['reader'] = {'reads': rd.reads, 'max_req': rd.max_req, 'methods': sorted(getattr(rd, 'methods', {'read_exact'}))}
    if r.kind in ('panic', 'bound'):
        if st.get('stage') in ('encode', 'decode2'): viol = '%s-in-%s' % (r.kind, st.get('stage'))
    elif t['mode'] == 'restable' and 'dec1' in st and st['dec1'].variant == 0:
        if st['enc'].variant != 0: viol = 'encode-error-on-decoded-value'
        elif st['dec2'].variant != 0: viol = 'reencoded-text-rejected'
        else:
            eq = sym_eq(ex, st['dec1'].fields[0], st['dec2'].fields[0])
            if eq is False: viol = 'reencoded-value-differs'
            elif eq is not True and ex.sat(z3.Not(eq)) is not None: viol = 'reencoded-value-differs'; cond = z3.Not(eq)
    try:
        if cond is not None: ex.assume(cond)
        m = ex.model()
    except Infeasible:
        return None
    inp = zc.concrete_input(ex, m)
    s['input'] = inp.hex()
    cz = Concretizer(ex, m)
    if t['mode'] == 'lazy':
        s['native_case'] = {'api': 'zinc_lazy_positions', 'in': inp.hex()}
        s['positions'] = st.get('positions')
    else:
        s['native_case'] = {'api': 'zinc_decode', 'in': inp.hex()}
        if 'dec1' in st and st['dec1'].variant == 0:
            try: s['value1'] = cz.value(st['dec1'].fields[0])
            except Unsupported as u: s['value_unsupported'] = str(u)
            if st.get('text2') is not None and st.get('enc') is not None and st['enc'].variant == 0:
                s['text2'] = cz.bytes_(VecV(list(st['text2']), 'vec')).hex()
        s['expect'] = 'panic' if r.kind == 'panic' and st.get('stage') == 'decode1' else ('ok' if ('dec1' in st and st['dec1'].variant == 0) else 'err')
    if ex.side.get('axiomatised_floats'): s['float_axiom'] = True
    if ex.side.get('named_zone'): s['zone_axiom'] = True
    s['viol'] = viol
    return s


def run(ctx):
    prog = load.program(ctx.repo, ctx.cache)
    T = templates(ctx)
    ctx.cov['bounds'] = {'fully_symbolic_bytes': 3 if ctx.quick() else 4, 'skeleton_holes': 2 if ctx.quick() else 3, 'lazy_rows': 3}
    S = sym.explore_templates(ctx, __import__('props.C11', fromlist=['x']), T, prog, split_depth=5, budget_s=270 if ctx.quick() else 1700)
    # second native pass for the re-encoded text and for the chunked reader
    extra = []
    for s in S:
        if s.get('mode') == 'restable' and s.get('text2'):
            extra.append({'kind': 'aux', 'ref': s, 'what': 'text2', 'native_case': {'api': 'zinc_decode', 'in': s['text2']}})
        if s.get('mode') == 'restable' and s.get('input') is not None and s['kind'] == 'ok':
            extra.append({'kind': 'aux', 'ref': s, 'what': 'chunked', 'native_case': {'api': 'zinc_decode_chunked', 'in': s['input'], 'chunk': 1 + (len(extra) % 3), 'intr': 2 + (len(extra) % 2)}})
    sym.native_check(ctx, S)
    # the native build's own decode -> encode -> decode of every accepted witness (what a violation is confirmed against)
    for s in S:
        n_ = s.get('native')
        if s.get('mode') == 'restable' and isinstance(n_, dict) and 'ok' in n_:
            extra.append({'kind': 'aux', 'ref': s, 'what': 'native_rt', 'native_case': {'api': 'zinc_roundtrip', 'v': norm_native(n_['ok'])}})
    sym.native_check(ctx, extra)
    for e in extra: e['ref'].setdefault('aux', {})[e['what']] = e.get('native')
    ctx.cov['path_kinds'] = dict(collections.Counter(s['kind'] for s in S))
    mism = 0; validated = 0; unsup = collections.Counter()
    methods = collections.Counter(); maxreq = 0
    for s in S:
        if s['kind'] == 'unsupported': unsup[(s.get('template', '?') + ': ' + s['detail'])[:110]] += 1; continue
        n = s.get('native') or {}
        rdr = s.get('reader') or {}
        for mth in rdr.get('methods', []): methods[mth] += 1
        maxreq = max(maxreq, rdr.get('max_req', 0))
        if s['mode'] == 'lazy':
            if 'ok' not in n or s.get('positions') is None:
                mism += 1; print('MODEL-MISMATCH lazy %s native %s' % (s.get('positions'), str(n)[:200])); continue
            npos = [p['pos'] for p in n['ok']]
            if npos != [p for p, _ in s['positions']]:
                mism += 1; print('MODEL-MISMATCH lazy positions mirsym %s native %s' % (s['positions'], npos)); continue
            validated += 1
            text = bytes.fromhex(s['input'])
            # row k (0-based) ends at the k-th newline after the two header lines; the iterator may read at most the next token + 1 byte
            nls = [i for i, c in enumerate(text) if c == 10]
            for k, p in enumerate(npos):
                line_end = nls[2 + k] + 1 if 2 + k < len(nls) else len(text)
                rest = text[line_end:]
                nxt = rest[:rest.index(b'"', 1) + 1] if rest[:1] == b'"' and b'"' in rest[1:] else rest.split(b',')[0].split(b'\n')[0]
                bound = min(len(text), line_end + len(nxt) + 1)
                if p > bound:
                    ctx.report('zinc.lazy:read-ahead', 'row %d handed out after consuming %d bytes, bound %d (text %r)' % (k, p, bound, text), case=s['native_case'])
            continue
        # restable
        okn = zc.outcome_matches(s, n) if hasattr(zc, 'outcome_matches') else None
        exp = s.get('expect')
        o = native.outcome(n)
        if exp == 'panic': good = o in ('panic', 'abort')
        elif s['kind'] == 'bound' and s.get('stage') == 'decode1': good = o in ('hang', 'abort')
        else: good = (o == exp) or s['kind'] in ('panic', 'bound')
        if good and exp == 'ok' and 'value1' in s and 'ok' in n:
            nv = norm_native(n['ok']); sv = s['value1']
            if s.get('zone_axiom'): nv, sv = zc.strip_dt(nv), zc.strip_dt(sv)
            if s.get('float_axiom'): nv, sv = zc.strip_bits(nv), zc.strip_bits(sv)
            good = nv == sv
        if not good:
            mism += 1
            if mism <= int(os.environ.get('VERIF_SHOW', '5')): print('MODEL-MISMATCH template=%s input=%r: mirsym %s/%s native %s' % (s['template'], bytes.fromhex(s['input']), s['kind'], exp, str(n)[:200]))
            continue
        validated += 1
        aux = s.get('aux') or {}
        ch = aux.get('chunked')
        if ch is not None and exp == 'ok' and 'ok' in n:
            if 'ok' not in ch or ch['ok'] != n['ok']:
                ctx.report('zinc.stream:chunking-visible', 'decoding %r through a chunking/interrupting reader gives %s instead of %s' % (bytes.fromhex(s['input']), str(ch)[:160], str(n['ok'])[:160]),
                           case={'api': 'zinc_decode_chunked', 'in': s['input'], 'chunk': 2, 'intr': 2})
        v = s.get('viol')
        if v:
            t2 = aux.get('text2')
            nrt = aux.get('native_rt') or {}
            if nrt.get('text') is not None and s.get('text2') is not None and nrt['text'] != s['text2']:
                mism += 1; print('MODEL-MISMATCH template=%s input=%r: re-encoded text mirsym %r native %r' % (s['template'], bytes.fromhex(s['input']), bytes.fromhex(s['text2']), bytes.fromhex(nrt['text']))); continue
            confirmed = True
            if v == 'reencoded-value-differs': confirmed = nrt.get('same') is False and t2 is not None and 'ok' in t2 and 'ok' in n and norm_native(t2['ok']) != norm_native(n['ok'])
            if v == 'reencoded-text-rejected': confirmed = 'err' in nrt and t2 is not None and 'err' in t2
            if not confirmed:
                mism += 1; print('MODEL-MISMATCH template=%s input=%r: mirsym says %s, native second decode %s' % (s['template'], bytes.fromhex(s['input']), v, str(t2)[:200])); continue
            where = ''
            if v == 'reencoded-value-differs': where = zc_diff(norm_native(n['ok']), norm_native(t2['ok']))
            if where.endswith('rows.len') and has_empty_row(n.get('ok')):
                ctx.report('zinc.restable:empty-row-of-single-column-grid', 'a row with no cells in a one-column grid (%r) is re-encoded as an empty line, which ends the grid: the row is lost' % bytes.fromhex(s['input']), case=s['native_case'])
                continue
            ctx.report('zinc.restable:%s%s:%s' % (v, where, s['template'].rstrip('0123456789')),
                       '%s: %r decodes to %s, re-encodes to %r, which decodes to %s' % (v, bytes.fromhex(s['input']), str(n.get('ok'))[:160], bytes.fromhex(s.get('text2') or ''), str(t2)[:160]),
                       case=s['native_case'])
    # Hayson: what the visitor accepts re-encodes to something that decodes to the same value
    hayson_stage(ctx, prog)
    # (b) the reader contract
    ctx.cov['reader_methods_seen'] = dict(methods); ctx.cov['max_bytes_per_read_request'] = maxreq
    bad_methods = [m_ for m_ in methods if m_ != 'read_exact']
    if bad_methods or maxreq > 1:
        ctx.note_inconclusive('the decoder used reader methods %s / requests of %d bytes: chunk independence no longer follows from read_exact\'s contract (see zinc.stream findings)' % (bad_methods, maxreq)) if not ctx.violations else None
    ctx.cov['traces_validated_against_impl'] += validated
    for s in S[:6]: ctx.add_sample({'template': s.get('template'), 'input': s.get('input'), 'value': s.get('value1'), 'text2': s.get('text2'), 'violation': s.get('viol')})
    ctx.cov['unsupported_paths'] = dict(unsup)
    if mism: ctx.note_inconclusive('%d paths where the native build disagrees with the encoding (model mismatch)' % mism)
    if unsup: ctx.note_inconclusive('%d paths ended in an unmodelled construct: %s' % (sum(unsup.values()), list(unsup)[:3]))
    ctx.assume("std::io::Read::read_exact's contract (retries Interrupted, loops over short reads) makes chunk boundaries invisible when only 1-byte read_exact calls are made")
    ctx.obligation('restable+reader-contract+laziness', 'held' if not ctx.violations else 'violated', paths=len(S))


# --------------------------------------------------------------------------- Hayson: decode(tree) -> encode -> decode
class _HaysonRestable:
    """the JSON trees of C03's Hayson exploration (objects of every _kind, members absent / wrong-typed / symbolic, both
    member orders) plus reference spellings of numbers; whatever the visitor accepts is serialised again and decoded again"""
    @staticmethod
    def path(ex, t):
        from props import C03, hayson_common as hc
        st = {'stage': 'decode1'}; ex.side['st'] = st
        r = C03.hayson_path(ex, t)
        st['dec1'] = r
        if r.variant != 0: return st
        st['stage'] = 'encode'
        kind, tree2 = hc.encode(ex, r.fields[0])
        st['enc'] = kind
        if kind != 'ok': return st
        st['tree2'] = tree2; st['stage'] = 'decode2'
        st['dec2'] = hc.decode(ex, tree2, HV(ex).ty('Value')); st['stage'] = 'done'
        return st

    @staticmethod
    def post(ex, t, r):
        from props import hayson_common as hc
        if r.kind == 'unsupported': return {'kind': 'unsupported', 'detail': r.detail, 'where': r.where}
        st = ex.side.get('st') or {}
        s = {'kind': r.kind, 'detail': r.detail, 'where': r.where, 'stage': st.get('stage'), 'mode': 'hayson'}
        viol = None; cond = None
        if r.kind in ('panic', 'bound'):
            if st.get('stage') in ('encode', 'decode2'): viol = '%s-in-%s' % (r.kind, st.get('stage'))
        elif 'dec1' in st and st['dec1'].variant == 0:
            if st.get('enc') != 'ok': viol = 'encode-error-on-decoded-value'
            elif st['dec2'].variant != 0: viol = 'reencoded-tree-rejected'
            else:
                eq = sym_eq(ex, st['dec1'].fields[0], st['dec2'].fields[0])
                if eq is False: viol = 'reencoded-value-differs'
                elif eq is not True and ex.sat(z3.Not(eq)) is not None: viol = 'reencoded-value-differs'; cond = z3.Not(eq)
        try:
            if cond is not None: ex.assume(cond)
            m = ex.model()
        except Infeasible:
            return None
        cz = Concretizer(ex, m)
        tj = hc.tj(cz, ex.side['tree'])
        s['input'] = json.dumps(tj); s['native_case'] = {'api': 'json_decode', 'tree': tj}
        s['expect'] = ('ok' if ('dec1' in st and st['dec1'].variant == 0) else 'err') if r.kind == 'ok' or st.get('stage') != 'decode1' else r.kind
        if 'dec1' in st and st['dec1'].variant == 0:
            try: s['value1'] = cz.value(st['dec1'].fields[0])
            except Unsupported as u: s['value_unsupported'] = str(u)
        if ex.side.get('named_zone'): s['zone_axiom'] = True
        s['viol'] = viol
        return s


def hayson_stage(ctx, prog):
    from props import C03
    H = sym.explore_templates(ctx, _HaysonRestable, [dict(t, conc_numbers=True) for t in C03.hayson_templates(ctx) if not t.get('dt_offset')], prog, split_depth=4, budget_s=120 if ctx.quick() else 600)
    sym.native_check(ctx, H)
    # second native pass: the decoded value through serde_json text and back
    extra = [{'kind': 'aux', 'ref': h, 'native_case': {'api': 'json_roundtrip', 'v': norm_native(h['native']['ok'])}} for h in H
             if h.get('kind') != 'unsupported' and isinstance(h.get('native'), dict) and 'ok' in h['native']]
    sym.native_check(ctx, extra)
    for e in extra: e['ref']['rt'] = e.get('native')
    mism = 0; validated = 0; unsup = collections.Counter()
    for h in H:
        if h['kind'] == 'unsupported': unsup[(h.get('template', '?') + ': ' + h['detail'])[:110]] += 1; continue
        n = h.get('native') or {}
        o = native.outcome(n)
        if h['kind'] == 'ok' and o != h.get('expect'):
            mism += 1
            if mism <= 5: print('MODEL-MISMATCH hayson %s: mirsym %s native %s' % (h['input'][:200], h.get('expect'), str(n)[:200]))
            continue
        validated += 1
        rt = h.get('rt')
        v = h.get('viol')
        if o != 'ok' or rt is None: continue
        same = rt.get('same')
        if same is False and 'ok' in rt: same = ze.norm_grid_meta(norm_native(rt['ok'])) == ze.norm_grid_meta(norm_native(n['ok']))
        nat_bad = (same is False) or ('err' in rt) or ('enc_err' in rt) or ('panic' in rt)
        if h.get('zone_axiom') and not v: nat_bad = ('err' in rt) or ('enc_err' in rt) or ('panic' in rt)
        if bool(v) != nat_bad:
            mism += 1
            if mism <= 5: print('MODEL-MISMATCH hayson %s: mirsym verdict %s, native re-encode %s' % (h['input'][:200], v, str(rt)[:200]))
            continue
        if v:
            ctx.report('hayson.restable:%s:%s' % (v, h['template']), '%s: the tree %s decodes to %s, which re-encodes / re-decodes as %s' % (v, h['input'][:200], json.dumps(n.get('ok'))[:160], str(rt)[:200]),
                       case=h['native_case'])
    ctx.cov['traces_validated_against_impl'] += validated
    ctx.cov['hayson_paths'] = len(H)
    if mism: ctx.note_inconclusive('%d Hayson paths where the native build disagrees with the encoding (model mismatch)' % mism)
    if unsup: ctx.note_inconclusive('%d Hayson paths ended in an unmodelled construct: %s' % (sum(unsup.values()), list(unsup)[:3]))


def has_empty_row(j):
    if isinstance(j, dict):
        if j.get('t') == 'grid' and len(j.get('cols', [])) == 1 and any(r == [] for r in j.get('rows', [])): return True
        return any(has_empty_row(v) for v in j.values())
    if isinstance(j, list): return any(has_empty_row(x) for x in j)
    return False


def zc_diff(a, b):
    from props.zenc_common import diff_path
    return diff_path(a, b) or ''


def replay(ctx, path):
    case = json.load(open(path))['case']
    r = native.run_cases(native.build(), [case])[0]
    print(json.dumps(r)[:600])
    return 1
