"""C01 Zinc encode -> decode returns the original value (engine M): catalogue of well-formed shapes with symbolic leaves."""
import collections, json, os
from mirsym import load
from vlib import sym, native
from props import zenc_common as zc
from mirsym.vj import norm_native

QUICK = [True]


def path(ex, t): return zc.run_roundtrip(ex, t, QUICK[0])
def post(ex, t, r): return zc.post_roundtrip(ex, t, r)


def run(ctx):
    QUICK[0] = ctx.quick()
    prog = load.program(ctx.repo, ctx.cache)
    T = zc.templates(ctx.quick(), only_wf=True)
    ctx.cov['bounds'] = {'string_code_points': 2 if ctx.quick() else 3, 'collection_entries': 2, 'nesting': 2, 'decimal_digits': 2}
    S = sym.explore_templates(ctx, __import__('props.C01', fromlist=['x']), T, prog, split_depth=4, budget_s=240 if ctx.quick() else 1500)
    sym.native_check(ctx, S)
    ctx.cov['path_kinds'] = dict(collections.Counter(s['kind'] for s in S))
    mism = 0; validated = 0; unsup = collections.Counter(); nviol = 0
    for s in S:
        if s['kind'] == 'unsupported': unsup[(s.get('template', '?') + ': ' + s['detail'])[:110]] += 1; continue
        d = zc.compare_roundtrip(s)
        if d is not None:
            mism += 1
            if mism <= int(os.environ.get('VERIF_SHOW', '5')): print('MODEL-MISMATCH template=%s orig=%s: %s' % (s['template'], json.dumps(s.get('orig'))[:200], d))
            continue
        if s.get('native') is not None: validated += 1
        v = s.get('viol')
        if not v: continue
        n = s.get('native') or {}
        # the violation must reproduce natively: the native round trip is not the identity
        if v == 'value-differs' and n.get('same') is True:
            mism += 1; print('MODEL-MISMATCH template=%s: mirsym says the value changes, native round trip is the identity: %s' % (s['template'], json.dumps(s['orig'])[:200])); continue
        nviol += 1
        where = ''
        if v == 'value-differs' and 'ok' in n:
            where = zc.diff_path(zc.norm_grid_meta(s['orig']), zc.norm_grid_meta(norm_native(n['ok']))) or ''
            if not where: continue        # differs only in absent-vs-empty meta
        wc = '|'.join(sorted(set(zc.witness_class(x) for x in zc.strings_in(s['orig'])) - {'plain'})) or '-'
        key = 'zinc.roundtrip:%s:%s%s:%s' % (s['template'].rstrip('0123456789'), v, where, wc)
        what = '%s for %s; text %r; native: %s' % (v, json.dumps(s['orig'])[:240], bytes.fromhex(s.get('text') or n.get('text') or ''), str({k: n[k] for k in n if k != 'text'})[:200])
        ctx.report(key, what, case=s['native_case'])
    ctx.cov['traces_validated_against_impl'] += validated
    for s in S[:8]:
        ctx.add_sample({'template': s.get('template'), 'value': s.get('orig'), 'text': s.get('text'), 'violation': s.get('viol')})
    ctx.cov['unsupported_paths'] = dict(unsup)
    ctx.cov['violating_paths'] = nviol
    if mism: ctx.note_inconclusive('%d paths where the native build disagrees with the encoding (model mismatch)' % mism)
    if unsup: ctx.note_inconclusive('%d paths ended in an unmodelled construct: %s' % (sum(unsup.values()), list(unsup)[:3]))
    ctx.assume('f64 <-> text exact for decimals with <= 15 significant digits and the listed special values (std float printing/parsing trusted beyond)')
    ctx.assume('zones: UTC and Etc/GMT±N only; IANA rule tables outside the model')
    ctx.obligation('zinc-roundtrip-identity', 'held' if not ctx.violations else 'violated', paths=len(S))


def replay(ctx, path):
    case = json.load(open(path))['case']
    r = native.run_cases(native.build(), [case])[0]
    print(json.dumps(r)[:600])
    return 0 if r.get('same') is True else 1
