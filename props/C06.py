"""C06 Timestamps keep their instant and zone (PARTIAL: fixed offsets, instants and zone ids; IANA rule tables / DST outside the model).
Engine M: DateTime::parse_from_rfc3339(_with_timezone) over every offset text, the Zinc reader's explicit-offset arithmetic, fraction
digits, and timezone_short_name, all from MIR; the instant is an integer term (seconds since the epoch) compared with the text's."""
import collections, json, os
import z3
from mirsym import load, zinc
from mirsym.values import *
from mirsym.hv import HV
from mirsym.models import str_ref, deref
from mirsym import models_chrono as ch
from mirsym.vj import Concretizer
from mirsym.engine import conc_value
from vlib import sym, native
from props.zenc_common import Leaves

LOCAL = (2021, 3, 4, 5, 6, 7)
ZONES = ['UTC', 'New_York', 'Kolkata', 'GMT-5', 'St_Johns', 'Tokyo']
RT_ZONES = ['America/St_Johns', 'Atlantic/Reykjavik', 'Australia/Lord_Howe', 'America/New_York', 'Asia/Kathmandu', 'Europe/London', 'Pacific/Chatham']
# real offset transitions (UTC seconds) of those zones, used ONLY to lift a solver verdict "some rule table breaks the round
# trip" to a natively reproducible witness (the solver's own instant is generally not at a transition of the real table)
def _ts(y, m, d, hh, mi): return ch.days_from_civil(y, m, d) * 86400 + hh * 3600 + mi * 60
TRANSITIONS = {
    'America/New_York': [_ts(2021, 3, 14, 7, 0), _ts(2021, 11, 7, 6, 0)],
    'Europe/London': [_ts(2021, 3, 28, 1, 0), _ts(2021, 10, 31, 1, 0)],
    'Australia/Lord_Howe': [_ts(2021, 4, 3, 15, 0), _ts(2021, 10, 2, 15, 30)],
    'America/St_Johns': [_ts(2021, 3, 14, 5, 30), _ts(2021, 11, 7, 4, 30)],
    'Pacific/Chatham': [_ts(2021, 4, 3, 14, 0), _ts(2021, 9, 25, 14, 0)],
    'Asia/Kathmandu': [_ts(1985, 12, 31, 18, 30)],
    'Atlantic/Reykjavik': [_ts(2021, 1, 15, 12, 0)],       # no transitions since 1968: any instant (offset zero all year)
}
IDS = ['UTC', 'Europe/London', 'America/New_York', 'America/Indiana/Knox', 'America/Argentina/Buenos_Aires', 'Etc/GMT+5', 'Asia/Kolkata', 'US/Eastern', 'GB']


def templates(ctx):
    T = [{'name': 'rfc3339', 'mode': 'rfc', 'tz': None}]
    for z in ZONES[:3 if ctx.quick() else 6]: T.append({'name': 'rfc3339+' + z, 'mode': 'rfc', 'tz': z})
    for z in ZONES[1:4 if ctx.quick() else 6]: T.append({'name': 'zinc+' + z, 'mode': 'zinc', 'tz': z})
    for k in range(1, 10): T.append({'name': 'zinc-frac%d' % k, 'mode': 'frac', 'digits': k})
    for i in IDS: T.append({'name': 'short:' + i, 'mode': 'short', 'id': i})
    # round trips through both codecs in named zones whose rule table is an uninterpreted function of the instant
    import random
    for z in RT_ZONES[:3 if ctx.quick() else len(RT_ZONES)]:
        # quick: 12 of the 105 quarter-hour offsets (seed-rotated, always with the extremes and zero); thorough: all
        ks = None
        if ctx.quick(): ks = sorted(set([0, 48, 104] + random.Random(ctx.seed * 7 + len(z)).sample(range(105), 9)))
        T.append({'name': 'rt-zinc:' + z, 'mode': 'rt', 'codec': 'zinc', 'id': z, 'ks': ks})
        T.append({'name': 'rt-hayson:' + z, 'mode': 'rt', 'codec': 'hayson', 'id': z, 'ks': ks})
    return T


def offset_text(ex, l):
    sign = [43, 45][ex.pick(2)]
    ds = [l.byte([(48, 57)], 'o') for _ in range(4)]
    return [sign] + ds[:2] + [58] + ds[2:], sign, ds


def spec_offset(sign, ds):
    hh = ch.dval(ds[:2]); mm = ch.dval(ds[2:])
    secs = ch.zz(hh) * 3600 + ch.zz(mm) * 60 if ch.sym_any(hh, mm) else hh * 3600 + mm * 60
    return -secs if sign == 45 else secs


def path(ex, t):
    prog = ex.prog; h = HV(ex); l = Leaves(ex)
    st = {}; ex.side['st'] = st
    base = list(b'%04d-%02d-%02dT%02d:%02d:%02d' % LOCAL)
    local_secs = ch.days_from_civil(*LOCAL[:3]) * 86400 + LOCAL[3] * 3600 + LOCAL[4] * 60 + LOCAL[5]
    dt_ty = h.ty('DateTime')
    if t['mode'] == 'rfc':
        off, sign, ds = offset_text(ex, l)
        text = base + off
        st['text'] = text; st['spec_utc'] = local_secs - spec_offset(sign, ds)
        if t['tz'] is None:
            r = ex.call_body(prog.find_method(dt_ty, None, 'parse_from_rfc3339'), [str_ref(text)])
        else:
            r = ex.call_body(prog.find_method(dt_ty, None, 'parse_from_rfc3339_with_timezone'), [str_ref(text), str_ref(list(t['tz'].encode()))])
        st['res'] = r
        return st
    if t['mode'] == 'zinc':
        off, sign, ds = offset_text(ex, l)
        # a Zinc sentence carries a valid offset (hh <= 23, mm <= 59); other digit strings are not sentences (C03's business)
        ex.assume(z3.And(z3.ULE(ch.zz(ch.dval(ds[:2])), 23), z3.ULE(ch.zz(ch.dval(ds[2:])), 59)))
        text = base + off + [32] + list(t['tz'].encode())
        st['text'] = text; st['spec_utc'] = local_secs - spec_offset(sign, ds)
        r, rd = zinc.parse_value(ex, text)
        st['res'] = r; st['zinc'] = True
        return st
    if t['mode'] == 'frac':
        fd = [l.byte([(48, 57)], 'f') for _ in range(t['digits'])]
        text = base + [46] + fd + [90]
        st['text'] = text; st['spec_utc'] = local_secs; st['spec_ns'] = ch.dval(fd + [48] * (9 - len(fd)))
        r, rd = zinc.parse_value(ex, text)
        st['res'] = r; st['zinc'] = True
        return st
    if t['mode'] == 'rt':
        # ANY instant (symbolic calendar fields, years 0000-9999, 0, 3, 6 or 9 fraction digits) with ANY offset the zone's rule may
        # give there (a multiple of 15 minutes between -12:00 and +14:00): the rule table is an uninterpreted function, so the
        # verdict covers every table, i.e. both sides of every transition
        from props.zenc_common import sym_date, sym_time, encode as zenc
        from mirsym.hv import sym_eq
        y, mo, d = sym_date(ex, l); hh, mi, ss, _ = sym_time(ex, l)
        # the property's range: before 1980 zones have local-mean-time offsets with seconds, which +-hh:mm cannot carry
        ex.assume(z3.And(z3.UGE(ch.zz(y), 1980), z3.ULE(ch.zz(y), 2060)))
        ks = t.get('ks') or list(range(105))
        k = ks[ex.pick(len(ks))] - 48          # the offset is forked (its hh:mm text defeats z3 when symbolic), the instant stays symbolic
        # 0, 3, 9 and 6 fraction digits; thorough: all four at 12 offsets (extremes, zero, every 10th), 0 / 9 digits at the other 93
        NS = (0, 123000000, 123456789, 7000) if (t.get('ks') or (k + 48) in (0, 48, 104) or (k + 48) % 10 == 5) else (0, 123456789)
        ns = NS[ex.pick(len(NS))]
        v = h.dt(y, mo, d, hh, mi, ss, ns, k * 900, t['id'])
        st['orig'] = v; st['rt'] = True
        if t['codec'] == 'zinc':
            r, sink = zenc(ex, v)
            st['enc'] = r; st['textb'] = sink.items
            if r.variant != 0: return st
            dec, rd = zinc.parse_value(ex, list(sink.items))
            st['dec'] = dec
        else:
            from props import hayson_common as hc
            kind, tree = hc.encode(ex, v)
            st['enc_kind'] = kind
            if kind != 'ok': return st
            st['dec'] = hc.decode(ex, tree, 'Value')
        return st
    if t['mode'] == 'short':
        v = h.dt(*(LOCAL + (0, 0, t['id'])))
        d = v.fields[0]
        r = ex.call_body(prog.find_method(dt_ty, None, 'timezone_short_name'), [Ptr(Cell(d))])
        st['short'] = r; st['id'] = t['id']
        return st


def post(ex, t, r):
    if r.kind == 'unsupported': return {'kind': 'unsupported', 'detail': r.detail, 'where': r.where}
    st = ex.side.get('st') or {}
    s = {'kind': r.kind, 'detail': r.detail, 'where': r.where, 'mode': t['mode'], 'tz': t.get('tz')}
    viol = None; cond = None
    if r.kind in ('panic', 'bound'): viol = r.kind
    elif t['mode'] == 'rt':
        from mirsym.hv import sym_eq
        dec = st.get('dec')
        if dec is None: viol = 'encode-error'
        elif dec.variant != 0: viol = 'decode-error'
        else:
            eq = sym_eq(ex, st['orig'], dec.fields[0])
            if eq is False: viol = 'value-differs'
            elif eq is not True and ex.sat(z3.Not(eq)) is not None: viol = 'value-differs'; cond = z3.Not(eq)
    elif t['mode'] == 'short':
        got = bytes(st['short'].items); want = t['id'].split('/', 1)[-1].encode()
        s['short'] = got.decode(); s['want'] = want.decode()
        if got != want: viol = 'short-name'
    else:
        res = st['res']
        if res.variant == 0:
            v = res.fields[0]
            if st.get('zinc'):
                nm = ex.prog.variants(v.ty)[v.variant][0]
                if nm != 'DateTime':
                    s['not_dt'] = nm; v = None
                else: v = deref(ex, v.fields[0])
            if v is not None:
                c = deref(ex, v.fields[0])
                got = ch.utc_secs(c)
                diff = (got != st['spec_utc']) if (is_sym(got) or is_sym(st['spec_utc'])) else (got != st['spec_utc'])
                if 'spec_ns' in st:
                    gns = c.fields[0].fields[1].fields[3]
                    nd = (ch.zz(gns) != ch.zz(st['spec_ns'])) if ch.sym_any(gns, st['spec_ns']) else gns != st['spec_ns']
                    diff = z3.Or(diff, nd) if (is_sym(diff) or is_sym(nd)) else (diff or nd)
                if diff is True or (is_sym(diff) and ex.sat(diff) is not None):
                    viol = 'instant-differs'; cond = diff if is_sym(diff) else None
                s['got_zone'] = c.fields[2].fields[0] if c.fields[2].ty == 'Tz' else c.fields[2].ty
    try:
        if cond is not None: ex.assume(cond)
        m = ex.model()
    except Infeasible:
        return None
    if st.get('rt'):
        cz = Concretizer(ex, m)
        s['orig'] = cz.value(st['orig'])
        s['native_case'] = {'api': 'zinc_roundtrip' if t['codec'] == 'zinc' else 'json_roundtrip', 'v': s['orig']}
        s['viol'] = viol
        return s
    if 'text' in st:
        txt = bytes((conc_value(m.eval(b, model_completion=True)) if is_sym(b) else b) & 0xff for b in st['text'])
        s['text'] = txt.hex()
        su = st['spec_utc']; su = conc_value(m.eval(su, model_completion=True)) if is_sym(su) else su
        if su >= 1 << 63: su -= 1 << 64
        s['spec_utc'] = su
        if 'spec_ns' in st:
            sn = st['spec_ns']; s['spec_ns'] = conc_value(m.eval(sn, model_completion=True)) if is_sym(sn) else sn
        s['native_case'] = {'api': 'zinc_decode', 'in': txt.hex()} if st.get('zinc') else {'api': 'rfc3339', 'in': txt.hex(), 'tz': t.get('tz')}
        s['expect'] = ('ok' if st['res'].variant == 0 else 'err') if r.kind == 'ok' else r.kind
    else:
        s['native_case'] = None
    s['viol'] = viol
    return s


def run(ctx):
    prog = load.program(ctx.repo, ctx.cache)
    from mirsym.engine import Exec
    Exec.query_timeout_ms = 120000       # calendar arithmetic over symbolic digits: single queries take tens of seconds under load
    T = templates(ctx)
    ctx.cov['bounds'] = {'offsets': 'every +-hh:mm text (4 symbolic digits)', 'zones': ZONES, 'fraction_digits': '1..9 symbolic digits', 'zone ids for short names': IDS,
                         'NOT covered': 'IANA rule tables, DST transitions, the ~600 named zones (chrono-tz data is not in the MIR dump)'}
    S = sym.explore_templates(ctx, __import__('props.C06', fromlist=['x']), T, prog, split_depth=4, budget_s=300 if ctx.quick() else 3000)
    sym.native_check(ctx, S)
    ctx.cov['path_kinds'] = dict(collections.Counter(s['kind'] for s in S))
    mism = 0; validated = 0; unsup = collections.Counter(); lifted = {}
    for s in S:
        if s['kind'] == 'unsupported': unsup[(s.get('template', '?') + ': ' + s['detail'])[:110]] += 1; continue
        if s['mode'] == 'rt':
            # natively the witness uses the REAL rule table: the solver's offset is generally not the real one, so the native
            # replay re-zones the instant (vj 'dt' is instant + zone id) and must round-trip too
            n = s.get('native') or {}
            same = n.get('same') if 'same' in n else (n.get('ok') is not None and json.dumps(n.get('ok'), sort_keys=True) == json.dumps(n.get('orig', n.get('ok')), sort_keys=True))
            if s.get('viol') and same and 'err' not in n and 'panic' not in n:
                # lift: the same round trip at the seconds around the zone's real transitions
                zone = s['template'].split(':')[1]; api = s['native_case']['api']
                cases = [{'api': api, 'v': {'t': 'dt', 'secs': T + d, 'ns': 0, 'off': 0, 'tz': zone}} for T in TRANSITIONS.get(zone, []) for d in (-3600, -1800, -1, 0, 1, 1799, 1800, 3599, 3600)]
                key = (api, zone)
                if key not in lifted: lifted[key] = native.run_cases(native.build(), cases) if cases else []
                for c, r2 in zip(cases, lifted[key]):
                    if r2.get('same') is False or 'err' in r2 or 'panic' in r2:
                        n = r2; same = False; s = dict(s, orig=c['v'], native_case=c); break
            if s.get('viol'):
                if not same or 'err' in n or 'panic' in n:
                    ctx.report('time.roundtrip:%s' % s['template'].split(':')[0], '%s in zone %s does not survive the %s round trip (%s)' % (json.dumps(s['orig']), s['template'].split(':')[1], s['template'].split(':')[0][3:], s['viol']), case=s['native_case'])
                else:
                    mism += 1; print('MODEL-MISMATCH %s: mirsym %s, native round trip holds for %s' % (s['template'], s['viol'], json.dumps(s['orig'])))
            elif 'ok' in n and same is not False: validated += 1
            else:
                # the symbolic verdict says the round trip holds for every rule table; the real table must agree
                ctx.report('time.roundtrip-native:%s' % s['template'].split(':')[0], 'native %s round trip of %s fails: %s' % (s['template'], json.dumps(s['orig']), json.dumps(n)[:200]), case=s['native_case'])
            continue
        if s['mode'] == 'short':
            if s.get('viol'): ctx.report('time.short-name:' + s['template'], 'timezone_short_name gives %r, expected %r' % (s.get('short'), s.get('want')))
            continue
        n = s.get('native') or {}
        o = native.outcome(n)
        if (s['expect'] in ('ok', 'err') and o != s['expect']) or (s['expect'] == 'panic' and o != 'panic'):
            mism += 1
            if mism <= int(os.environ.get('VERIF_SHOW', '5')): print('MODEL-MISMATCH %s text=%r: mirsym %s native %s' % (s['template'], bytes.fromhex(s['text']), s['expect'], str(n)[:200]))
            continue
        validated += 1
        if s['kind'] == 'panic':
            ctx.report('time.panic:' + s['template'], '%s on %r' % (s['detail'], bytes.fromhex(s['text'])), case=s['native_case']); continue
        if o != 'ok': continue
        nv = n['ok']
        if nv.get('t') != 'dt': continue
        # the property, on the native value: the instant is the one the text denotes
        bad = nv['secs'] != s['spec_utc'] or ('spec_ns' in s and nv['ns'] != s['spec_ns'])
        if bool(s.get('viol')) != bad:
            mism += 1; print('MODEL-MISMATCH %s text=%r: mirsym verdict %s, native secs %s vs text %s' % (s['template'], bytes.fromhex(s['text']), s.get('viol'), nv['secs'], s['spec_utc'])); continue
        if bad:
            ctx.report('time.instant:%s' % s['template'].split('+')[0], 'text %r denotes instant %d%s, the value has %d/%d (zone %s)' % (bytes.fromhex(s['text']), s['spec_utc'], ('/%d ns' % s['spec_ns']) if 'spec_ns' in s else '', nv['secs'], nv['ns'], nv['tz']), case=s['native_case'])
        if s.get('tz') and s['mode'] in ('rfc', 'zinc') and nv.get('short') != s['tz']:
            ctx.report('time.zone:%s' % s['template'], 'asked for zone %s, got %s' % (s['tz'], nv.get('tz')), case=s['native_case'])
    ctx.cov['traces_validated_against_impl'] += validated
    for s in S[:6]: ctx.add_sample({'template': s.get('template'), 'text': s.get('text'), 'spec_utc': s.get('spec_utc'), 'violation': s.get('viol')})
    ctx.cov['unsupported_paths'] = dict(unsup)
    if mism: ctx.note_inconclusive('%d paths where the native build disagrees with the encoding (model mismatch)' % mism)
    if unsup: ctx.note_inconclusive('%d paths ended in an unmodelled construct: %s' % (sum(unsup.values()), list(unsup)[:3]))
    ctx.assume('chrono itself is modelled (civil calendar arithmetic, RFC 3339 grammar, fixed offsets); named zones: only instant and id')
    ctx.obligation('instant preserved / rejected; zone id; fraction digits; short names', 'held' if not ctx.violations else 'violated', paths=len(S))


def replay(ctx, path):
    case = json.load(open(path))['case']
    if case is None: return 1
    r = native.run_cases(native.build(), [case])[0]
    print(json.dumps(r)[:600])
    return 1
