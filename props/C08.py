"""C08 Filter text and filter tree correspond (engine M): parse(print(t)) == t with the crate's Display, and
parse(reference_print(t, spacing choices)) == t with the reference printer of /verif/spec/filter.py."""
import collections, json, os
import z3
from mirsym import load
from mirsym.values import *
from mirsym.hf import HF
from mirsym.hv import sym_eq
from mirsym.fj import FilterDump
from mirsym.models import str_ref
from mirsym.models_fmt import FormatterV
from mirsym.vj import norm_native
from vlib import sym, native
from props.zenc_common import Leaves, dec_float
from props.zinc_common import strip_bits, strip_dt
from spec.filter import FilterWriter

KEYWORDS = [b'and', b'or', b'not', b'true', b'false']


def name(ex, l, k):
    """tag / path segment name: k symbolic bytes [a-z][A-Za-z0-9_]*, not a keyword"""
    n = l.ident(k)
    for kw in KEYWORDS:
        if len(kw) == k: ex.assume(z3.Not(z3.And([b == c for b, c in zip(n, kw)])))
    return n


def literals():
    L = {}
    L['num'] = lambda f, l: f.h.num(dec_float(f.ex, l, 1, 1))
    L['num-unit'] = lambda f, l: f.h.num(dec_float(f.ex, l, 2, 0), 'kilowatt')
    L['num-big'] = lambda f, l: f.h.num(1e21)
    L['str'] = lambda f, l: f.h.str_(l.text(1))
    L['str2'] = lambda f, l: f.h.str_(l.text(2))
    L['bool'] = lambda f, l: f.h.bool_(l.boolean())
    L['ref'] = lambda f, l: f.h.ref(l.ident(1, first=((97, 122),)))
    L['ref-dis'] = lambda f, l: f.h.ref(list(b'r1'), l.text(1))
    L['uri'] = lambda f, l: f.h.uri([l.byte([(0x21, 0x5b), (0x5d, 0x5f), (0x61, 0x7e)])])
    L['sym'] = lambda f, l: f.h.sym(l.ident(1))
    L['date'] = lambda f, l: f.h.date(2021, 3, 4)
    L['time'] = lambda f, l: f.h.time(12, 30, 45, 0)
    L['dt-utc'] = lambda f, l: f.h.dt(2021, 3, 4, 5, 6, 7, 0, 0, 'UTC')
    L['dt-zone'] = lambda f, l: f.h.dt(2021, 1, 15, 12, 0, 0, 0, -18000, 'America/New_York')
    return L


def shapes():
    S = {}
    lits = literals()
    for ln, lf in lits.items():
        S['cmp-eq-' + ln] = lambda f, l, lf=lf: [[f.cmp([name(f.ex, l, 1)], 0, lf(f, l))]]
    for op in range(6):
        S['cmp-op%d' % op] = lambda f, l, op=op: [[f.cmp([name(f.ex, l, 2)], op, f.h.num(dec_float(f.ex, l, 1, 0)))]]
    S['has1'] = lambda f, l: [[f.has([name(f.ex, l, 2)])]]
    S['has3'] = lambda f, l: [[f.has([name(f.ex, l, 3)])]]
    S['has-path2'] = lambda f, l: [[f.has([name(f.ex, l, 1), name(f.ex, l, 2)])]]
    S['has-path3'] = lambda f, l: [[f.has([name(f.ex, l, 1), name(f.ex, l, 1), name(f.ex, l, 1)])]]
    S['missing'] = lambda f, l: [[f.missing([name(f.ex, l, 2)])]]
    S['missing-path'] = lambda f, l: [[f.missing([name(f.ex, l, 1), name(f.ex, l, 1)])]]
    S['isa'] = lambda f, l: [[f.isa(l.ident(2))]]
    S['weq'] = lambda f, l: [[f.weq([name(f.ex, l, 1)], list(b'r1'))]]
    S['weq-path'] = lambda f, l: [[f.weq([name(f.ex, l, 1), name(f.ex, l, 1)], list(b'r1'))]]
    S['rel'] = lambda f, l: [[f.rel(l.ident(2))]]
    S['rel-term'] = lambda f, l: [[f.rel(list(b'inputs'), l.ident(1))]]
    S['rel-ref'] = lambda f, l: [[f.rel(list(b'inputs'), None, list(b'r1'))]]
    S['rel-term-ref'] = lambda f, l: [[f.rel(list(b'inputs'), list(b'air'), list(b'r1'))]]
    # tag names that begin with (or contain) a keyword: the lexer must take the longest identifier
    from props.zenc_common import ID_REST
    for kw in (b'and', b'or', b'not', b'true', b'false'):
        S['kw-%s-has' % kw.decode()] = lambda f, l, kw=kw: [[f.has([list(kw) + [l.byte(list(ID_REST))]])]]
        S['kw-%s-and' % kw.decode()] = lambda f, l, kw=kw: [[f.has([name(f.ex, l, 1)]), f.has([list(kw) + [l.byte(list(ID_REST))]])]]
        S['kw-%s-path' % kw.decode()] = lambda f, l, kw=kw: [[f.has([name(f.ex, l, 1), list(kw) + [l.byte(list(ID_REST))]]), f.has([name(f.ex, l, 1)])]]
    A = lambda f, l: f.has([name(f.ex, l, 1)])
    P2 = lambda f, l: f.has([name(f.ex, l, 1), name(f.ex, l, 1)])
    C = lambda f, l: f.cmp([name(f.ex, l, 1)], 0, f.h.num(1.0))
    S['and2'] = lambda f, l: [[A(f, l), A(f, l)]]
    S['or2'] = lambda f, l: [[A(f, l)], [A(f, l)]]
    S['and-or'] = lambda f, l: [[A(f, l), A(f, l)], [A(f, l)]]
    S['or-and'] = lambda f, l: [[A(f, l)], [A(f, l), A(f, l)]]
    S['path-and'] = lambda f, l: [[P2(f, l), A(f, l)]]
    S['path-or'] = lambda f, l: [[P2(f, l)], [A(f, l)]]
    S['cmp-and'] = lambda f, l: [[C(f, l), A(f, l)]]
    S['and-cmp'] = lambda f, l: [[A(f, l), C(f, l)]]
    S['not-and'] = lambda f, l: [[f.missing([name(f.ex, l, 1)]), A(f, l)]]
    S['rel-and'] = lambda f, l: [[f.rel(list(b'inputs')), A(f, l)]]
    S['rel-term-and'] = lambda f, l: [[f.rel(list(b'inputs'), list(b'air')), A(f, l)]]
    S['parens'] = lambda f, l: [[f.parens(f.or_([f.and_([A(f, l)]), f.and_([A(f, l)])])), A(f, l)]]
    S['parens-nested'] = lambda f, l: [[f.parens(f.or_([f.and_([f.parens(f.or_([f.and_([A(f, l)])]))])]))]]
    S['and-parens-or'] = lambda f, l: [[A(f, l), f.parens(f.or_([f.and_([A(f, l)]), f.and_([C(f, l)])]))]]
    # a group that begins (or ends) with another group and carries further terms
    G = lambda f, l, ands: f.parens(f.or_([f.and_(a) for a in ands]))
    S['parens-group-and'] = lambda f, l: [[G(f, l, [[G(f, l, [[A(f, l)]]), A(f, l)]])]]
    S['parens-group-or'] = lambda f, l: [[G(f, l, [[G(f, l, [[A(f, l)]])], [A(f, l)]])]]
    S['parens-and-group'] = lambda f, l: [[G(f, l, [[A(f, l), G(f, l, [[A(f, l)]])]])]]
    S['parens-group-and-or'] = lambda f, l: [[G(f, l, [[G(f, l, [[A(f, l)], [A(f, l)]]), A(f, l)]])], [A(f, l)]]
    S['parens-two-groups'] = lambda f, l: [[G(f, l, [[G(f, l, [[A(f, l)]]), G(f, l, [[A(f, l)]])]])]]
    return S


_S = {}


def templates(ctx):
    T = []
    for n in shapes():
        T.append({'name': 'p:' + n, 'shape': n, 'dir': 'print'})
        T.append({'name': 's:' + n, 'shape': n, 'dir': 'spec'})
    return T


def path(ex, t):
    if not _S: _S.update(shapes())
    f = HF(ex); l = Leaves(ex)
    ands = _S[t['shape']](f, l)
    tree = f.or_([f.and_(a) for a in ands])
    ex.side['orig'] = tree
    st = {'stage': 'print'}; ex.side['st'] = st
    if t['dir'] == 'print':
        fm = FormatterV([], {})
        b = ex.prog.find_method(tree.ty, 'Display', 'fmt')
        ex.call_body(b, [Ptr(Cell(tree)), Ptr(Cell(fm))])
        text = fm.sink
    else:
        text = FilterWriter(ex, lambda n: ex.pick(n) if n > 1 else 0).or_(tree)
    st['text'] = list(text); st['stage'] = 'parse'
    pb = ex.prog.find_method(f.T['Filter'], 'TryFrom', 'try_from')
    r = ex.call_body(pb, [str_ref(list(text))])
    st['parsed'] = r; st['stage'] = 'done'
    return st


def post(ex, t, r):
    if r.kind == 'unsupported': return {'kind': 'unsupported', 'detail': r.detail, 'where': r.where}
    st = ex.side.get('st') or {}
    s = {'kind': r.kind, 'detail': r.detail, 'where': r.where, 'stage': st.get('stage'), 'dir': t['dir'], 'shape': t['shape']}
    viol = None; cond = None
    if r.kind in ('panic', 'bound'): viol = '%s-in-%s' % (r.kind, st.get('stage'))
    elif st['parsed'].variant != 0: viol = 'text-rejected'
    else:
        eq = sym_eq(ex, ex.side['orig'], st['parsed'].fields[0].fields[0])
        if eq is False: viol = 'tree-differs'
        elif eq is not True and ex.sat(z3.Not(eq)) is not None: viol = 'tree-differs'; cond = z3.Not(eq)
    try:
        if cond is not None: ex.assume(cond)
        m = ex.model()
    except Infeasible:
        return None
    fd = FilterDump(ex, m)
    try: s['orig'] = fd.or_(ex.side['orig'])
    except Unsupported as u: return {'kind': 'unsupported', 'detail': 'concretize: %s' % u, 'where': None}
    if st.get('text') is not None: s['text'] = fd.bytes_(VecV(list(st['text']), 'vec')).hex()
    if r.kind == 'ok' and st['parsed'].variant == 0:
        try: s['parsed'] = fd.or_(st['parsed'].fields[0].fields[0])
        except Unsupported: pass
    if ex.side.get('axiomatised_floats'): s['float_axiom'] = True
    if ex.side.get('named_zone'): s['zone_axiom'] = True
    s['native_case'] = {'api': 'filter_parse', 'in': s.get('text', '')}
    s['viol'] = viol
    return s


def run(ctx):
    prog = load.program(ctx.repo, ctx.cache)
    T = templates(ctx)
    ctx.cov['bounds'] = {'names': '1-3 symbolic bytes', 'trees': '<= 3 terms, parentheses depth <= 2 (groups that begin / end with a group and carry further terms included)', 'literals': 'every kind the filter syntax admits, symbolic payload of 1-2 chars/digits',
                         'spacing': 'space, tab, LF, two spaces, CRLF or nothing between tokens (forked per gap)'}
    S = sym.explore_templates(ctx, __import__('props.C08', fromlist=['x']), T, prog, split_depth=4, budget_s=240 if ctx.quick() else 1500)
    sym.native_check(ctx, S)
    ctx.cov['path_kinds'] = dict(collections.Counter(s['kind'] for s in S))
    mism = 0; validated = 0; unsup = collections.Counter()
    for s in S:
        if s['kind'] == 'unsupported': unsup[(s.get('template', '?') + ': ' + s['detail'])[:110]] += 1; continue
        n = s.get('native') or {}
        v = s.get('viol')
        if s['kind'] == 'panic': okn = 'panic' in n
        elif s['kind'] == 'bound': okn = 'hang' in n
        elif v == 'text-rejected': okn = 'err' in n
        else:
            okn = 'ok' in n
            if okn and 'parsed' in s:
                nv, sv = norm_native(n['ok']), s['parsed']
                if s.get('zone_axiom'): nv, sv = strip_dt(nv), strip_dt(sv)
                if s.get('float_axiom'): nv, sv = strip_bits(nv), strip_bits(sv)
                okn = nv == sv
        if not okn:
            mism += 1
            if mism <= int(os.environ.get('VERIF_SHOW', '5')): print('MODEL-MISMATCH template=%s text=%r: mirsym %s/%s native %s' % (s['template'], bytes.fromhex(s.get('text') or ''), s['kind'], v, str(n)[:240]))
            continue
        validated += 1
        if not v: continue
        if v == 'tree-differs':
            nv, ov = norm_native(n['ok']), s['orig']
            if s.get('zone_axiom'): nv, ov = strip_dt(nv), strip_dt(ov)
            if nv == ov: continue
        ctx.report('filter.%s:%s:%s' % ('print-parse' if s['dir'] == 'print' else 'grammar', s['shape'], v),
                   '%s: tree %s, text %r, native %s' % (v, json.dumps(s['orig'])[:240], bytes.fromhex(s.get('text') or ''), str(n)[:200]), case=s['native_case'])
    ctx.cov['traces_validated_against_impl'] += validated
    for s in S[:8]: ctx.add_sample({'template': s.get('template'), 'tree': s.get('orig'), 'text': s.get('text'), 'violation': s.get('viol')})
    ctx.cov['unsupported_paths'] = dict(unsup)
    if mism: ctx.note_inconclusive('%d paths where the native build disagrees with the encoding (model mismatch)' % mism)
    if unsup: ctx.note_inconclusive('%d paths ended in an unmodelled construct: %s' % (sum(unsup.values()), list(unsup)[:3]))
    ctx.obligation('print-parse identity + grammar conformance', 'held' if not ctx.violations else 'violated', paths=len(S))


def replay(ctx, path):
    case = json.load(open(path))['case']
    r = native.run_cases(native.build(), [case])[0]
    print(json.dumps(r)[:600])
    return 1
