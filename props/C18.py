"""C18 The C API is memory-safe under its ownership protocol and tolerates null: the exploration of C17 judged by the heap
model (allocation records, drop tracking, borrowed-pointer provenance), the null-argument rule and 'no panic inside the C
boundary'.  See props/C17.py and props/capi_common.py."""
from props import C17


def run(ctx): return C17.run(ctx, 'C18')


def path(ex, t): return C17.path(ex, t)
def post(ex, t, r): return C17.post(ex, t, r)
def replay(ctx, path): return C17.replay(ctx, path)
