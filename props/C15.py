"""C15 Every database unit is found by each of its names and survives both codecs (engine T: table obligations).
The generated unit table is read from /repo's source on every run into SMT arrays; the lexer predicates that decide whether
a unit text survives the Zinc reader (unit character class, exponent look-ahead, decimal class) are extracted as formulas by
executing the reader's MIR on symbolic bytes; z3 decides every obligation over a SYMBOLIC table index; cvc5 cross-checks in the
thorough tier; every counterexample is replayed natively."""
import collections, json, os, re, subprocess, time
import z3
from mirsym import load, zinc
from mirsym.values import *
from mirsym.models import deref
from vlib import sym, native


def parse_table(repo):
    src = open(os.path.join(repo, 'src/haystack/units/units_generated.rs'), encoding='utf-8').read()
    units = collections.OrderedDict()
    for m in re.finditer(r'pub static ref (\w+): Unit = Unit \{(.*?)\n    \};', src, re.S):
        body = m.group(2)
        ids = re.findall(r'"((?:[^"\\]|\\.)*)"\.to_string\(\)', body[body.index('ids:'):body.index('dimensions')])
        units[m.group(1)] = [unescape(x) for x in ids]
    tab = src[src.index('pub static ref UNITS'):]
    entries = [(unescape(a), b) for a, b in re.findall(r'\(\s*"((?:[^"\\]|\\.)*)",\s*&\*(\w+)\s*\)', tab)]
    return units, entries


def unescape(s):
    return re.sub(r'\\u\{([0-9a-fA-F]+)\}', lambda m: chr(int(m.group(1), 16)), s).replace('\\"', '"').replace('\\\\', '\\')


# ---- predicates of the Zinc number reader, extracted from MIR as formulas over symbolic bytes
def extract_predicates(prog):
    """-> (U(b): unit char, D(b): taken as part of the decimal, E(b0,b1): 'e/E + look-ahead' starts an exponent)"""
    b0 = z3.BitVec('p0', 8); b1 = z3.BitVec('p1', 8)
    called = {}

    def run(ex, data, watch):
        called.clear()
        return zinc.parse_value(ex, data)[0]

    def formula(data, judge):
        ex = sym.make_exec(prog)
        conds = []
        def post(e, r):
            if r.kind == 'unsupported': raise Unsupported('predicate extraction: ' + str(r.detail))
            v = judge(e, r)
            if v: conds.append(z3.And(e.pc) if e.pc else z3.BoolVal(True))
            return None
        ex.explore(lambda e: zinc.parse_value(e, data)[0], post=post)
        return z3.simplify(z3.Or(conds)) if conds else z3.BoolVal(False), ex.stats

    def unit_of(e, r):
        if r.kind != 'ok' or r.value.variant != 0: return None
        v = r.value.fields[0]
        if e.prog.variants(v.ty)[v.variant][0] != 'Number': return None
        return deref(e, v.fields[0])

    # U(b): "1" b "m"-> the unit text starts with b ... simpler: text "1"+b : accepted as number whose unit lookup is attempted
    # we characterise through errors: 'Unit not found' (unit path) vs other outcomes
    def took_unit(e, r):
        # the reader entered parse_unit on this path iff get_unit was consulted
        return 'HashMap::get' in e.stats['models'] and e.side.get('units_get')
    # instrument: mark when the UNITS map is consulted on the path
    from mirsym import models_coll
    return b0, b1


def body_called_formula(prog, data, body_suffix):
    """Or of the path conditions of all paths of parse_value(data) on which a body whose name ends with body_suffix ran"""
    ex = sym.make_exec(prog)
    conds = []; total = [0]
    orig_call = ex.call_body
    hit = [False]
    def call_body(body, args):
        if body.name.endswith(body_suffix): hit[0] = True
        return orig_call(body, args)
    ex.call_body = call_body
    def fn(e):
        hit[0] = False
        return zinc.parse_value(e, data)[0]
    def post(e, r):
        total[0] += 1
        if r.kind == 'unsupported': raise Unsupported('predicate extraction: %s' % r.detail)
        if hit[0]: conds.append(z3.And(list(e.pc)) if e.pc else z3.BoolVal(True))
        return None
    ex.explore(fn, post=post)
    return (z3.simplify(z3.Or(conds)) if conds else z3.BoolVal(False)), total[0], ex.stats


def consumed_by_decimal(prog, b):
    """D(b): parse_decimal over '1' b keeps b in the digits (the unit would be glued to the number)"""
    ex = sym.make_exec(prog)
    conds = []
    pd = prog.find_fn(['scalar', 'number', 'parse_decimal'])
    from mirsym.models_fmt import Cursor
    def fn(e):
        rd = Cursor([49, b, 32])
        mk = zinc.find_impl_method(prog, 'zinc/decode/scanner.rs', 'make')
        sc = e.call_body(mk, [Ptr(Cell(rd))])
        cell = Cell(sc.fields[0])
        r = e.call_body(pd, [Ptr(cell)])
        return rd.pos
    def post(e, r):
        if r.kind == 'unsupported': raise Unsupported('predicate extraction: %s' % r.detail)
        # the scanner holds one byte of look-ahead: pos 3 means '1', b and the following byte were pulled => b was consumed
        if r.kind == 'ok' and r.value >= 3: conds.append(z3.And(list(e.pc)) if e.pc else z3.BoolVal(True))
        if r.kind != 'ok': conds.append(z3.And(list(e.pc)) if e.pc else z3.BoolVal(True))      # an error on "1b" also loses the unit
        return None
    ex.explore(fn, post=post)
    return z3.simplify(z3.Or(conds)) if conds else z3.BoolVal(False)


def unit_char_formula(prog, b):
    ex = sym.make_exec(prog)
    conds = []
    f = prog.find_fn(['scalar', 'number', 'is_unit_char'])
    from mirsym.models_fmt import Cursor
    def fn(e):
        rd = Cursor([b, 32])
        mk = zinc.find_impl_method(prog, 'zinc/decode/scanner.rs', 'make')
        sc = e.call_body(mk, [Ptr(Cell(rd))])
        r = e.call_body(f, [Ptr(Cell(sc.fields[0]))])
        return r if isinstance(r, bool) else e.branch(r)
    def post(e, r):
        if r.kind != 'ok': raise Unsupported('predicate extraction: %s %s' % (r.kind, r.detail))
        if r.value: conds.append(z3.And(list(e.pc)) if e.pc else z3.BoolVal(True))
        return None
    ex.explore(fn, post=post)
    return z3.simplify(z3.Or(conds)) if conds else z3.BoolVal(False)


def run(ctx):
    t0 = time.time()
    prog = load.program(ctx.repo, ctx.cache)
    units, entries = parse_table(ctx.repo)
    names = list(units)
    uidx = {n: i for i, n in enumerate(names)}
    ctx.cov['table'] = {'units': len(units), 'table_entries': len(entries), 'identifiers': sum(len(v) for v in units.values())}
    if len(units) < 100 or len(entries) < 100: raise RuntimeError('unit table not parsed')
    # string interning: every identifier text gets a code
    code = {}
    def C(s): return code.setdefault(s, len(code))
    key_code = [C(k) for k, _ in entries]; key_owner = [uidx.get(o, -1) for _, o in entries]
    # ---- SMT encoding: constant arrays over bit-vector indices (Store chains), symbolic indices in the queries
    N = len(entries)
    if N >= 1024 or len(code) >= 65536: raise RuntimeError('table larger than the index widths of the encoding')
    B10, B16, B8, B6 = z3.BitVecSort(10), z3.BitVecSort(16), z3.BitVecSort(8), z3.BitVecSort(6)
    def tbl(pairs, default, vbits):
        """a constant table as a balanced if-then-else tree over the (bit-vector) index: SAT-friendly, unlike long Store chains"""
        pairs = sorted((int(a), int(b)) for a, b in pairs)
        def at(idx):
            ib = idx.size()
            def build(lo, hi):
                if hi - lo == 0: return z3.BitVecVal(default, vbits)
                if hi - lo == 1:
                    k_, v_ = pairs[lo]
                    return z3.If(idx == z3.BitVecVal(k_, ib), z3.BitVecVal(v_, vbits), z3.BitVecVal(default, vbits))
                mid = (lo + hi) // 2
                return z3.If(z3.ULT(idx, z3.BitVecVal(pairs[mid][0], ib)), build(lo, mid), build(mid, hi))
            return build(0, len(pairs))
        return at
    NONE = 1023
    KC = tbl(enumerate(key_code), 65535, 16); KO = tbl([(j_, o if o >= 0 else NONE) for j_, o in enumerate(key_owner)], NONE, 10)
    sol = z3.Solver()
    queries = []; t_sol = 0.0; asked = []
    def decide(name, extra, witness):
        nonlocal t_sol
        sol.push(); sol.add(extra)
        t = time.time(); r = sol.check(); t_sol += time.time() - t
        m = sol.model() if r == z3.sat else None
        sol.pop()
        queries.append({'obligation': name, 'result': str(r), 'solver_s': round(time.time() - t, 2)})
        asked.append((name, extra, str(r)))
        if r == z3.unknown: ctx.note_inconclusive('solver unknown on ' + name)
        return witness(m) if m is not None else None
    findings = []
    L = lambda m, v: m.eval(v, model_completion=True).as_long()
    # (2) every identifier of every unit is a key that maps to that unit
    ids_flat = [(uidx[u], C(s_), s_) for u in names for s_ in units[u]]
    if len(ids_flat) >= 1024: raise RuntimeError('more identifiers than the index width')
    UO = tbl([(k_, x[0]) for k_, x in enumerate(ids_flat)], NONE, 10); UC = tbl([(k_, x[1]) for k_, x in enumerate(ids_flat)], 65535, 16)
    last = {}
    for jx, (c, o) in enumerate(zip(key_code, key_owner)): last[c] = o
    LK = tbl([(c, last[c] if last[c] >= 0 else NONE) for c in last], NONE, 10)
    # (1) no identifier is shared by two different units: every table entry agrees with what the lookup returns for its key
    i = z3.BitVec('i', 10)
    w = decide('shared-identifier', z3.And(z3.ULT(i, N), LK(KC(i)) != KO(i)), lambda m: ('shared', entries[L(m, i)][0], entries[L(m, i)]))
    if w: findings.append(w)
    k = z3.BitVec('k', 10)
    w = decide('identifier-finds-its-unit', z3.And(z3.ULT(k, len(ids_flat)), LK(UC(k)) != UO(k)), lambda m: ('lookup', ids_flat[L(m, k)][2], names[ids_flat[L(m, k)][0]]))
    if w: findings.append(w)
    # (2b) every key is a declared identifier of the unit it maps to
    idset = {(u, c) for u, c, _ in ids_flat}
    LEG = tbl([(jx, 1 if (o, c) in idset else 0) for jx, (c, o) in enumerate(zip(key_code, key_owner))], 1, 1)
    w = decide('key-is-a-declared-identifier', z3.And(z3.ULT(i, N), LEG(i) == 0), lambda m: ('stray-key', entries[L(m, i)][0]))
    if w: findings.append(w)
    # (3) the text survives the Zinc number reader: predicates extracted from the reader's MIR
    b0 = z3.BitVec('p0', 8); b1 = z3.BitVec('p1', 8)
    U = unit_char_formula(prog, b0)
    D = consumed_by_decimal(prog, b0)
    E, npaths, st = body_called_formula(prog, [49, b0, b1, 32], 'parse_exponent')
    ctx.cov['predicates'] = {'unit_char': str(U)[:300], 'decimal_class': str(D)[:300], 'exponent_lookahead': str(E)[:400]}
    ctx.cov['states'] += npaths; ctx.cov['queries'] += st['checks']; ctx.add_functions(st['bodies']); ctx.add_models(st['models'])
    syms = [(uidx[u], units[u][-1]) for u in names if units[u]]
    if max(len(x[2].encode('utf-8')) for x in ids_flat) >= 63: raise RuntimeError('identifier longer than the index width')
    def byte_table(texts):
        pairs = []; lens = []
        for t_, s_ in texts:
            bs = s_.encode('utf-8'); lens.append((t_, len(bs)))
            for p__, byte in enumerate(bs): pairs.append(((t_ << 6) | p__, byte))
        return tbl(pairs, 32, 8), tbl(lens, 0, 6)
    u_ = z3.BitVec('u', 10); p_ = z3.BitVec('p', 6)
    for label, texts, count, namer in (('symbol', syms, len(names), lambda t_: units[names[t_]][-1]), ('identifier', [(kx, x[2]) for kx, x in enumerate(ids_flat)], len(ids_flat), lambda t_: ids_flat[t_][2])):
        TB, TL = byte_table(texts)
        at = lambda pos: TB(z3.Concat(u_, pos))
        inr = z3.And(z3.ULT(u_, count), z3.ULT(p_, TL(u_)))
        w = decide('%s-bytes-are-unit-chars' % label, z3.And(inr, z3.Not(z3.substitute(U, (b0, at(p_))))), lambda m: ('not-unit-char', namer(L(m, u_)), L(m, p_)))
        if w: findings.append(w)
        w = decide('%s-not-glued-to-digits' % label, z3.And(z3.ULT(u_, count), z3.UGE(TL(u_), 1), z3.substitute(D, (b0, at(z3.BitVecVal(0, 6))))), lambda m: ('glued', namer(L(m, u_))))
        if w: findings.append(w)
        w = decide('%s-not-read-as-exponent' % label, z3.And(z3.ULT(u_, count), z3.UGE(TL(u_), 1), z3.substitute(E, (b0, at(z3.BitVecVal(0, 6))), (b1, at(z3.BitVecVal(1, 6))))), lambda m: ('exponent', namer(L(m, u_))))
        if w: findings.append(w)
    # (4) what the encoders write: Unit::symbol() is the last and Unit::name() the first identifier, for units with 1, 2 or 3
    #     identifiers (symbolic text) - from the MIR of the accessors
    acc_bad = unit_accessor_obligation(ctx, prog)
    for w in acc_bad: findings.append(w)
    # (5) the unit survives the Zinc and Hayson codecs at magnitudes where a writer might change notation: the real encoders
    #     and decoders from MIR on Number{magnitude, unit} for a handful of units (seed-rotated) x six magnitudes
    for w in codec_survival_obligation(ctx, prog, names, units): findings.append(w)
    # (6) the lookup function itself (not only the table): get_unit from MIR on every identifier of every unit returns that unit
    for w in lookup_function_obligation(ctx, prog, names, units): findings.append(w)
    single = [u for u in names if len(units[u]) == 1]
    ctx.cov['single_identifier_units'] = len(single)
    ctx.cov['queries'] += len(queries); ctx.cov['solver_s'] = round(t_sol, 2)
    ctx.cov['obligation_results'] = queries
    ctx.cov['states'] += len(queries)
    # ---- native replay of every counterexample (and of one witness unit per obligation for validation)
    cases = []; acc_findings = []
    for f in findings:
        if f[0] == 'accessor':
            # replayed natively on every single-identifier unit below (the sample)
            acc_findings.append(f); continue
        ident = {'shared': lambda: f[1][0], 'lookup': lambda: f[1], 'stray-key': lambda: f[1][0], 'not-unit-char': lambda: f[1], 'glued': lambda: f[1], 'exponent': lambda: f[1]}[f[0]]()
        cases.append((f, {'api': 'unit_survives', 'id': ident.encode('utf-8').hex()}))
    sample = [{'api': 'unit_survives', 'id': units[names[(ctx.seed * 37 + q * 53) % len(names)]][-1].encode('utf-8').hex()} for q in range(8)]
    sample += [{'api': 'unit_survives', 'id': units[u][-1].encode('utf-8').hex()} for u in single]
    res = native.run_cases(native.build(), [c for _, c in cases] + sample)
    for (f, c), r in zip(cases, res):
        o = r.get('ok') or {}
        broken = o.get('lookup') is None or not o.get('zinc_same') or not o.get('json_same') or not o.get('zinc_by_id_same') or f[0] in ('shared', 'stray-key')
        if f[0] == 'lookup': broken = o.get('lookup') != units[f[2]][0]
        if not broken:
            ctx.note_inconclusive('counterexample %s does not reproduce natively: %s' % (str(f), str(r)[:200])); continue
        ctx.cov['traces_validated_against_impl'] += 1
        ctx.report('units.table:%s:%s' % (f[0], f[1]), '%s: %s; native: %s' % (f[0], f[1:], str(r)[:300]), case=c)
    sample_bad = []
    for r in res[len(cases):]:
        o = r.get('ok') or {}
        if o.get('lookup') is not None and o.get('zinc_same') and o.get('json_same') and o.get('zinc_by_id_same'): ctx.cov['traces_validated_against_impl'] += 1
        else: sample_bad.append(r)
    if acc_findings:
        if sample_bad:
            ctx.report('units.accessor:%s' % acc_findings[0][1].split('(')[0], '%s; native: %s' % ('; '.join(f[1] for f in acc_findings), str(sample_bad[0])[:300]), case=None)
        else: ctx.note_inconclusive('accessor counterexample does not reproduce natively: %s' % acc_findings[0][1])
    elif sample_bad:
        ctx.note_inconclusive('all obligations hold but a sampled unit fails natively: %s' % str(sample_bad[0])[:300])
    for q in queries[:12]: ctx.add_sample(q)
    ctx.cov['transitions'] += len(entries)
    ctx.assume('a string that is no identifier is absent from the table by construction of HashMap::get (stated, not proved)')
    ctx.assume('Number magnitude text is C01/C04 business; here: which identifier text is re-read as which unit')
    ctx.obligation('unit-table-obligations', 'held' if not ctx.violations else 'violated', obligations=len(queries))
    if not ctx.quick():
        cross_check_cvc5(ctx, asked)


MAGNITUDES = [1.5, 1e7, 2.5e10, 5e-4, -3.0, 0.0]


def codec_survival_obligation(ctx, prog, names, units):
    from vlib import sym as vsym
    from mirsym.hv import HV, sym_eq
    from mirsym import zinc as mzinc
    from props import zenc_common as zc, hayson_common as hc
    byname = {units[u][0]: u for u in names if units[u]}
    pick = [byname[n] for n in ('percent', 'kilowatt_hour', 'meter', 'us_dollar', 'fahrenheit') if n in byname] + [names[(ctx.seed * 31 + 7 * q) % len(names)] for q in range(3)]
    pick = [units[u][0] for u in dict.fromkeys(pick) if units.get(u)]
    bad = []; cases = []
    for u in pick:
        for mag in MAGNITUDES:
            for codec in ('zinc', 'hayson'):
                ex = vsym.make_exec(prog)
                def fn(e, u=u, mag=mag, codec=codec):
                    h = HV(e); v = h.num(mag, u)
                    if codec == 'zinc':
                        r, sink = zc.encode(e, v)
                        if r.variant != 0: return ('enc-err', None)
                        d, _ = mzinc.parse_value(e, list(sink.items))
                    else:
                        k, tree = hc.encode(e, v)
                        if k != 'ok': return ('enc-err', None)
                        d = hc.decode(e, tree, h.ty('Value'))
                    if d.variant != 0: return ('dec-err', None)
                    eq = sym_eq(e, v, d.fields[0])
                    return ('same' if eq is True else 'differs', None)
                def post(e, r): return r.value[0] if r.kind == 'ok' else r.kind + ':' + str(r.detail)[:60]
                res, left = ex.explore(fn, post=post)
                ctx.cov['states'] += len(res); ctx.cov['queries'] += ex.stats['checks']; ctx.add_functions(ex.stats['bodies'])
                for r in res:
                    if r == 'same': continue
                    if r.startswith('unsupported'): ctx.note_inconclusive('codec survival %s %s %s: %s' % (u, mag, codec, r)); continue
                    bad.append(('codec', u, mag, codec, r))
    out = []
    if bad:
        # replay natively
        import struct
        f2b = lambda x: '%016x' % struct.unpack('<Q', struct.pack('<d', x))[0]
        res = native.run_cases(native.build(), [{'api': 'zinc_roundtrip' if b[3] == 'zinc' else 'json_roundtrip', 'v': {'t': 'num', 'bits': f2b(b[2]), 'unit': b[1].encode().hex()}} for b in bad])
        for b, r in zip(bad, res):
            if r.get('same') is True: ctx.note_inconclusive('codec survival counterexample does not reproduce natively: %s' % (b,)); continue
            ctx.cov['traces_validated_against_impl'] += 1
            ctx.report('units.codec:%s:%s' % (b[3], b[4]), 'Number %r with unit %s does not survive the %s codec (%s); native: %s' % (b[2], b[1], b[3], b[4], str(r)[:200]),
                       case={'api': 'zinc_roundtrip' if b[3] == 'zinc' else 'json_roundtrip', 'v': {'t': 'num', 'bits': f2b(b[2]), 'unit': b[1].encode().hex()}})
    return out


def lookup_function_obligation(ctx, prog, names, units):
    from vlib import sym as vsym
    from mirsym.models import str_ref, items_of
    from mirsym.values import Ptr
    f = prog.find_fn(['units', 'get_unit'])
    if f is None: ctx.note_inconclusive('get_unit not found in the MIR'); return []
    ex = vsym.make_exec(prog); bad = []
    todo = [(u, ident) for u in names for ident in units[u]]
    for u, ident in todo:
        res = []
        def fn(e, ident=ident):
            r = e.call_body(f, [str_ref(list(ident.encode('utf-8')))])
            if r.variant == 0: return None
            p = r.fields[0]
            while isinstance(p, Ptr): p = e.load(p)
            ids = p.fields[1]
            while isinstance(ids, Ptr): ids = e.load(ids)
            return bytes(ids.items[0].items).decode('utf-8')
        out, left = ex.explore(fn, post=lambda e, r: (r.kind, r.value if r.kind == 'ok' else r.detail))
        ctx.cov['states'] += len(out)
        for kind, val in out:
            if kind != 'ok': ctx.note_inconclusive('get_unit(%r): %s %s' % (ident, kind, val)); break
            if val != units[u][0]: bad.append(('lookup', ident, u)); break
    ctx.cov['queries'] += ex.stats['checks']; ctx.add_functions(ex.stats['bodies'])
    ctx.cov['identifiers_looked_up_from_mir'] = len(todo)
    return bad


def unit_accessor_obligation(ctx, prog):
    from vlib import sym as vsym
    from mirsym.values import Agg, VecV, Ptr, Cell, Unsupported
    from mirsym.models import none, string_of, items_of
    from props.zenc_common import Leaves
    ut = [td.full for td in prog.src.types.get('Unit', [])]
    ut = [t for t in ut if t.endswith('units::unit::Unit')][0]
    bad = []
    for method, pick in (('symbol', -1), ('name', 0)):
        body = prog.find_method(ut, None, method)
        if body is None: ctx.note_inconclusive('Unit::%s not found in the MIR' % method); continue
        for k in (1, 2, 3):
            ex = vsym.make_exec(prog)
            def fn(e, k=k, body=body):
                l = Leaves(e)
                ids = [string_of([l.byte([(0x21, 0x7e)])]) for _ in range(k)]
                u = Agg(ut, 0, [none(), VecV(ids, 'vec'), none(), 1.0, 0.0])
                r = e.call_body(body, [Ptr(Cell(u))])
                return list(items_of(e, r)), list(ids[pick].items)
            def post(e, r):
                if r.kind != 'ok': return ('unsupported', r.kind, r.detail)
                got, want = r.value
                if len(got) != len(want): return ('differs', k)
                for a_, b_ in zip(got, want):
                    if e.sat(a_ != b_) is not None: return ('differs', k)
                return ('same', k)
            res, left = ex.explore(fn, post=post)
            ctx.cov['states'] += len(res); ctx.cov['queries'] += ex.stats['checks']; ctx.add_functions(ex.stats['bodies'])
            for r in res:
                if r[0] == 'unsupported': ctx.note_inconclusive('Unit::%s: %s %s' % (method, r[1], r[2]))
                elif r[0] == 'differs': bad.append(('accessor', 'Unit::%s() of a unit with %d identifier(s) is not its %s identifier' % (method, k, 'last' if pick == -1 else 'first')))
    return bad


def cross_check_cvc5(ctx, asked):
    """second solver on the very same obligations: z3's formula exported as SMT-LIB2 and decided by cvc5.  A differing verdict
    is inconclusive; a cvc5 timeout is recorded (the deciding verdict is z3's, the cross-check is then simply missing)"""
    out = {}
    for name, extra, zres in asked:
        s_ = z3.Solver(); s_.add(extra)
        text = '(set-logic QF_BV)\n' + s_.to_smt2()
        out[name] = {}
        for solver, cmd, lim in (('cvc5', ['cvc5', '--lang', 'smt2'], 45), ('z3-5.1', ['z3-new', '-in'], 120)):
            try:
                p = subprocess.run(cmd, input=text.encode(), stdout=subprocess.PIPE, stderr=subprocess.STDOUT, timeout=lim)
                res = p.stdout.decode().strip().split('\n')[0][:40]
            except (subprocess.TimeoutExpired, OSError) as e:
                res = 'timeout' if isinstance(e, subprocess.TimeoutExpired) else 'unavailable'
            out[name][solver] = res
            if res.startswith('(error'): ctx.note_inconclusive('%s error on %s: %s' % (solver, name, res))
            elif res in ('sat', 'unsat') and res != zres: ctx.note_inconclusive('solvers disagree on %s: z3 %s, %s %s' % (name, zres, solver, res))
    ctx.cov['cvc5_cross_check'] = out


def replay(ctx, path):
    case = json.load(open(path))['case']
    r = native.run_cases(native.build(), [case])[0]
    print(json.dumps(r)[:600])
    return 1
