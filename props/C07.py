"""C07 Filter evaluation follows the Haystack filter semantics (engine M vs /verif/spec/filter_eval.py).
Filter trees with symbolic literal payloads are evaluated by the crate's Eval impls (MIR) on records with symbolic tag values,
and by the reference semantics; z3 forks decide every comparison; any feasible disagreement is a violation."""
import collections, json, os
import z3
from mirsym import load
from mirsym.values import *
from mirsym.hf import HF
from mirsym.engine import HostObj, F64
from mirsym.models import some, none, deref, clone_value
from mirsym.vj import Concretizer
from mirsym.fj import FilterDump
from vlib import sym, native
from props.zenc_common import Leaves
from props import C12
from spec.filter_eval import Sem
from spec.filter import FilterWriter

UNITS = [None, 'meter', 'second']
QUICK = [True]


def fnn(ex, l):
    f = l.f64(); ex.assume(z3.Not(z3.fpIsNaN(f))); return f


def tag_value(f, l, allow_nested=True, small=False):
    """one tag: absent / Null / Marker / Bool / Number(unit) / Str / Ref / List of 2 numbers / nested Dict"""
    h = f.h; ex = f.ex
    if small:
        k = ex.pick(4)
        return [None, h.null(), h.marker(), None][k] if k < 3 else h.num(fnn(ex, l))
    k = ex.pick(9 if allow_nested else 7)
    if k == 0: return None
    if k == 1: return h.null()
    if k == 2: return h.marker()
    if k == 3: return h.bool_(l.boolean())
    if k == 4: return h.num(fnn(ex, l), UNITS[ex.pick(3)])
    if k == 5: return h.str_([l.byte([(0x61, 0x7a)])])
    if k == 6: return h.ref([l.byte([(0x61, 0x63)])])
    if k == 7: return h.list_([h.num(fnn(ex, l)), h.num(fnn(ex, l), UNITS[ex.pick(2)])])
    return h.dict_([(b'b', h.num(fnn(ex, l)))])


def literal(f, l):
    h = f.h; ex = f.ex
    k = ex.pick(5)
    if k == 0: return h.num(fnn(ex, l), UNITS[ex.pick(3)])
    if k == 1: return h.str_([l.byte([(0x61, 0x7a)])])
    if k == 2: return h.bool_(l.boolean())
    if k == 3: return h.ref([l.byte([(0x61, 0x63)])])
    return h.date(2021, 3, 4)


def shapes():
    S = {}
    for op in range(6):
        S['cmp%d' % op] = lambda f, l, op=op: [[f.cmp([list(b'a')], op, literal(f, l))]]
        S['cmp%d-path' % op] = lambda f, l, op=op: [[f.cmp([list(b'a'), list(b'b')], op, f.h.num(fnn(f.ex, l)))]]
    S['has'] = lambda f, l: [[f.has([list(b'a')])]]
    S['has-path'] = lambda f, l: [[f.has([list(b'a'), list(b'b')])]]
    S['missing'] = lambda f, l: [[f.missing([list(b'a')])]]
    S['missing-path'] = lambda f, l: [[f.missing([list(b'a'), list(b'b')])]]
    N = lambda f, l, t, op: f.cmp([list(t)], op, f.h.num(fnn(f.ex, l)))
    P = lambda n: [list(x) for x in (b'a', b'b', b'c', b'd')[:n]]
    S['deep-has3'] = lambda f, l: [[f.has(P(3))]]
    S['deep-missing3'] = lambda f, l: [[f.missing(P(3))]]
    S['deep-cmp3'] = lambda f, l: [[f.cmp(P(3), f.ex.pick(6), f.h.num(fnn(f.ex, l)))]]
    S['deep-has4'] = lambda f, l: [[f.has(P(4))]]
    S['deep-cmp4'] = lambda f, l: [[f.cmp(P(4), [0, 2, 5][f.ex.pick(3)], f.h.num(fnn(f.ex, l)))]]
    S['and'] = lambda f, l: [[f.has([list(b'a')]), N(f, l, b'b', 2)]]
    S['or'] = lambda f, l: [[f.missing([list(b'a')])], [N(f, l, b'b', 0)]]
    S['and-or'] = lambda f, l: [[f.has([list(b'a')]), f.has([list(b'b')])], [N(f, l, b'a', 4)]]
    S['or-and'] = lambda f, l: [[f.has([list(b'a')])], [f.has([list(b'b')]), N(f, l, b'b', 1)]]
    S['parens'] = lambda f, l: [[f.parens(f.or_([f.and_([f.has([list(b'a')])]), f.and_([f.has([list(b'b')])])])), N(f, l, b'a', 5)]]
    return S


_S = {}


def templates(ctx):
    T = [{'name': n, 'mode': 'dict', 'shape': n} for n in shapes()]
    # paths of 3 and 4 segments through nested dicts (each level absent / not a dict / Null / a dict)
    for n in ('deep-has3', 'deep-missing3', 'deep-cmp3', 'deep-has4', 'deep-cmp4'): T.append({'name': n, 'mode': 'deep', 'shape': n})
    T.append({'name': 'grid', 'mode': 'grid', 'shape': 'cmp4'})
    T.append({'name': 'grid-has', 'mode': 'grid', 'shape': 'has'})
    T += wildcard_templates()
    return T


def wildcard_templates():
    return [{'name': 'weq', 'mode': 'weq'}, {'name': 'weq-refpath', 'mode': 'weq', 'via': True}, {'name': 'weq-self', 'mode': 'weq', 'self': True}]


class Graph(HostObj):
    """caller-supplied PathResolver: paths are resolved on the given record by the crate's own Dict resolver, refs through a graph"""
    host_type = 'GraphResolver'

    def __init__(s, ex, recs): s.ex = ex; s.recs = recs

    def call(s, ex, site, argv):
        if site.method == 'resolve_for':
            d = deref(ex, argv[1])
            b = ex.prog.find_method(d.ty, 'PathResolver', 'resolve_for')
            return ex.call_body(b, [argv[1], argv[1], argv[2]])
        if site.method == 'resolve_ref':
            rid = bytes(deref(ex, argv[1]).fields[0].items)
            d = s.recs.get(rid)
            return none() if d is None else some(clone_value(ex, d))
        raise Unsupported('GraphResolver::' + site.method)


def eval_ctx(ex, f, rec, resolver):
    ct = [td.full for td in ex.prog.src.types.get('EvalContext', [])][0]
    return Agg(ct, 0, [Ptr(Cell(rec)), Ptr(Cell(Opaque('namespace'))), Ptr(Cell(resolver))])


def path(ex, t):
    if not _S: _S.update(shapes())
    f = HF(ex); l = Leaves(ex); h = f.h
    st = {}; ex.side['st'] = st
    prog = ex.prog
    if t['mode'] == 'weq':
        # three records r0..r2, each with tag x pointing to one of them or to nothing; symbolic target; cycles included
        recs = {}
        for i in range(3):
            k = ex.pick(5)
            pairs = [(b'id', h.ref(list(b'r%d' % i)))]
            if k < 3: pairs.append((b'x', h.ref(list(b'r%d' % k))))
            elif k == 3: pairs.append((b'x', h.ref(list(b'zz'))))
            recs[b'r%d' % i] = h.dict_payload(pairs)
        start = h.dict_payload([(b'x', h.ref(list(b'r%d' % ex.pick(3))))] if not t.get('via') else [(b'x', h.ref(list(b'r0'))), (b'y', h.marker())])
        if t.get('self'): start = recs[b'r0']      # the evaluated record is itself a node of the graph (it carries its own id)
        target = [b'r0', b'r1', b'r2', b'zz', b'q'][ex.pick(5)]
        tree = f.or_([f.and_([f.weq([list(b'x')], list(target))])])
        g = Graph(ex, recs)
        st.update(tree=tree, rec=start, graph=recs)
        ctxv = eval_ctx(ex, f, start, g)
        b = prog.find_method(tree.ty, 'Eval', 'eval')
        st['impl'] = C12.B(ex, ex.call_body(b, [Ptr(Cell(tree)), Ptr(Cell(ctxv))]))
        st['spec'] = Sem(ex, recs).or_(tree, start)
        return st
    ands = _S[t['shape']](f, l)
    tree = f.or_([f.and_(a) for a in ands]); flt = f.filter(tree)
    st['tree'] = tree
    if t['mode'] == 'deep':
        depth = 3 if t['shape'].endswith('3') else 4
        names = (b'a', b'b', b'c', b'd')
        def level(i):
            # the value of tag names[i]
            if i == depth - 1:
                k = ex.pick(5)
                return [None, h.null(), h.marker(), None, None][k] if k < 3 else (h.num(fnn(ex, l)) if k == 3 else h.str_([l.byte([(0x61, 0x7a)])]))
            k = ex.pick(5)
            if k == 0: return None
            if k == 1: return h.null()
            if k == 2: return h.marker()
            if k == 3: return h.list_([h.num(1.0)])
            inner = level(i + 1)
            return h.dict_([(names[i + 1], inner)] if inner is not None else [])
        top = level(0)
        rec = h.dict_payload([(b'a', top)] if top is not None else []); st['rec'] = rec
        b = prog.find_method(rec.ty, 'Filtered', 'filter')
        st['impl'] = C12.B(ex, ex.call_body(b, [Ptr(Cell(rec)), Ptr(Cell(flt))]))
        st['spec'] = Sem(ex).or_(tree, rec)
        return st
    if t['mode'] == 'dict':
        pairs = []
        uses_b = t['shape'] in ('and', 'or', 'and-or', 'or-and', 'parens')
        for k in (b'a', b'b'):
            if k == b'b' and not uses_b:
                v = h.marker() if ex.pick(2) else None      # the filter does not mention b: present or absent only
            else:
                v = tag_value(f, l, small=uses_b and QUICK[0])
            if v is not None: pairs.append((k, v))
        rec = h.dict_payload(pairs); st['rec'] = rec
        b = prog.find_method(rec.ty, 'Filtered', 'filter')
        st['impl'] = C12.B(ex, ex.call_body(b, [Ptr(Cell(rec)), Ptr(Cell(flt))]))
        st['spec'] = Sem(ex).or_(tree, rec)
        return st
    # grid: two rows
    rows = []
    for i in range(2):
        pairs = []
        for k in (b'a', b'b'):
            v = tag_value(f, l, allow_nested=False, small=(k == b'b' or QUICK[0]))
            if v is not None: pairs.append((k, v))
        rows.append(pairs)
    g = h.grid_payload(None, [(b'a', None), (b'b', None)], rows); st['grid'] = g
    cands = [(k, lst) for k, lst in prog.impl_methods.items() if k[0] == g.ty and k[2] in ('filter_all', 'filter')]
    fa = [lst[0][0] for k, lst in cands if k[2] == 'filter_all'][0]
    r = ex.call_body(fa, [Ptr(Cell(g)), Ptr(Cell(flt))])
    sem = Sem(ex)
    rowvals = deref(ex, g.fields[2]).items
    st['impl'] = [i for i, rv in enumerate(rowvals) if any(deref(ex, x) is rv for x in r.items)]
    st['impl_count'] = len(r.items)
    st['spec'] = [sem.or_(tree, rv) for rv in rowvals]
    return st


def post(ex, t, r):
    if r.kind == 'unsupported': return {'kind': 'unsupported', 'detail': r.detail, 'where': r.where}
    st = ex.side.get('st') or {}
    s = {'kind': r.kind, 'detail': r.detail, 'where': r.where, 'mode': t['mode']}
    try: m = ex.model()
    except Infeasible: return None
    cz = Concretizer(ex, m); fd = FilterDump(ex, m)
    tree = st.get('tree')
    if tree is None: return s
    s['tree'] = fd.or_(tree)
    s['filter'] = print_fj(s['tree']).hex()
    if t['mode'] == 'grid':
        gv = cz.value(f_val(ex, st['grid']))
        s['native_case'] = {'api': 'filter_grid', 'filter': s['filter'], 'grid': gv}
        s['impl'] = st.get('impl'); s['spec'] = st.get('spec'); s['impl_count'] = st.get('impl_count')
    else:
        s['rec'] = cz.dict_(st['rec'])
        s['native_case'] = {'api': 'filter_eval', 'filter': s['filter'], 'rec': s['rec'],
                            'graph': [[k.hex(), cz.dict_(d)] for k, d in st['graph'].items()] if 'graph' in st else None}
        s['impl'] = st.get('impl'); s['spec'] = st.get('spec')
    return s


def lit_text(v):
    import struct
    from mirsym.models_num import rust_f64_str
    t = v['t']
    if t == 'num':
        x = struct.unpack('<d', bytes.fromhex(v['bits'])[::-1])[0]
        return rust_f64_str(x).encode() + (bytes.fromhex(v['unit']) if v.get('unit') else b'')
    if t == 'str':
        out = b'"'
        for ch in bytes.fromhex(v['v']).decode('utf-8'):
            out += {'"': b'\\"', '\\': b'\\\\', '$': b'\\$', '\n': b'\\n'}.get(ch, ch.encode('utf-8') if ord(ch) >= 0x20 else b'\\u%04x' % ord(ch))
        return out + b'"'
    if t == 'bool': return b'true' if v['v'] else b'false'
    if t == 'ref': return b'@' + bytes.fromhex(v['v'])
    if t == 'date': return b'%04d-%02d-%02d' % (v['y'], v['m'], v['d'])
    raise Unsupported('literal ' + t)


def print_fj(o):
    OPS = {'Eq': b'==', 'NotEq': b'!=', 'LessThan': b'<', 'LessThanEq': b'<=', 'GreatThan': b'>', 'GreatThanEq': b'>='}
    def path(p): return b'->'.join(bytes.fromhex(x) for x in p)
    def term(t):
        if 'parens' in t: return b'(' + print_fj(t['parens']) + b')'
        if 'has' in t: return path(t['has'])
        if 'missing' in t: return b'not ' + path(t['missing'])
        if 'cmp' in t: return path(t['cmp']['path']) + b' ' + OPS[t['cmp']['op']] + b' ' + lit_text(t['cmp']['v'])
        if 'weq' in t: return path(t['weq']['id']) + b' *== @' + bytes.fromhex(t['weq']['ref']['v'])
        raise Unsupported('term')
    return b' or '.join(b' and '.join(term(t) for t in a['and']) for a in o['or'])


def f_val(ex, g):
    from mirsym.hv import HV
    return HV(ex).val('Grid', g)


def verdict(ctx, S, prefix='filter.eval'):
    mism = 0; validated = 0; unsup = collections.Counter()
    for s in S:
        if s['kind'] == 'unsupported': unsup[(s.get('template', '?') + ': ' + s['detail'])[:110]] += 1; continue
        n = s.get('native') or {}
        if s['kind'] == 'bound':
            if 'hang' in n or 'abort' in n:
                ctx.report('%s.nonterm:%s' % (prefix, s['template']), 'evaluation does not terminate: filter %r on %s (graph %s)' % (bytes.fromhex(s.get('filter', '')), json.dumps(s.get('rec'))[:200], json.dumps(s['native_case'].get('graph'))[:300]), case=s['native_case'])
                validated += 1
            else:
                mism += 1; print('MODEL-MISMATCH %s: mirsym step bound, native %s' % (s['template'], str(n)[:200]))
            continue
        if s['kind'] == 'panic':
            if 'panic' in n: ctx.report('%s.panic:%s' % (prefix, s['template']), s['detail'], case=s['native_case']); validated += 1
            else: mism += 1; print('MODEL-MISMATCH %s: mirsym panic %s, native %s' % (s['template'], s['detail'], str(n)[:200]))
            continue
        if 'ok' not in n:
            mism += 1
            if mism <= 5: print('MODEL-MISMATCH %s filter=%r: native %s' % (s['template'], bytes.fromhex(s.get('filter', '')), str(n)[:200]))
            continue
        if s['mode'] == 'grid':
            rows = s['native_case']['grid']['rows']
            nat = [rows.index(x) if x in rows else -1 for x in n['ok']['all']]
            same = len(n['ok']['all']) == s['impl_count']
        else:
            same = n['ok'] == s['impl']
        if not same:
            mism += 1
            if mism <= int(os.environ.get('VERIF_SHOW', '5')): print('MODEL-MISMATCH %s filter=%r rec=%s: mirsym %s native %s' % (s['template'], bytes.fromhex(s['filter']), json.dumps(s.get('rec'))[:200], s['impl'], str(n['ok'])[:100]))
            continue
        validated += 1
        if s['mode'] == 'grid':
            want = [i for i, v in enumerate(s['spec']) if v is True]; open_ = [i for i, v in enumerate(s['spec']) if v is None]
            got = s['impl']
            if not open_ and (got != want or s['impl_count'] != len(want)):
                ctx.report('%s:grid-rows' % prefix, 'filter %r on grid %s returns rows %s, the semantics select %s' % (bytes.fromhex(s['filter']), json.dumps(rows)[:300], got, want), case=s['native_case'])
            first = n['ok']['first']
            if not open_ and ((first is None) != (not want) or (want and first != rows[want[0]])):
                ctx.report('%s:grid-first' % prefix, 'single match of %r is %s, expected row %s' % (bytes.fromhex(s['filter']), first, want[:1]), case=s['native_case'])
            continue
        if s['spec'] is None: continue
        if s['impl'] != s['spec']:
            term = classify(s)
            ctx.report('%s:%s' % (prefix, term), 'filter %r on record %s evaluates to %s, the semantics say %s' % (bytes.fromhex(s['filter']), json.dumps(s['rec'])[:300], s['impl'], s['spec']), case=s['native_case'])
    ctx.cov['traces_validated_against_impl'] += validated
    ctx.cov['unsupported_paths'] = dict(unsup)
    if mism: ctx.note_inconclusive('%d paths where the native build disagrees with the encoding (model mismatch)' % mism)
    if unsup: ctx.note_inconclusive('%d paths ended in an unmodelled construct: %s' % (sum(unsup.values()), list(unsup)[:3]))


def classify(s):
    """role of the disagreement: operator x (missing / null / other kind / list / same kind) of the first comparison"""
    tr = s['tree']
    def first_cmp(o):
        for a in o['or']:
            for t in a['and']:
                if 'cmp' in t: return t['cmp']
                if 'parens' in t:
                    r = first_cmp(t['parens'])
                    if r: return r
    c = first_cmp(tr)
    if c is None: return s['template']
    rec = dict((bytes.fromhex(k).decode(), v) for k, v in s['rec'])
    v = rec.get(bytes.fromhex(c['path'][0]).decode())
    for seg in c['path'][1:]:
        v = dict((bytes.fromhex(k).decode(), x) for k, x in v['v']).get(bytes.fromhex(seg).decode()) if v and v.get('t') == 'dict' else None
    if v is None: role = 'missing-tag'
    elif v['t'] == 'null': role = 'null-tag'
    elif v['t'] == 'list': role = 'list'
    elif v['t'] != c['v']['t']: role = 'other-kind'
    else: role = 'same-kind'
    return '%s:%s' % (c['op'], role)


def run(ctx):
    QUICK[0] = ctx.quick()
    prog = load.program(ctx.repo, ctx.cache)
    T = templates(ctx)
    ctx.cov['bounds'] = {'trees': '<= 3 terms (every operator, has/missing, and/or/parens), paths <= 2 segments', 'records': 'tags a,b each absent/Null/Marker/Bool/Number(unit)/Str/Ref/List(2)/Dict',
                         'grids': '2 rows', 'ref graph': '3 records, every edge pattern incl. cycles'}
    S = sym.explore_templates(ctx, __import__('props.C07', fromlist=['x']), T, prog, split_depth=4, budget_s=270 if ctx.quick() else 1700)
    sym.native_check(ctx, S)
    ctx.cov['path_kinds'] = dict(collections.Counter(s['kind'] for s in S))
    verdict(ctx, S)
    for s in S[:6]: ctx.add_sample({'template': s.get('template'), 'filter': s.get('filter'), 'record': s.get('rec'), 'impl': s.get('impl'), 'spec': s.get('spec')})
    ctx.assume('ordering of Numbers with different units is left open by the property; ^symbol and relationship terms belong to C13')
    ctx.obligation('eval == reference semantics', 'held' if not ctx.violations else 'violated', paths=len(S))


def replay(ctx, path):
    case = json.load(open(path))['case']
    r = native.run_cases(native.build(), [case])[0]
    print(json.dumps(r)[:600])
    return 1
