"""C10 Encoders never panic on any constructible value (Zinc writer + Display; engine M)."""
import collections, json, os
from mirsym import load
from vlib import sym, native
from props import zenc_common as zc
from mirsym.values import *
from mirsym.models import items_of
from mirsym.vj import Concretizer

QUICK = [True]


def path(ex, t):
    mode = t.get('mode', 'zinc')
    if mode == 'zinc': return zc.run_roundtrip(ex, t, QUICK[0])
    v = zc.build(ex, dict(t, name=t['shape']), QUICK[0])
    ex.side['orig'] = v
    st = {'stage': 'encode', 'mode': mode}; ex.side['st'] = st
    if mode == 'display':
        # <Value as ToString>::to_string: the crate's Display impl into a String; an Err from it panics inside std
        from mirsym.models_fmt import display_bytes
        from mirsym.models_coll import m_to_string
        class _Site: self_ty = 'Value'
        r = m_to_string(ex, _Site, [Ptr(Cell(v))])
        st['out'] = list(items_of(ex, r))
    else:
        from props import hayson_common as hc
        kind, tree = hc.encode(ex, v)
        st['enc'] = kind; st['tree'] = tree
    st['stage'] = 'done'
    return st


def post(ex, t, r):
    mode = t.get('mode', 'zinc')
    if mode == 'zinc': return zc.post_roundtrip(ex, t, r)
    if r.kind == 'unsupported': return {'kind': 'unsupported', 'detail': r.detail, 'where': r.where}
    st = ex.side.get('st') or {}
    s = {'kind': r.kind, 'detail': r.detail, 'where': r.where, 'mode': mode, 'wf': t['wf'], 'shape': t['shape']}
    try: m = ex.model()
    except Infeasible: return None
    cz = Concretizer(ex, m)
    try:
        s['orig'] = cz.value(ex.side['orig'])
        if r.kind == 'ok' and mode == 'display': s['out'] = cz.bytes_(VecV(list(st['out']), 'vec')).hex()
        if r.kind == 'ok' and mode == 'hayson': s['enc'] = st['enc']
    except Unsupported as u:
        return {'kind': 'unsupported', 'detail': 'concretize: %s' % u, 'where': None}
    if ex.side.get('axiomatised_floats'): s['float_axiom'] = True
    s['native_case'] = {'api': 'display' if mode == 'display' else 'json_encode', 'v': s['orig']}
    return s


def run(ctx):
    QUICK[0] = ctx.quick()
    prog = load.program(ctx.repo, ctx.cache)
    T = zc.templates(ctx.quick())
    # the same catalogue through Display (to_string) and through the Hayson Serialize impls
    for t in zc.templates(ctx.quick()):
        for mode in ('display', 'hayson'):
            # decimal-text floats make the final model query of the Hayson path slow (FP reasoning, no text stage to need them):
            # the listed special and plain float shapes cover the number encoder there
            if mode == 'hayson' and t['name'].startswith(('num-dec', 'num-unit-', 'coord')): continue
            T.append({'name': '%s:%s' % (mode, t['name']), 'shape': t['name'], 'wf': t['wf'], 'mode': mode})
    ctx.cov['bounds'] = {'string_code_points': 2 if ctx.quick() else 3, 'collection_entries': 2, 'nesting': 2}
    S = sym.explore_templates(ctx, __import__('props.C10', fromlist=['x']), T, prog, split_depth=4, budget_s=240 if ctx.quick() else 1500)
    sym.native_check(ctx, S)
    finish(ctx, S, 'C10')


def finish(ctx, S, pid):
    ctx.cov['path_kinds'] = dict(collections.Counter(s['kind'] for s in S))
    mism = 0; validated = 0; unsup = collections.Counter()
    for s in S:
        if s['kind'] == 'unsupported': unsup[(s.get('template', '?') + ': ' + s['detail'])[:160]] += 1; continue
        if s.get('mode') in ('display', 'hayson'):
            n = s.get('native') or {}
            nat_bad = 'panic' in n or 'hang' in n or 'abort' in n
            sym_bad = s['kind'] in ('panic', 'bound')
            if sym_bad != nat_bad: d = 'mirsym %s (%s), native %s' % (s['kind'], s.get('detail'), str(n)[:120])
            elif not sym_bad and s['mode'] == 'display' and not s.get('float_axiom') and n.get('ok') != s.get('out'):
                d = 'display text: mirsym %r native %r' % (bytes.fromhex(s.get('out') or ''), n.get('ok'))
            elif not sym_bad and s['mode'] == 'hayson' and (s.get('enc') == 'ok') != ('ok' in n): d = 'hayson outcome: mirsym %s native %s' % (s.get('enc'), str(n)[:120])
            else: d = None
            if d is not None:
                mism += 1
                if mism <= int(os.environ.get('VERIF_SHOW', '5')): print('MODEL-MISMATCH template=%s orig=%s: %s' % (s['template'], json.dumps(s.get('orig'))[:200], d))
                continue
            validated += 1
            if sym_bad:
                key = '%s.encode.%s:%s:%s' % (s['mode'], 'panic' if s['kind'] == 'panic' else 'nonterm', s['shape'].rstrip('0123456789'), (s['detail'] or '')[:40])
                ctx.report(key, '%s encoder: %s at %s for value %s' % (s['mode'], s['detail'], s.get('where'), json.dumps(s['orig'])[:300]), case=s['native_case'])
            continue
        d = zc.compare_roundtrip(s)
        if d is not None:
            mism += 1
            if mism <= int(os.environ.get('VERIF_SHOW', '5')): print('MODEL-MISMATCH template=%s orig=%s: %s' % (s['template'], json.dumps(s.get('orig'))[:200], d))
            continue
        if s.get('native') is not None: validated += 1
        v = s.get('viol')
        if pid == 'C10':
            if v and v.startswith(('panic-in-encode', 'nonterm-in-encode')):
                wc = '|'.join(sorted(set(zc.witness_class(x) for x in zc.strings_in(s['orig'])))) or '-'
                key = 'zinc.encode.%s:%s:%s' % (v.split('-')[0], s['template'].rstrip('0123456789'), (s['detail'] or '')[:40])
                ctx.report(key, '%s at %s for value %s' % (s['detail'], s.get('where'), json.dumps(s['orig'])[:300]), case=s['native_case'])
    ctx.cov['traces_validated_against_impl'] += validated
    for s in S[:6]:
        ctx.add_sample({'template': s.get('template'), 'value': s.get('orig'), 'text': s.get('text'), 'violation': s.get('viol')})
    ctx.cov['unsupported_paths'] = dict(unsup)
    if mism: ctx.note_inconclusive('%d paths where the native build disagrees with the encoding (model mismatch)' % mism)
    if unsup: ctx.note_inconclusive('%d paths ended in an unmodelled construct: %s' % (sum(unsup.values()), list(unsup)[:3]))
    ctx.assume('f64 -> text: exact for short decimals (<= 15 significant digits) and the listed special values; other floats are not explored')
    ctx.obligation('zinc-writer-no-panic', 'held' if not ctx.violations else 'violated', paths=len(S))


def replay(ctx, path):
    case = json.load(open(path))['case']
    r = native.run_cases(native.build(), [case])[0]
    print(json.dumps(r)[:400])
    return 1 if ('panic' in r or 'hang' in r or 'abort' in r) else 0
