"""C10 Encoders never panic on any constructible value (Zinc writer + Display; engine M)."""
import collections, json, os
from mirsym import load
from vlib import sym, native
from props import zenc_common as zc

QUICK = [True]


def path(ex, t): return zc.run_roundtrip(ex, t, QUICK[0])
def post(ex, t, r): return zc.post_roundtrip(ex, t, r)


def run(ctx):
    QUICK[0] = ctx.quick()
    prog = load.program(ctx.repo, ctx.cache)
    T = zc.templates(ctx.quick())
    ctx.cov['bounds'] = {'string_code_points': 2 if ctx.quick() else 3, 'collection_entries': 2, 'nesting': 2}
    S = sym.explore_templates(ctx, __import__('props.C10', fromlist=['x']), T, prog, split_depth=4, budget_s=240 if ctx.quick() else 1500)
    sym.native_check(ctx, S)
    finish(ctx, S, 'C10')


def finish(ctx, S, pid):
    ctx.cov['path_kinds'] = dict(collections.Counter(s['kind'] for s in S))
    mism = 0; validated = 0; unsup = collections.Counter()
    for s in S:
        if s['kind'] == 'unsupported': unsup[(s.get('template', '?') + ': ' + s['detail'])[:110]] += 1; continue
        d = zc.compare_roundtrip(s)
        if d is not None:
            mism += 1
            if mism <= int(os.environ.get('VERIF_SHOW', '5')): print('MODEL-MISMATCH template=%s orig=%s: %s' % (s['template'], json.dumps(s.get('orig'))[:200], d))
            continue
        if s.get('native') is not None: validated += 1
        v = s.get('viol')
        if pid == 'C10':
            if v and v.startswith(('panic-in-encode', 'nonterm-in-encode')):
                wc = '|'.join(sorted(set(zc.witness_class(x) for x in zc.strings_in(s['orig'])))) or '-'
                key = 'zinc.encode.%s:%s:%s' % (v.split('-')[0], s['template'].rstrip('0123456789'), (s['detail'] or '')[:40])
                ctx.report(key, '%s at %s for value %s' % (s['detail'], s.get('where'), json.dumps(s['orig'])[:300]), case=s['native_case'])
    ctx.cov['traces_validated_against_impl'] += validated
    for s in S[:6]:
        ctx.add_sample({'template': s.get('template'), 'value': s.get('orig'), 'text': s.get('text'), 'violation': s.get('viol')})
    ctx.cov['unsupported_paths'] = dict(unsup)
    if mism: ctx.note_inconclusive('%d paths where the native build disagrees with the encoding (model mismatch)' % mism)
    if unsup: ctx.note_inconclusive('%d paths ended in an unmodelled construct: %s' % (sum(unsup.values()), list(unsup)[:3]))
    ctx.assume('f64 -> text: exact for short decimals (<= 15 significant digits) and the listed special values; other floats are not explored')
    ctx.obligation('zinc-writer-no-panic', 'held' if not ctx.violations else 'violated', paths=len(S))


def replay(ctx, path):
    case = json.load(open(path))['case']
    r = native.run_cases(native.build(), [case])[0]
    print(json.dumps(r)[:400])
    return 1 if ('panic' in r or 'hang' in r or 'abort' in r) else 0
