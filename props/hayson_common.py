"""Hayson harness shared by C02 (round trip) and C05 (conformance): Serialize impls (MIR) -> JSON tree -> Visitor (MIR)."""
import itertools
import z3
from mirsym.values import *
from mirsym.models import deref, eq_scalar, zand
from mirsym.models_serde import J, TreeSer, TreeDe, serialize_value, deserialize_as, SerFailed
from mirsym.vj import Concretizer
from mirsym.engine import conc_value
import struct


def tree_eq(a, b):
    """structural equality of two JSON trees as a formula; object members compared as sets (keys concrete); a number is the
    same real whether it is spelled as integer or float"""
    if a.kind in ('i64', 'u64', 'f64') and b.kind in ('i64', 'u64', 'f64'):
        return num_eq(a, b)
    if a.kind != b.kind: return False
    if a.kind == 'null': return True
    if a.kind == 'bool': return eq_scalar(a.v, b.v)
    if a.kind == 'str':
        if len(a.v) != len(b.v): return False
        return zand(eq_scalar(x, y) for x, y in zip(a.v, b.v))
    if a.kind == 'seq':
        if len(a.v) != len(b.v): return False
        return zand(tree_eq(x, y) for x, y in zip(a.v, b.v))
    if a.kind == 'map':
        ka = {bytes(k): n for k, n in a.v}; kb = {bytes(k): n for k, n in b.v}
        if set(ka) != set(kb) or len(ka) != len(a.v) or len(kb) != len(b.v): return False
        return zand(tree_eq(ka[k], kb[k]) for k in ka)
    return False


def as_f64(n):
    from mirsym.engine import F64, RNE
    if n.kind == 'f64': return n.v if is_sym(n.v) else z3.FPVal(n.v, F64)
    if is_sym(n.v): return z3.fpSignedToFP(RNE, n.v, F64) if n.kind == 'i64' else z3.fpUnsignedToFP(RNE, n.v, F64)
    return z3.FPVal(float(n.v), F64)


def num_eq(a, b):
    if a.kind != 'f64' and b.kind != 'f64':
        if not is_sym(a.v) and not is_sym(b.v): return a.v == b.v
        return eq_scalar(a.v, b.v)
    fa, fb = as_f64(a), as_f64(b)
    return z3.simplify(z3.fpEQ(fa, fb))


def tj(cz, n):
    """canonical description of a tree under a model (see replay/src/apis9.rs tj)"""
    k = n.kind
    if k == 'null': return None
    if k == 'bool': return bool(cz.c(n.v))
    if k in ('i64', 'u64'):
        v = cz.c(n.v)
        if is_sym(n.v) and k == 'i64' and v >= 1 << (n.v.size() - 1): v -= 1 << n.v.size()
        return {'$n': 'i' if v < 0 else 'u', 'v': str(v)}
    if k == 'f64': return {'$n': 'f', 'v': '%016x' % struct.unpack('<Q', struct.pack('<d', float(cz.c(n.v))))[0]}
    if k == 'str': return {'$s': bytes(cz.c(b) & 0xff for b in n.v).hex()}
    if k == 'seq': return [tj(cz, x) for x in n.v]
    return {'$m': [[bytes(key).hex(), tj(cz, x)] for key, x in n.v]}


def tj_norm(t):
    """order-insensitive form; integral floats and integers of the same real compare equal"""
    if isinstance(t, dict):
        if '$m' in t: return {'$m': sorted([[k, tj_norm(v)] for k, v in t['$m']], key=lambda kv: kv[0])}
        if '$n' in t:
            if t['$n'] == 'f':
                x = struct.unpack('<d', bytes.fromhex(t['v'])[::-1])[0]
                if x == int(x) and abs(x) < 2 ** 63: return {'$n': 'int', 'v': str(int(x))}
                return t
            return {'$n': 'int', 'v': t['v']}
        return t
    if isinstance(t, list): return [tj_norm(x) for x in t]
    return t


def encode(ex, v):
    """-> ('ok', tree) | ('err', e)"""
    try:
        return 'ok', serialize_value(ex, v)
    except SerFailed as f:
        return 'err', f.e


def decode(ex, node, vt):
    return deserialize_as(ex, node, vt)


def permutations(node, limit=24):
    """all member orders of the top-level object and (jointly) of nested objects, up to `limit` variants"""
    def variants(n):
        if n.kind == 'map':
            subs = [variants(x) for _, x in n.v]
            keys = [k for k, _ in n.v]
            out = []
            for perm in itertools.permutations(range(len(keys))):
                # children: first variant only except for one-level nesting to keep the count bounded
                out.append(J('map', [(keys[i], subs[i][0]) for i in perm]))
                if len(out) >= limit: break
            return out
        if n.kind == 'seq':
            return [J('seq', [variants(x)[0] for x in n.v])]
        return [n]
    return variants(node)
