"""C12 Value equality, hashing and ordering are mutually consistent.
Engine M: the crate's eq / cmp / partial_cmp / hash / clone (MIR) on pairs and triples of values with symbolic leaves.
Engine K: Coord over all f64 bit patterns (Kani/CBMC)."""
import collections, json, os
import z3
from mirsym import load
from mirsym.values import *
from mirsym.hv import HV
from mirsym.vj import Concretizer
from mirsym.models_hash import RecHasher, streams_equal
from mirsym.engine import F64
from vlib import sym, native, kani
from props.zenc_common import Leaves

UNITS = [None, 'meter', 'second']
ZONES = [(0, 'UTC'), (3600, 'Etc/GMT-1'), (-3600, 'Etc/GMT+1')]


def fnn(ex, l):
    f = l.f64(); ex.assume(z3.Not(z3.fpIsNaN(f))); return f


def ascii1(l): return [l.byte([(0x20, 0x7e)])]


def mk(kind):
    def num(h, l):
        return h.num(fnn(h.ex, l), UNITS[h.ex.pick(3)])
    def ref(h, l):
        return h.ref(ascii1(l), ascii1(l) if h.ex.pick(2) else None)
    def dt(h, l):
        off, tz = ZONES[h.ex.pick(3)]
        hh = z3.BitVec('hh%d' % l.n, 32); l.n += 1; h.ex.assume(z3.ULE(hh, 23))
        return h.dt(2021, 3, 4, hh, 6, 7, 0, off, tz)
    def date(h, l):
        d = z3.BitVec('dd%d' % l.n, 32); l.n += 1; h.ex.assume(z3.And(z3.UGE(d, 1), z3.ULE(d, 28)))
        return h.date(2021, 3, d)
    def time(h, l):
        s = z3.BitVec('ss%d' % l.n, 32); l.n += 1; h.ex.assume(z3.ULE(s, 59))
        return h.time(12, 30, s, [0, 100000000, 900000000][h.ex.pick(3)])       # same second, different fractions
    def lst(h, l):
        n = h.ex.pick(4)
        if n == 3: return h.list_([h.null()])
        return h.list_([h.num(fnn(h.ex, l)) for _ in range(n)])
    def dct(h, l):
        pairs = []
        for k in (b'a', b'b', b'c'):
            j = h.ex.pick(3 if k == b'c' else 2)
            if j == 1: pairs.append((k, h.num(fnn(h.ex, l))))
            elif j == 2: pairs.append((k, h.null()))       # a tag present with a Null value is not an absent tag
        return h.dict_(pairs)
    def grid(h, l):
        rows = [[(b'a', h.num(fnn(h.ex, l)))]] if h.ex.pick(2) else []
        # column meta and grid meta take part in ==, cmp and hash alike
        cm = [None, [(b'x', h.marker())], [(b'x', h.num(fnn(h.ex, l)))]][h.ex.pick(3)]
        gm = [(b'm', h.marker())] if h.ex.pick(2) else None
        return h.grid(gm, [(b'a', cm)], rows)
    table = {
        'num': num, 'coord': lambda h, l: h.coord(fnn(h.ex, l), fnn(h.ex, l)), 'ref': ref,
        'str': lambda h, l: h.str_(ascii1(l)), 'uri': lambda h, l: h.uri(ascii1(l)), 'sym': lambda h, l: h.sym(ascii1(l)),
        'xstr': lambda h, l: h.xstr(ascii1(l), ascii1(l)), 'bool': lambda h, l: h.bool_(l.boolean()),
        'null': lambda h, l: h.null(), 'marker': lambda h, l: h.marker(), 'na': lambda h, l: h.na(), 'remove': lambda h, l: h.remove(),
        'date': date, 'time': time, 'dt': dt, 'list': lst, 'dict': dct, 'grid': grid,
    }
    return table[kind]


KINDS = ['null', 'remove', 'marker', 'bool', 'na', 'num', 'str', 'ref', 'uri', 'sym', 'date', 'time', 'dt', 'coord', 'xstr', 'list', 'dict', 'grid']


def templates(ctx):
    T = []
    for k in KINDS: T.append({'name': 'pair-%s' % k, 'kinds': [k, k]})
    for k in ('num', 'coord', 'ref', 'str', 'dict', 'list', 'dt'): T.append({'name': 'triple-%s' % k, 'kinds': [k, k, k]})
    # the same payload under different kinds / cross-kind ordering
    cross = [(a, b) for a in KINDS for b in KINDS if a != b]
    if ctx.quick(): cross = [p for i, p in enumerate(cross) if (i + ctx.seed) % 4 == 0]
    for a, b in cross: T.append({'name': 'cross-%s-%s' % (a, b), 'kinds': [a, b]})
    return T


def B(ex, r):
    if isinstance(r, bool): return r
    return ex.branch(r)


def ops(ex, a, b):
    vt = a.ty
    prog = ex.prog
    pa, pb = Ptr(Cell(a)), Ptr(Cell(b))
    eq = prog.find_method(vt, 'PartialEq', 'eq'); cmp_ = prog.find_method(vt, 'Ord', 'cmp'); pc = prog.find_method(vt, 'PartialOrd', 'partial_cmp')
    f = {}
    f['eq'] = B(ex, ex.call_body(eq, [pa, pb])); f['eq_rev'] = B(ex, ex.call_body(eq, [pb, pa]))
    f['cmp'] = ex.call_body(cmp_, [pa, pb]).variant - 1; f['cmp_rev'] = ex.call_body(cmp_, [pb, pa]).variant - 1
    p = ex.call_body(pc, [pa, pb]); f['pcmp'] = None if p.variant == 0 else p.fields[0].variant - 1
    return f


def hstream(ex, v):
    h = RecHasher()
    b = ex.prog.find_method(v.ty, 'Hash', 'hash')
    ex.call_body(b, [Ptr(Cell(v)), Ptr(Cell(h))])
    return h.stream


def path(ex, t):
    h = HV(ex); l = Leaves(ex)
    vals = [mk(k)(h, l) for k in t['kinds']]
    ex.side['vals'] = vals
    a, b = vals[0], vals[1]
    f = ops(ex, a, b)
    bad = []
    refl = B(ex, ex.call_body(ex.prog.find_method(a.ty, 'PartialEq', 'eq'), [Ptr(Cell(a)), Ptr(Cell(a))]))
    if not refl: bad.append('eq-reflexive')
    if f['eq'] != f['eq_rev']: bad.append('eq-symmetric')
    from mirsym.models import clone_value
    cl = ex.call_body(ex.prog.find_method(a.ty, 'Clone', 'clone'), [Ptr(Cell(a))])
    if not B(ex, ex.call_body(ex.prog.find_method(a.ty, 'PartialEq', 'eq'), [Ptr(Cell(cl)), Ptr(Cell(a))])): bad.append('clone-eq')
    hs = None
    if f['eq']:
        hs = B(ex, streams_equal(hstream(ex, a), hstream(ex, b)))
        if not hs: bad.append('eq-implies-hash')
    f['hash_same'] = hs
    if (f['cmp'] == 0) != f['eq']: bad.append('cmp-equal-iff-eq')
    if f['pcmp'] is not None and f['pcmp'] != f['cmp']: bad.append('partial-agrees-with-total')
    if f['cmp'] != -f['cmp_rev']: bad.append('cmp-antisymmetric')
    if len(vals) == 3:
        c = vals[2]
        g = ops(ex, b, c); hh = ops(ex, a, c)
        if f['eq'] and g['eq'] and not hh['eq']: bad.append('eq-transitive')
        if f['cmp'] <= 0 and g['cmp'] <= 0 and hh['cmp'] > 0: bad.append('cmp-transitive')
    f['violated'] = bad
    return f


def post(ex, t, r):
    if r.kind == 'unsupported': return {'kind': 'unsupported', 'detail': r.detail, 'where': r.where}
    try: m = ex.model()
    except Infeasible: return None
    cz = Concretizer(ex, m)
    try: vj = [cz.value(v) for v in ex.side['vals']]
    except Unsupported as u: return {'kind': 'unsupported', 'detail': 'concretize: %s' % u, 'where': None}
    s = {'kind': r.kind, 'detail': r.detail, 'where': r.where, 'vals': vj,
         'native_case': {'api': 'eqord', 'a': vj[0], 'b': vj[1], 'c': vj[2] if len(vj) > 2 else None}}
    if r.kind == 'ok': s['facts'] = r.value
    return s


KANI = ['coord_eq_hash', 'coord_ord', 'coord_transitive']


def run(ctx):
    prog = load.program(ctx.repo, ctx.cache)
    T = templates(ctx)
    ctx.cov['bounds'] = {'strings': '1 symbolic printable ASCII byte', 'collections': '<= 2 list elements, dict keys from {a,b,c}, grid <= 1 row, column meta absent / marker / number, grid meta absent / marker',
                         'floats': 'all non-NaN f64 bit patterns (z3 FP / CBMC)', 'zones': 'UTC, Etc/GMT-1, Etc/GMT+1'}
    S = sym.explore_templates(ctx, __import__('props.C12', fromlist=['x']), T, prog, split_depth=4, budget_s=240 if ctx.quick() else 1500)
    sym.native_check(ctx, S)
    ctx.cov['path_kinds'] = dict(collections.Counter(s['kind'] for s in S))
    mism = 0; validated = 0; unsup = collections.Counter()
    for s in S:
        if s['kind'] == 'unsupported': unsup[(s.get('template', '?') + ': ' + s['detail'])[:110]] += 1; continue
        n = s.get('native')
        if s['kind'] == 'panic':
            if n is not None and 'panic' in n: ctx.report('eqord.panic:' + s['template'], '%s for %s' % (s['detail'], json.dumps(s['vals'])[:300]), case=s['native_case'])
            else: mism += 1
            continue
        if n is None or 'ok' not in n or s['kind'] != 'ok':
            mism += 1
            if mism <= 5: print('MODEL-MISMATCH template=%s: %s native %s' % (s['template'], s['kind'], str(n)[:200]))
            continue
        f = s['facts']; nf = n['ok']
        same = all(f[k] == nf[k] for k in ('eq', 'eq_rev', 'cmp', 'cmp_rev', 'pcmp')) and (f['hash_same'] is None or f['hash_same'] == nf['hash_same']) \
            and sorted(f['violated']) == sorted(nf['violated'])
        if not same:
            mism += 1
            if mism <= int(os.environ.get('VERIF_SHOW', '5')): print('MODEL-MISMATCH template=%s vals=%s: mirsym %s native %s' % (s['template'], json.dumps(s['vals'])[:260], f, nf))
            continue
        validated += 1
        for law in nf['violated']:
            kind = s['template'].split('-', 1)[1] if not s['template'].startswith('cross') else 'cross'
            wit = witness_class(s['vals'])
            ctx.report('eqord.%s:%s:%s' % (law, kind, wit), '%s violated for %s (facts %s)' % (law, json.dumps(s['vals'])[:400], nf), case=s['native_case'])
    ctx.cov['traces_validated_against_impl'] += validated
    for s in S[:6]: ctx.add_sample({'template': s.get('template'), 'values': s.get('vals'), 'facts': s.get('facts')})
    ctx.cov['unsupported_paths'] = dict(unsup)
    if mism: ctx.note_inconclusive('%d paths where the native build disagrees with the encoding (model mismatch)' % mism)
    if unsup: ctx.note_inconclusive('%d paths ended in an unmodelled construct: %s' % (sum(unsup.values()), list(unsup)[:3]))
    ctx.obligation('eq-hash-ord-laws (mirsym)', 'held' if not ctx.violations else 'violated', paths=len(S))
    run_kani(ctx, KANI, 'eqord.kani')
    ctx.assume("chrono's own Eq/Ord/Hash on NaiveDate/NaiveTime/DateTime are modelled (instant comparison), not executed")


def witness_class(vals):
    """what kind of near-collision the witness is (keys known findings by role)"""
    cl = set()
    def walk(j):
        if isinstance(j, dict):
            if j.get('t') == 'num':
                if j['bits'] in ('0000000000000000', '8000000000000000'): cl.add('zero')
                cl.add('unit' if j.get('unit') else 'nounit')
            if j.get('t') == 'coord' and ('0000000000000000' in (j['lat'], j['lng']) or '8000000000000000' in (j['lat'], j['lng'])): cl.add('zero')
            for v in j.values(): walk(v)
        elif isinstance(j, list):
            for x in j: walk(x)
    walk(vals)
    units = set()
    def wu(j):
        if isinstance(j, dict):
            if j.get('t') == 'num': units.add(j.get('unit'))
            for v in j.values(): wu(v)
        elif isinstance(j, list):
            for x in j: wu(x)
    wu(vals)
    if len(units) > 1: cl.add('mixed-units')
    return '+'.join(sorted(cl)) or '-'


def run_kani(ctx, names, keyprefix):
    res, wall, out = kani.run(names)
    ctx.cov['engines'].append({'kani_harnesses': names, 'wall_s': round(wall, 1)})
    cases = []
    for name in names:
        r = res[name]
        ctx.cov['states'] += 1
        if r['status'] == 'ok':
            if not r.get('stub_seen'): ctx.note_inconclusive('kani harness %s ran without the fmt stub' % name); continue
            ctx.obligation('kani:' + name, 'held', time_s=r.get('time_s'), covers=r.get('covers'))
        elif r['status'] == 'failed':
            if r['inputs'] is None:
                ctx.note_inconclusive('kani harness %s failed without a concrete counterexample: %s' % (name, r['failed_checks'])); continue
            n = native.run_cases(native.build(), [{'api': 'kani_body', 'name': name, 'inputs': r['inputs']}])[0]
            failed = (n.get('ok') or {}).get('failed') or []
            if not failed:
                ctx.note_inconclusive('kani counterexample of %s does not reproduce natively: %s' % (name, str(n)[:200])); continue
            ctx.cov['traces_validated_against_impl'] += 1
            for msg in failed:
                ctx.report('%s:%s:%s' % (keyprefix, name, msg), 'Kani: "%s" fails for inputs %s (reproduced natively)' % (msg, r['inputs']),
                           case={'api': 'kani_body', 'name': name, 'inputs': r['inputs']})
            ctx.obligation('kani:' + name, 'violated', failed=failed)
        else:
            ctx.note_inconclusive('kani harness %s: %s' % (name, r['detail'][-200:]))


def replay(ctx, path):
    case = json.load(open(path))['case']
    r = native.run_cases(native.build(), [case])[0]
    print(json.dumps(r)[:600])
    ok_ = r.get('ok') or {}
    return 1 if (ok_.get('violated') or ok_.get('failed')) else 0
