"""Shared pieces of the Zinc-decoder checks (C03, C04, C11): templates, path harness, per-path summary."""
import z3
from mirsym import zinc
from mirsym.values import *
from mirsym.vj import Concretizer, norm_native
from mirsym.engine import conc_value


def json_dumps(j):
    import json
    return json.dumps(j)


def sym_input(t):
    """template -> list of byte items (ints and fresh symbolic bytes) + the list of symbolic variables"""
    data = []; syms = []
    for part in t['parts']:
        if isinstance(part, (bytes, bytearray)): data += list(part)
        elif isinstance(part, int):
            for _ in range(part):
                v = z3.BitVec('b%d' % len(syms), 8); syms.append(v); data.append(v)
        elif isinstance(part, tuple) and part[0] == 'cls':
            # symbolic byte restricted to a set of values (stated in the template)
            v = z3.BitVec('b%d' % len(syms), 8); syms.append((v, part[1])); data.append(v)
        else:
            raise ValueError(part)
    return data, syms


def run_decode(ex, t):
    data, syms = sym_input(t)
    ex.side['input'] = data
    for s in syms:
        if isinstance(s, tuple):
            ex.assume(z3.Or([s[0] == c for c in s[1]]))
    r, rd = zinc.parse_value(ex, data, fail_at=t.get('fail_at'))
    ex.side['reader'] = rd
    return r


def concrete_input(ex, m):
    data = ex.side['input']
    return bytes((conc_value(m.eval(b, model_completion=True)) if is_sym(b) else b) & 0xFF for b in data)


def summarize_decode(ex, t, r, api='zinc_decode'):
    """-> dict with mirsym's prediction for one concrete input of this path + the native case"""
    if r.kind == 'unsupported':
        return {'kind': 'unsupported', 'detail': r.detail, 'where': r.where}
    try:
        m = ex.model()
    except Infeasible:
        return None
    inp = concrete_input(ex, m)
    s = {'kind': r.kind, 'detail': r.detail, 'where': r.where, 'input': inp.hex(),
         'native_case': {'api': api, 'in': inp.hex()} if t.get('fail_at') is None else None}
    if ex.side.get('axiomatised_floats'): s['float_axiom'] = True
    if ex.side.get('named_zone'): s['zone_axiom'] = True
    rd = ex.side.get('reader')
    if rd is not None:
        s['reader'] = {'reads': rd.reads, 'max_req': rd.max_req, 'pos': rd.pos}
    if r.kind == 'ok':
        v = r.value
        if v.variant == 0:
            s['expect'] = 'ok'
            try:
                s['value'] = Concretizer(ex, m).value(v.fields[0])
            except Unsupported as u:
                s['value_unsupported'] = str(u)
        else:
            s['expect'] = 'err'
    elif r.kind == 'panic':
        s['expect'] = 'panic'
    else:
        s['expect'] = 'hang'
    return s


def compare(s):
    """-> None when the native result agrees with mirsym's prediction, else a description"""
    n = s.get('native')
    if n is None: return None
    from vlib.native import outcome
    o = outcome(n)
    e = s['expect']
    if e == 'hang':
        return None if o in ('hang', 'abort') else 'mirsym: bound exceeded (%s), native: %s' % (s.get('detail'), o)
    if e == 'panic':
        return None if o in ('panic', 'abort') else 'mirsym: panic %s, native: %s' % (s.get('detail'), o)
    if e != o: return 'mirsym: %s, native: %s %s' % (e, o, str(n)[:200])
    if e == 'ok' and 'value' in s:
        nv = norm_native(n['ok'])
        if s.get('hayson'):
            # NaN payload / float text are outside the tree-level model: compare modulo number bits when a NaN is involved
            if 'ff8' in json_dumps(nv) or 'ff8' in json_dumps(s['value']):
                if strip_bits(nv) == strip_bits(s['value']): return None
        if s.get('zone_axiom'):
            nv = strip_dt(nv); sv = strip_dt(s['value'])
            if nv == sv: return None
        if s.get('float_axiom'):
            nv = strip_bits(nv); sv = strip_bits(s['value'])
            if nv == sv: return None
        if nv != s['value']: return 'values differ: mirsym %s native %s' % (str(s['value'])[:300], str(nv)[:300])
    return None


def strip_bits(j):
    if isinstance(j, dict): return {k: strip_bits(v) for k, v in j.items() if k not in ('bits', 'lat', 'lng')}
    if isinstance(j, list): return [strip_bits(x) for x in j]
    return j


def strip_dt(j):
    if isinstance(j, dict):
        if j.get('t') == 'dt': return {'t': 'dt', 'tz': j.get('tz'), 'secs': j.get('secs'), 'ns': j.get('ns')}
        return {k: strip_dt(v) for k, v in j.items()}
    if isinstance(j, list): return [strip_dt(x) for x in j]
    return j
