"""C04 Zinc text conforms to the Project Haystack grammar in both directions (engine M vs /verif/spec/zinc.py).
writer: spec_reader(to_zinc(v)) == v        reader: decode(spec_writer(v, spelling choices)) == v"""
import collections, json, os
import z3
from mirsym import load, zinc
from mirsym.values import *
from mirsym.hv import HV, sym_eq
from mirsym.vj import Concretizer, norm_native
from vlib import sym, native
from props import zenc_common as zc
from spec.zinc import Writer, Reader, SpecError

QUICK = [True]


def templates(ctx):
    T = []
    for t in zc.templates(ctx.quick(), only_wf=True):
        T.append(dict(t, name='w:' + t['name'], dir='w', shape=t['name']))
        for nl in (b'\n', b'\r\n'):
            if nl == b'\r\n' and not t['name'].startswith('grid'): continue
            T.append(dict(t, name='r:%s%s' % (t['name'], ':crlf' if nl != b'\n' else ''), dir='r', shape=t['name'], nl=nl))
    return T


def path(ex, t):
    v = zc.build(ex, dict(t, name=t['shape']), QUICK[0])
    ex.side['orig'] = v
    st = {'dir': t['dir']}; ex.side['st'] = st
    h = HV(ex)
    if t['dir'] == 'w':
        st['stage'] = 'encode'
        r, sink = zc.encode(ex, v)
        st['enc'] = r; st['text'] = list(sink.items)
        if r.variant != 0: return st
        st['stage'] = 'spec-read'
        try:
            rd = Reader(ex, h, sink.items)
            st['spec'] = rd.value()
            if not rd.eof(): raise SpecError('trailing bytes at %d' % rd.i)
        except SpecError as e:
            st['spec_error'] = str(e)
        st['stage'] = 'done'
        return st
    st['stage'] = 'spec-write'
    w = Writer(ex, lambda n: ex.pick(n) if n > 1 else 0, nl=t.get('nl', b'\n'))
    # the \uXXXX spelling of a multi-byte char multiplies the paths of a shape by ~30: in the thorough tier it is kept for the
    # shapes with at most two symbolic chars
    if not QUICK[0] and t['shape'].rstrip('0123456789') in ('str', 'uri', 'refdis', 'xstr-v') and t['shape'][-1:] == '3': w._u_spelled = True
    text = w.value(v)
    if zc.build.__module__ and v.variant == ex.prog.variant_index(v.ty, 'Grid'): text = text + list(t.get('nl', b'\n'))
    st['text'] = text; st['stage'] = 'decode'
    d, rd = zinc.parse_value(ex, list(text))
    st['dec'] = d; st['stage'] = 'done'
    return st


def post(ex, t, r):
    if r.kind == 'unsupported': return {'kind': 'unsupported', 'detail': r.detail, 'where': r.where}
    st = ex.side.get('st') or {}
    s = {'kind': r.kind, 'detail': r.detail, 'where': r.where, 'stage': st.get('stage'), 'dir': t['dir'], 'shape': t['shape']}
    viol = None; cond = None
    if r.kind in ('panic', 'bound'): viol = '%s-in-%s' % (r.kind, st.get('stage'))
    elif t['dir'] == 'w':
        if st['enc'].variant != 0: viol = 'encode-error'
        elif 'spec_error' in st: viol = 'not-a-sentence'; s['spec_error'] = st['spec_error']
        else:
            eq = sym_eq(ex, ex.side['orig'], st['spec'])
            if eq is False: viol = 'denotes-other-value'
            elif eq is not True and ex.sat(z3.Not(eq)) is not None: viol = 'denotes-other-value'; cond = z3.Not(eq)
    else:
        if st['dec'].variant != 0: viol = 'sentence-rejected'
        else:
            eq = sym_eq(ex, ex.side['orig'], st['dec'].fields[0])
            if eq is False: viol = 'decoded-other-value'
            elif eq is not True and ex.sat(z3.Not(eq)) is not None: viol = 'decoded-other-value'; cond = z3.Not(eq)
    try:
        if cond is not None: ex.assume(cond)
        m = ex.model()
    except Infeasible:
        return None
    cz = Concretizer(ex, m)
    try: s['orig'] = cz.value(ex.side['orig'])
    except Unsupported as u: return {'kind': 'unsupported', 'detail': 'concretize: %s' % u, 'where': None}
    if st.get('text') is not None: s['text'] = cz.bytes_(VecV(list(st['text']), 'vec')).hex()
    if ex.side.get('axiomatised_floats'): s['float_axiom'] = True
    if ex.side.get('named_zone'): s['zone_axiom'] = True
    if t['dir'] == 'w':
        s['native_case'] = {'api': 'zinc_encode', 'v': s['orig']}
        if 'spec' in st:
            try: s['spec_value'] = cz.value(st['spec'])
            except Unsupported: pass
    else:
        s['native_case'] = {'api': 'zinc_decode', 'in': s.get('text', '')}
        if r.kind == 'ok' and st['dec'].variant == 0:
            try: s['decoded'] = cz.value(st['dec'].fields[0])
            except Unsupported: pass
    s['viol'] = viol
    return s


def run(ctx):
    QUICK[0] = ctx.quick()
    prog = load.program(ctx.repo, ctx.cache)
    T = templates(ctx)
    ctx.cov['bounds'] = {'string_code_points': 2 if ctx.quick() else 3, 'collection_entries': 2, 'nesting': 2,
                         'spellings': 'escape form per char (short / \\\\uXXXX lower+upper hex / raw), digit separator, exponent form, unit name vs symbol, list comma spacing and trailing comma, dict separator space/comma, explicit :M markers, Z vs Z UTC, LF vs CRLF'}
    S = sym.explore_templates(ctx, __import__('props.C04', fromlist=['x']), T, prog, split_depth=4, budget_s=700 if ctx.quick() else 3000)
    sym.native_check(ctx, S)
    ctx.cov['path_kinds'] = dict(collections.Counter(s['kind'] for s in S))
    mism = 0; validated = 0; unsup = collections.Counter(); nviol = 0
    for s in S:
        if s['kind'] == 'unsupported': unsup[(s.get('template', '?') + ': ' + s['detail'])[:110]] += 1; continue
        n = s.get('native') or {}
        v = s.get('viol')
        okn = True
        if s['dir'] == 'w':
            if s['kind'] == 'panic': okn = 'panic' in n
            elif v == 'encode-error': okn = 'err' in n
            else: okn = n.get('ok') == s.get('text')
            if not okn and s.get('float_axiom'): okn = True
        else:
            if s['kind'] == 'panic': okn = 'panic' in n
            elif s['kind'] == 'bound': okn = 'hang' in n
            elif v == 'sentence-rejected': okn = 'err' in n
            else:
                from props.zinc_common import strip_dt
                okn = 'ok' in n and (s.get('float_axiom') or 'decoded' not in s or norm_native(n['ok']) == s['decoded']
                                     or (s.get('zone_axiom') and strip_dt(norm_native(n['ok'])) == strip_dt(s['decoded'])))
        if not okn:
            mism += 1
            if mism <= int(os.environ.get('VERIF_SHOW', '5')): print('MODEL-MISMATCH template=%s orig=%s text=%r: mirsym %s/%s native %s' % (s['template'], json.dumps(s.get('orig'))[:160], bytes.fromhex(s.get('text') or ''), s['kind'], v, str(n)[:200]))
            continue
        validated += 1
        if not v: continue
        nviol += 1
        wc = '|'.join(sorted(set(zc.witness_class(x) for x in zc.strings_in(s['orig'])) - {'plain'})) or '-'
        where = ''
        if v == 'denotes-other-value' and 'spec_value' in s: where = zc.diff_path(zc.norm_grid_meta(s['orig']), zc.norm_grid_meta(s['spec_value'])) or ''
        if v == 'decoded-other-value' and 'ok' in n: where = zc.diff_path(zc.norm_grid_meta(s['orig']), zc.norm_grid_meta(norm_native(n['ok']))) or ''
        if v in ('denotes-other-value', 'decoded-other-value') and not where: continue
        key = 'zinc.conform.%s:%s:%s%s:%s' % ('writer' if s['dir'] == 'w' else 'reader', s['shape'].rstrip('0123456789'), v, where, wc)
        ctx.report(key, '%s: value %s, text %r%s; native %s' % (v, json.dumps(s['orig'])[:200], bytes.fromhex(s.get('text') or ''),
                   (' (%s)' % s['spec_error']) if s.get('spec_error') else '', str(n)[:160]), case=s['native_case'])
    ctx.cov['traces_validated_against_impl'] += validated
    ctx.cov['violating_paths'] = nviol
    for s in S[:8]: ctx.add_sample({'template': s.get('template'), 'value': s.get('orig'), 'text': s.get('text'), 'violation': s.get('viol')})
    ctx.cov['unsupported_paths'] = dict(unsup)
    if mism: ctx.note_inconclusive('%d paths where the native build disagrees with the encoding (model mismatch)' % mism)
    if unsup: ctx.note_inconclusive('%d paths ended in an unmodelled construct: %s' % (sum(unsup.values()), list(unsup)[:3]))
    ctx.assume('reference reader/writer in /verif/spec/zinc.py written from the specification; number values: f64 text model of C01')
    ctx.obligation('zinc-conformance-both-directions', 'held' if not ctx.violations else 'violated', paths=len(S))


def replay(ctx, path):
    case = json.load(open(path))['case']
    r = native.run_cases(native.build(), [case])[0]
    print(json.dumps(r)[:600])
    return 1
