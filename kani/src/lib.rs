//! Kani harnesses (engine K).  Public items of libhaystack only; no hooks.  Bodies live in shared.rs so the
//! native replay binary can re-run a counterexample with the concrete inputs Kani found.
#![allow(dead_code)]
pub mod shared;

#[cfg(kani)]
mod k {
    use crate::shared::{bodies, Chk, Src};
    struct KSrc;
    impl Src for KSrc {
        fn u8(&mut self) -> u8 { kani::any() }
        fn u64(&mut self) -> u64 { kani::any() }
        fn i8(&mut self) -> i8 { kani::any() }
    }
    struct KChk;
    impl Chk for KChk {
        fn assume(&mut self, c: bool) { kani::assume(c) }
        fn check(&mut self, _c: bool, _msg: &'static str) {}
        fn cover(&mut self, _c: bool, _msg: &'static str) {}
    }
    fn fmt_stub(_a: std::fmt::Arguments<'_>) -> String { String::new() }

    macro_rules! harness {
        ($name:ident, $unwind:expr) => {
            #[kani::proof]
            #[kani::unwind($unwind)]
            #[kani::stub(std::fmt::format, fmt_stub)]
            fn $name() { bodies::$name(&mut KSrc, &mut KChk) }
        };
    }
    harness!(coord_eq_hash, 10);
    harness!(coord_ord, 10);
    harness!(coord_transitive, 10);
    harness!(kind_codes, 10);
    harness!(dims_add_sub, 10);
}
