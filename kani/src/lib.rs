//! Kani harnesses (engine K).  Public items of libhaystack only; no hooks.
#![allow(dead_code)]
#[cfg(kani)]
mod common;
#[cfg(kani)]
mod c12;
#[cfg(kani)]
mod probe;
