// Harness bodies shared by the Kani crate (symbolic source) and the native replay binary (concrete source).
// `Src` delivers the nondeterministic inputs; `Chk` receives assumptions, assertions and cover points.
pub trait Src {
    fn u8(&mut self) -> u8;
    fn u64(&mut self) -> u64;
    fn i8(&mut self) -> i8;
}
pub trait Chk {
    fn assume(&mut self, c: bool);
    fn check(&mut self, c: bool, msg: &'static str);
    fn cover(&mut self, c: bool, msg: &'static str);
}

macro_rules! cover {
    ($c:expr, $cond:expr, $msg:literal) => {{
        #[cfg(kani)]
        kani::cover!($cond, $msg);
        #[cfg(not(kani))]
        $c.cover($cond, $msg);
    }};
}

macro_rules! check {
    ($c:expr, $cond:expr, $msg:literal) => {{
        #[cfg(kani)]
        assert!($cond, $msg);
        #[cfg(not(kani))]
        $c.check($cond, $msg);
    }};
}

pub mod bodies {
    use super::{Chk, Src};
    use libhaystack::units::UnitDimensions;
    use libhaystack::val::kind::HaystackKind;
    use libhaystack::val::Coord;
    use std::cmp::Ordering;
    use std::hash::{Hash, Hasher};

    pub const REC: usize = 8;
    /// records the stream a `Hash` impl feeds to the hasher (equal streams => equal hashes for every Hasher)
    pub struct RecHasher { pub w: [u64; REC], pub t: [u8; REC], pub n: usize }
    impl RecHasher {
        pub fn new() -> Self { RecHasher { w: [0; REC], t: [0; REC], n: 0 } }
        fn put(&mut self, tag: u8, v: u64) { if self.n < REC { self.w[self.n] = v; self.t[self.n] = tag; } self.n += 1; }
        pub fn same(&self, o: &RecHasher) -> bool {
            if self.n != o.n || self.n > REC { return false; }
            let mut i = 0;
            while i < REC { if i < self.n && (self.w[i] != o.w[i] || self.t[i] != o.t[i]) { return false; } i += 1; }
            true
        }
    }
    impl Hasher for RecHasher {
        fn write(&mut self, bytes: &[u8]) { for b in bytes { self.put(1, *b as u64); } }
        fn write_u8(&mut self, i: u8) { self.put(1, i as u64) }
        fn write_i8(&mut self, i: i8) { self.put(1, i as u8 as u64) }
        fn write_u32(&mut self, i: u32) { self.put(4, i as u64) }
        fn write_u64(&mut self, i: u64) { self.put(8, i) }
        fn write_i64(&mut self, i: i64) { self.put(8, i as u64) }
        fn write_usize(&mut self, i: usize) { self.put(9, i as u64) }
        fn finish(&self) -> u64 { 0 }
    }
    fn stream<T: Hash>(v: &T) -> RecHasher { let mut h = RecHasher::new(); v.hash(&mut h); h }

    fn f64_not_nan<S: Src, C: Chk>(s: &mut S, c: &mut C) -> f64 { let v = f64::from_bits(s.u64()); c.assume(!v.is_nan()); v }
    fn coord<S: Src, C: Chk>(s: &mut S, c: &mut C) -> Coord { Coord { lat: f64_not_nan(s, c), long: f64_not_nan(s, c) } }

    pub fn coord_eq_hash<S: Src, C: Chk>(s: &mut S, c: &mut C) {
        let a = coord(s, c); let b = coord(s, c);
        check!(c, a == a, "coord eq reflexive");
        check!(c, (a == b) == (b == a), "coord eq symmetric");
        check!(c, a.clone() == a, "coord clone equals original");
        if a == b { check!(c, stream(&a).same(&stream(&b)), "coord eq implies equal hash stream"); }
        cover!(c, a == b && a.lat.to_bits() != b.lat.to_bits(), "equal coords with different bits reached");
    }
    pub fn coord_ord<S: Src, C: Chk>(s: &mut S, c: &mut C) {
        let a = coord(s, c); let b = coord(s, c);
        let o = a.cmp(&b);
        check!(c, (o == Ordering::Equal) == (a == b), "coord cmp Equal iff eq");
        if let Some(p) = a.partial_cmp(&b) { check!(c, p == o, "coord partial_cmp agrees with cmp"); }
        check!(c, o == b.cmp(&a).reverse(), "coord cmp antisymmetric");
        cover!(c, o == Ordering::Equal, "coord equal reached");
        cover!(c, o == Ordering::Less && a.lat == b.lat, "coord less on equal latitude reached");
    }
    pub fn coord_transitive<S: Src, C: Chk>(s: &mut S, c: &mut C) {
        let a = coord(s, c); let b = coord(s, c); let d = coord(s, c);
        if a == b && b == d { check!(c, a == d, "coord eq transitive"); }
        if a.cmp(&b) != Ordering::Greater && b.cmp(&d) != Ordering::Greater {
            check!(c, a.cmp(&d) != Ordering::Greater, "coord cmp transitive");
        }
    }

    pub fn kind_codes<S: Src, C: Chk>(s: &mut S, c: &mut C) {
        let code = s.u8();
        match HaystackKind::try_from(code) {
            Ok(k) => {
                check!(c, k as u8 == code, "kind code round trip");
                check!(c, code < 18, "only 18 kind codes");
                let other = s.u8();
                if let Ok(k2) = HaystackKind::try_from(other) { check!(c, (k == k2) == (code == other), "kind <-> code one-to-one"); }
                std::mem::forget(k);
            }
            Err(e) => { check!(c, code >= 18, "every code below 18 is a kind"); std::mem::forget(e); }
        }
        cover!(c, code == 17, "last kind reached");
    }

    fn dims<S: Src, C: Chk>(s: &mut S, c: &mut C) -> UnitDimensions {
        let mut v = [0i8; 7];
        for x in v.iter_mut() { *x = s.i8(); c.assume(*x >= -8 && *x <= 8); }
        UnitDimensions { kg: v[0], m: v[1], sec: v[2], k: v[3], a: v[4], mol: v[5], cd: v[6] }
    }
    pub fn dims_add_sub<S: Src, C: Chk>(s: &mut S, c: &mut C) {
        let a = dims(s, c); let b = dims(s, c);
        let p = a + b; let q = a - b;
        check!(c, p.kg == a.kg + b.kg && p.m == a.m + b.m && p.sec == a.sec + b.sec && p.k == a.k + b.k && p.a == a.a + b.a
                && p.mol == a.mol + b.mol && p.cd == a.cd + b.cd, "dimension sum is component-wise");
        check!(c, q.kg == a.kg - b.kg && q.m == a.m - b.m && q.sec == a.sec - b.sec && q.k == a.k - b.k && q.a == a.a - b.a
                && q.mol == a.mol - b.mol && q.cd == a.cd - b.cd, "dimension difference is component-wise");
        check!(c, (p - b) == a, "adding then subtracting a dimension is the identity");
        cover!(c, a.cd != 0 && b.mol != 0, "cd and mol exponents reached");
    }
}
