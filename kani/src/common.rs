use libhaystack::units::{Unit, UnitDimensions};
use std::hash::Hasher;

/// Records the stream a `Hash` impl feeds to the hasher, one entry per `write_*` call
/// (tagged with the width).  Equal recorded streams imply equal hashes for every `Hasher`
/// whose `write_*` methods are functions of their argument, i.e. every real hasher.
pub const REC: usize = 20;
pub struct RecHasher {
    pub w: [u64; REC],
    pub t: [u8; REC],
    pub n: usize,
}
impl RecHasher {
    pub fn new() -> Self {
        RecHasher { w: [0; REC], t: [0; REC], n: 0 }
    }
    fn put(&mut self, tag: u8, v: u64) {
        if self.n < REC {
            self.w[self.n] = v;
            self.t[self.n] = tag;
        }
        self.n += 1;
    }
    pub fn same(&self, o: &RecHasher) -> bool {
        assert!(self.n <= REC && o.n <= REC, "recording hasher capacity");
        if self.n != o.n {
            return false;
        }
        let mut i = 0;
        while i < REC {
            if i < self.n && (self.w[i] != o.w[i] || self.t[i] != o.t[i]) {
                return false;
            }
            i += 1;
        }
        true
    }
}
impl Hasher for RecHasher {
    fn write(&mut self, bytes: &[u8]) {
        // only reached for str payloads; each byte is one entry
        for b in bytes {
            self.put(1, *b as u64);
        }
    }
    fn write_u8(&mut self, i: u8) { self.put(1, i as u64) }
    fn write_i8(&mut self, i: i8) { self.put(1, i as u8 as u64) }
    fn write_u32(&mut self, i: u32) { self.put(4, i as u64) }
    fn write_i32(&mut self, i: i32) { self.put(4, i as u32 as u64) }
    fn write_u64(&mut self, i: u64) { self.put(8, i) }
    fn write_i64(&mut self, i: i64) { self.put(8, i as u64) }
    fn write_usize(&mut self, i: usize) { self.put(9, i as u64) }
    fn write_isize(&mut self, i: isize) { self.put(9, i as u64) }
    fn finish(&self) -> u64 {
        0
    }
}

pub fn any_dims() -> UnitDimensions {
    UnitDimensions {
        kg: kani::any(),
        m: kani::any(),
        sec: kani::any(),
        k: kani::any(),
        a: kani::any(),
        mol: kani::any(),
        cd: kani::any(),
    }
}

/// A unit with symbolic dimension/scale/offset and no names (the unit database is never touched).
pub fn leak_unit(dims: Option<UnitDimensions>, scale: f64, offset: f64) -> &'static Unit {
    Box::leak(Box::new(Unit {
        quantity: None,
        ids: Vec::new(),
        dimensions: dims,
        scale,
        offset,
    }))
}
