use crate::common::*;
use libhaystack::val::Number;
use std::hash::Hash;
fn stream<T: Hash>(v: &T) -> RecHasher { let mut h = RecHasher::new(); v.hash(&mut h); h }
#[kani::proof]
#[kani::unwind(22)]
fn p_nounit() {
    let a = Number { value: f64::from_bits(kani::any()), unit: None };
    let b = Number { value: f64::from_bits(kani::any()), unit: None };
    kani::assume(!a.value.is_nan() && !b.value.is_nan());
    if a == b { assert!(stream(&a).same(&stream(&b)), "p eq implies hash"); }
}
#[kani::proof]
#[kani::unwind(22)]
fn p_unit_stream_only() {
    let u = leak_unit(None, 1.0, 0.0);
    let a = Number { value: 1.0, unit: Some(u) };
    let s = stream(&a);
    assert!(s.n < 20, "p fits");
}
#[kani::proof]
#[kani::unwind(4)]
fn p_unit_small_unwind() {
    let u = leak_unit(None, 1.0, 0.0);
    let a = Number { value: f64::from_bits(kani::any()), unit: Some(u) };
    let b = Number { value: f64::from_bits(kani::any()), unit: Some(u) };
    kani::assume(!a.value.is_nan() && !b.value.is_nan());
    let mut h1 = RecHasher::new(); a.hash(&mut h1);
    let mut h2 = RecHasher::new(); b.hash(&mut h2);
    if a == b { assert!(h1.n == h2.n && h1.w[0] == h2.w[0], "p first word"); }
}
