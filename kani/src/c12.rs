//! C12: Eq / Hash / Ord / PartialOrd coherence of the allocation-free leaves, all bit patterns.
use crate::common::*;
use libhaystack::units::Unit;
use libhaystack::val::{Coord, Number};
use std::cmp::Ordering;
use std::hash::Hash;

fn any_f64_not_nan() -> f64 {
    let bits: u64 = kani::any();
    let v = f64::from_bits(bits);
    kani::assume(!v.is_nan());
    v
}

fn pick_unit(sel: u8, u1: &'static Unit, u2: &'static Unit) -> Option<&'static Unit> {
    match sel {
        0 => None,
        1 => Some(u1),
        _ => Some(u2),
    }
}

fn two_units() -> (&'static Unit, &'static Unit) {
    // two units that differ (different dimension vector) - concrete so that the value part stays the subject
    let mut d1 = libhaystack::units::UnitDimensions::default();
    d1.m = 1;
    let mut d2 = libhaystack::units::UnitDimensions::default();
    d2.sec = 1;
    (leak_unit(Some(d1), 1.0, 0.0), leak_unit(Some(d2), 1.0, 0.0))
}

fn any_number(u1: &'static Unit, u2: &'static Unit) -> Number {
    let value = any_f64_not_nan();
    let sel: u8 = kani::any();
    kani::assume(sel <= 2);
    Number { value, unit: pick_unit(sel, u1, u2) }
}

fn stream<T: Hash>(v: &T) -> RecHasher {
    let mut h = RecHasher::new();
    v.hash(&mut h);
    h
}

#[kani::proof]
#[kani::unwind(22)]
fn number_eq_hash() {
    let (u1, u2) = two_units();
    let a = any_number(u1, u2);
    let b = any_number(u1, u2);
    assert!(a == a, "number eq reflexive");
    assert!((a == b) == (b == a), "number eq symmetric");
    if a == b {
        kani::cover!(a.value.to_bits() != b.value.to_bits(), "equal numbers with different bits reached");
        assert!(stream(&a).same(&stream(&b)), "number eq implies equal hash stream");
    }
    kani::cover!(a == b, "equal numbers reached");
    kani::cover!(a != b, "different numbers reached");
}

#[kani::proof]
fn number_ord_agrees_with_eq() {
    let (u1, u2) = two_units();
    let a = any_number(u1, u2);
    let b = any_number(u1, u2);
    let c = a.cmp(&b);
    assert!((c == Ordering::Equal) == (a == b), "number cmp Equal iff eq");
    kani::cover!(c == Ordering::Equal, "cmp equal reached");
    kani::cover!(a.unit != b.unit, "different units reached");
}

#[kani::proof]
fn number_partial_agrees_with_total() {
    let (u1, u2) = two_units();
    let a = any_number(u1, u2);
    let b = any_number(u1, u2);
    if let Some(o) = a.partial_cmp(&b) {
        assert!(o == a.cmp(&b), "number partial_cmp agrees with cmp");
        kani::cover!(o == Ordering::Less, "partial less reached");
    }
    assert!(a.cmp(&b) == b.cmp(&a).reverse(), "number cmp antisymmetric");
}

#[kani::proof]
fn number_transitive() {
    let (u1, u2) = two_units();
    let a = any_number(u1, u2);
    let b = any_number(u1, u2);
    let c = any_number(u1, u2);
    if a == b && b == c {
        assert!(a == c, "number eq transitive");
    }
    if a.cmp(&b) != Ordering::Greater && b.cmp(&c) != Ordering::Greater {
        assert!(a.cmp(&c) != Ordering::Greater, "number cmp transitive");
        kani::cover!(a.cmp(&c) == Ordering::Less, "strict chain reached");
    }
}

fn any_coord() -> Coord {
    Coord { lat: any_f64_not_nan(), long: any_f64_not_nan() }
}

#[kani::proof]
#[kani::unwind(22)]
fn coord_eq_hash() {
    let a = any_coord();
    let b = any_coord();
    assert!(a == a, "coord eq reflexive");
    assert!((a == b) == (b == a), "coord eq symmetric");
    if a == b {
        assert!(stream(&a).same(&stream(&b)), "coord eq implies equal hash stream");
    }
    kani::cover!(a == b, "equal coords reached");
}

#[kani::proof]
fn coord_ord() {
    let a = any_coord();
    let b = any_coord();
    let c = a.cmp(&b);
    assert!((c == Ordering::Equal) == (a == b), "coord cmp Equal iff eq");
    if let Some(o) = a.partial_cmp(&b) {
        assert!(o == c, "coord partial_cmp agrees with cmp");
    }
    assert!(c == b.cmp(&a).reverse(), "coord cmp antisymmetric");
    kani::cover!(c == Ordering::Equal, "coord equal reached");
    kani::cover!(c == Ordering::Less, "coord less reached");
}

#[kani::proof]
fn coord_transitive() {
    let a = any_coord();
    let b = any_coord();
    let c = any_coord();
    if a == b && b == c {
        assert!(a == c, "coord eq transitive");
    }
    if a.cmp(&b) != Ordering::Greater && b.cmp(&c) != Ordering::Greater {
        assert!(a.cmp(&c) != Ordering::Greater, "coord cmp transitive");
    }
}

/// Unit: hand-written PartialEq/Hash, derived PartialOrd. Symbolic dims/scale/offset, no names.
#[kani::proof]
#[kani::unwind(22)]
fn unit_eq_hash() {
    let a = leak_unit(Some(any_dims()), f64::from_bits(kani::any()), f64::from_bits(kani::any()));
    let b = leak_unit(Some(any_dims()), f64::from_bits(kani::any()), f64::from_bits(kani::any()));
    assert!(a == a, "unit eq reflexive");
    assert!((a == b) == (b == a), "unit eq symmetric");
    if a == b {
        assert!(stream(a).same(&stream(b)), "unit eq implies equal hash stream");
    }
    kani::cover!(a == b, "equal units reached");
    kani::cover!(a != b, "different units reached");
}
