//! Canonical JSON description of libhaystack values (both directions).
use chrono::{Datelike, Offset, TimeZone, Timelike};
use libhaystack::units::get_unit;
use libhaystack::val::*;
use serde_json::{json, Value as J};

pub fn hex(b: &[u8]) -> String { b.iter().map(|x| format!("{:02x}", x)).collect() }
pub fn unhex(s: &str) -> Vec<u8> { (0..s.len() / 2).map(|i| u8::from_str_radix(&s[2 * i..2 * i + 2], 16).unwrap()).collect() }
pub fn hs(s: &str) -> J { J::String(hex(s.as_bytes())) }
pub fn uhs(j: &J) -> String { String::from_utf8(unhex(j.as_str().unwrap())).unwrap() }
fn bits(f: f64) -> J { J::String(format!("{:016x}", f.to_bits())) }
fn unbits(j: &J) -> f64 { f64::from_bits(u64::from_str_radix(j.as_str().unwrap(), 16).unwrap()) }

pub fn dict_to(d: &Dict) -> J {
    J::Array(d.iter().map(|(k, v)| json!([hs(k), to(v)])).collect())
}
pub fn odict_to(d: &Option<Dict>) -> J { match d { Some(d) => dict_to(d), None => J::Null } }

pub fn dt_to(d: &DateTime) -> J {
    json!({"t":"dt","secs": d.timestamp(), "ns": d.timestamp_subsec_nanos(), "nsl": d.nanosecond(), "off": d.offset().fix().local_minus_utc(),
           "tz": d.timezone().name(), "short": std::panic::catch_unwind(std::panic::AssertUnwindSafe(|| d.timezone_short_name())).ok(),
           "local": [d.year(), d.month(), d.day(), d.hour(), d.minute(), d.second()]})
}

pub fn to(v: &Value) -> J {
    match v {
        Value::Null => json!({"t":"null"}),
        Value::Remove => json!({"t":"remove"}),
        Value::Marker => json!({"t":"marker"}),
        Value::Na => json!({"t":"na"}),
        Value::Bool(b) => json!({"t":"bool","v":b.value}),
        Value::Number(n) => json!({"t":"num","bits":bits(n.value),"unit": n.unit.map(|u| hs(u.name()))}),
        Value::Str(s) => json!({"t":"str","v":hs(&s.value)}),
        Value::Uri(s) => json!({"t":"uri","v":hs(&s.value)}),
        Value::Symbol(s) => json!({"t":"sym","v":hs(&s.value)}),
        Value::Ref(r) => json!({"t":"ref","v":hs(&r.value),"dis": r.dis.as_ref().map(|d| hs(d))}),
        Value::XStr(x) => json!({"t":"xstr","ty":hs(&x.r#type),"v":hs(&x.value)}),
        Value::Coord(c) => json!({"t":"coord","lat":bits(c.lat),"lng":bits(c.long)}),
        Value::Date(d) => json!({"t":"date","y":d.year(),"m":d.month(),"d":d.day()}),
        Value::Time(t) => json!({"t":"time","h":t.hour(),"mi":t.minute(),"s":t.second(),"ns":t.nanosecond()}),
        Value::DateTime(d) => dt_to(d),
        Value::List(l) => json!({"t":"list","v": l.iter().map(to).collect::<Vec<_>>()}),
        Value::Dict(d) => json!({"t":"dict","v": dict_to(d)}),
        Value::Grid(g) => json!({"t":"grid","ver": hs(&g.ver), "meta": odict_to(&g.meta),
            "cols": g.columns.iter().map(|c| json!([hs(&c.name), odict_to(&c.meta)])).collect::<Vec<_>>(),
            "rows": g.rows.iter().map(dict_to).collect::<Vec<_>>()}),
    }
}

pub fn dict_from(j: &J) -> Dict {
    let mut d = Dict::new();
    for kv in j.as_array().unwrap() { d.insert(uhs(&kv[0]), from(&kv[1])); }
    d
}
pub fn odict_from(j: &J) -> Option<Dict> { if j.is_null() { None } else { Some(dict_from(j)) } }

pub fn from(j: &J) -> Value {
    match j["t"].as_str().unwrap() {
        "null" => Value::Null, "remove" => Value::Remove, "marker" => Value::Marker, "na" => Value::Na,
        "bool" => Value::make_bool(j["v"].as_bool().unwrap()),
        "num" => {
            let unit = if j["unit"].is_null() { None } else { Some(get_unit(&uhs(&j["unit"])).expect("unit")) };
            Value::Number(Number { value: unbits(&j["bits"]), unit })
        }
        "str" => Value::Str(Str { value: uhs(&j["v"]) }),
        "uri" => Value::Uri(Uri { value: uhs(&j["v"]) }),
        "sym" => Value::Symbol(Symbol { value: uhs(&j["v"]) }),
        "ref" => Value::Ref(Ref { value: uhs(&j["v"]), dis: if j["dis"].is_null() { None } else { Some(uhs(&j["dis"])) } }),
        "xstr" => Value::XStr(XStr { r#type: uhs(&j["ty"]), value: uhs(&j["v"]) }),
        "coord" => Value::Coord(Coord { lat: unbits(&j["lat"]), long: unbits(&j["lng"]) }),
        "date" => Value::Date(Date::from_ymd(j["y"].as_i64().unwrap() as i32, j["m"].as_u64().unwrap() as u32, j["d"].as_u64().unwrap() as u32).expect("date")),
        "time" => Value::Time(Time::from(chrono::NaiveTime::from_hms_nano_opt(j["h"].as_u64().unwrap() as u32, j["mi"].as_u64().unwrap() as u32, j["s"].as_u64().unwrap() as u32, j["ns"].as_u64().unwrap() as u32).expect("time"))),
        "dt" => {
            let tz: chrono_tz::Tz = j["tz"].as_str().unwrap().parse().expect("tz");
            let utc = chrono::Utc.timestamp_opt(j["secs"].as_i64().unwrap(), j["ns"].as_u64().unwrap() as u32).single().expect("ts");
            Value::DateTime(DateTime::from(utc.with_timezone(&tz)))
        }
        "list" => Value::List(j["v"].as_array().unwrap().iter().map(from).collect()),
        "dict" => Value::Dict(dict_from(&j["v"])),
        "grid" => {
            let columns = j["cols"].as_array().unwrap().iter().map(|c| Column { name: uhs(&c[0]), meta: odict_from(&c[1]) }).collect();
            let rows = j["rows"].as_array().unwrap().iter().map(dict_from).collect();
            Value::Grid(Grid { meta: odict_from(&j["meta"]), columns, rows, ver: uhs(&j["ver"]) })
        }
        other => panic!("vj kind {}", other),
    }
}
