use crate::vj;
use libhaystack::defs::namespace::DEFAULT_NS;
use libhaystack::filter::eval::{Eval, EvalContext};
use libhaystack::filter::path::Path;
use libhaystack::filter::{Filter, Filtered, ListFiltered, PathResolver};
use libhaystack::val::*;
use serde_json::{json, Value as J};
use std::collections::BTreeMap;

struct Graph { recs: BTreeMap<String, Dict> }
impl PathResolver for Graph {
    fn resolve_for(&self, root: &Dict, path: &Path) -> Value { root.resolve_for(root, path) }
    fn resolve(&self, _path: &Path) -> Value { Value::Null }
    fn resolve_ref(&self, reference: &Ref) -> Option<Dict> { self.recs.get(&reference.value).cloned() }
}

pub fn run(api: &str, case: &J) -> J {
    match api {
        "filter_eval" => {
            let text = String::from_utf8(vj::unhex(case["filter"].as_str().unwrap())).unwrap();
            let f = match Filter::try_from(text.as_str()) { Ok(f) => f, Err(e) => return json!({"err": e.to_string()}) };
            let rec = vj::dict_from(&case["rec"]);
            if case["graph"].is_null() {
                json!({"ok": rec.filter(&f)})
            } else {
                let mut recs = BTreeMap::new();
                for kv in case["graph"].as_array().unwrap() { recs.insert(vj::uhs(&kv[0]), vj::dict_from(&kv[1])); }
                let g = Graph { recs };
                let ctx = EvalContext::make(&rec, &DEFAULT_NS, &g);
                json!({"ok": f.eval(&ctx)})
            }
        }
        "filter_grid" => {
            let text = String::from_utf8(vj::unhex(case["filter"].as_str().unwrap())).unwrap();
            let f = match Filter::try_from(text.as_str()) { Ok(f) => f, Err(e) => return json!({"err": e.to_string()}) };
            let g = match vj::from(&case["grid"]) { Value::Grid(g) => g, _ => return json!({"bad_case": "grid"}) };
            let all: Vec<J> = g.filter_all(&f).iter().map(|d| vj::dict_to(d)).collect();
            let first = Filtered::<Option<&Dict>>::filter(&g, &f).map(vj::dict_to);
            json!({"ok": {"all": all, "first": first}})
        }
        other => crate::apis9::run(other, case),
    }
}
