use crate::vj;
use libhaystack::encoding::zinc;
use libhaystack::encoding::zinc::encode::ToZinc;
use libhaystack::val::*;
use serde_json::{json, Value as J};
use std::io::Cursor;

fn inp(case: &J) -> Vec<u8> { vj::unhex(case["in"].as_str().unwrap()) }

pub fn run(case: &J) -> J {
    match case["api"].as_str().unwrap_or("") {
        // Zinc decode through the same entry the harness drives: Parser::make(reader).parse_value()
        "zinc_decode" => {
            let data = inp(case);
            let mut rd = Cursor::new(data);
            let r = zinc::decode::parser::Parser::make(&mut rd).and_then(|mut p| p.parse_value());
            match r { Ok(v) => json!({"ok": vj::to(&v)}), Err(e) => json!({"err": e.to_string()}) }
        }
        "zinc_encode" => {
            let v = vj::from(&case["v"]);
            match v.to_zinc_string() { Ok(s) => json!({"ok": vj::hex(s.as_bytes())}), Err(e) => json!({"err": e.to_string()}) }
        }
        "display" => {
            let v = vj::from(&case["v"]);
            json!({"ok": vj::hex(v.to_string().as_bytes())})
        }
        "zinc_roundtrip" => {
            let v = vj::from(&case["v"]);
            match v.to_zinc_string() {
                Ok(s) => match zinc::decode::from_str(&s) {
                    Ok(v2) => json!({"ok": vj::to(&v2), "text": vj::hex(s.as_bytes()), "same": vj::to(&v2) == vj::to(&v)}),
                    Err(e) => json!({"err": e.to_string(), "text": vj::hex(s.as_bytes())}),
                },
                Err(e) => json!({"enc_err": e.to_string()}),
            }
        }
        "zinc_grid_rows" => {
            // lazy iterator: rows one by one
            let data = inp(case);
            let mut rd = Cursor::new(data);
            let mut parser = match zinc::decode::parser::Parser::make(&mut rd) { Ok(p) => p, Err(e) => return json!({"err": e.to_string()}) };
            match zinc::decode::parse_grid_iterator(&mut parser) {
                Ok(it) => {
                    let mut rows = vec![];
                    let mut errs = 0;
                    for r in it {
                        match r { Ok(d) => rows.push(vj::dict_to(&d)), Err(e) => { rows.push(json!({"err": e.to_string()})); errs += 1; if errs > 3 { break; } } }
                    }
                    json!({"ok": rows})
                }
                Err(e) => json!({"err": e.to_string()}),
            }
        }
        other => crate::apis2::run(other, case),
    }
}
