//! Native replay binary: reads one JSON case per line on stdin, prints one JSON result per line.
//! Results are canonical descriptions ("vj") of values, or {"err":..} / {"panic":..}.
use libhaystack::encoding::zinc;
use libhaystack::val::*;
use serde_json::{json, Value as J};
use std::io::{BufRead, Write};
use std::panic::{catch_unwind, AssertUnwindSafe};

mod vj;
mod apis;
mod apis2;
mod apis3;
mod apis4;
mod apis5;
mod apis6;
mod apis7;
mod apis8;
mod apis9;
mod apis10;
mod apis11;
mod apis12;
mod apis13;

fn main() {
    std::panic::set_hook(Box::new(|_| {}));
    let stdin = std::io::stdin();
    let stdout = std::io::stdout();
    for line in stdin.lock().lines() {
        let line = match line { Ok(l) => l, Err(_) => break };
        if line.trim().is_empty() { continue; }
        let case: J = match serde_json::from_str(&line) { Ok(c) => c, Err(e) => { println!("{}", json!({"bad_case": e.to_string()})); continue; } };
        let res = catch_unwind(AssertUnwindSafe(|| apis::run(&case)));
        let out = match res {
            Ok(v) => v,
            Err(p) => {
                let msg = if let Some(s) = p.downcast_ref::<String>() { s.clone() } else if let Some(s) = p.downcast_ref::<&str>() { s.to_string() } else { "panic".into() };
                json!({"panic": msg})
            }
        };
        let mut o = stdout.lock();
        writeln!(o, "{}", out).ok();
        o.flush().ok();
    }
    let _ = (zinc::decode::from_str("N"), Value::Null);
}
