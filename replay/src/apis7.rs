use crate::vj;
use libhaystack::encoding::zinc;
use serde_json::{json, Value as J};
use std::io::{Error, ErrorKind, Read};

/// reader delivering the data in chunks of `chunk` bytes, returning Interrupted before every `intr`-th read
struct Chunky { data: Vec<u8>, pos: usize, chunk: usize, intr: usize, calls: usize }
impl Read for Chunky {
    fn read(&mut self, buf: &mut [u8]) -> std::io::Result<usize> {
        self.calls += 1;
        if self.intr > 0 && self.calls % self.intr == 0 { return Err(Error::new(ErrorKind::Interrupted, "signal")); }
        let n = buf.len().min(self.chunk).min(self.data.len() - self.pos);
        buf[..n].copy_from_slice(&self.data[self.pos..self.pos + n]);
        self.pos += n;
        Ok(n)
    }
}

pub fn run(api: &str, case: &J) -> J {
    match api {
        // decode through a chunking / interrupting reader; must equal the plain decode (C11)
        "zinc_decode_chunked" => {
            let data = vj::unhex(case["in"].as_str().unwrap());
            let mut rd = Chunky { data, pos: 0, chunk: case["chunk"].as_u64().unwrap_or(1) as usize, intr: case["intr"].as_u64().unwrap_or(0) as usize, calls: 0 };
            let r = zinc::decode::parser::Parser::make(&mut rd).and_then(|mut p| p.parse_value());
            match r { Ok(v) => json!({"ok": vj::to(&v)}), Err(e) => json!({"err": e.to_string()}) }
        }
        // lazy rows: bytes consumed from the reader at the moment each row is handed out
        "zinc_lazy_positions" => {
            let data = vj::unhex(case["in"].as_str().unwrap());
            let mut rd = Chunky { data, pos: 0, chunk: 1, intr: 0, calls: 0 };
            let p: *const Chunky = &rd;
            let mut parser = match zinc::decode::parser::Parser::make(&mut rd) { Ok(p) => p, Err(e) => return json!({"err": e.to_string()}) };
            let mut out = vec![];
            match zinc::decode::parse_grid_iterator(&mut parser) {
                Ok(it) => {
                    for r in it {
                        let pos = unsafe { (*p).pos };
                        match r { Ok(d) => out.push(json!({"pos": pos, "row": vj::dict_to(&d)})), Err(e) => { out.push(json!({"pos": pos, "err": e.to_string()})); break; } }
                    }
                    json!({"ok": out})
                }
                Err(e) => json!({"err": e.to_string()}),
            }
        }
        other => crate::apis8::run(other, case),
    }
}
