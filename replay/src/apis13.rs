use serde_json::{json, Value as J};
pub fn run(api: &str, _case: &J) -> J { json!({"bad_api": api}) }
