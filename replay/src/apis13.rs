//! C API driver: runs a sequence of `extern "C"` calls over a pool of value handles.
//! case: {"api":"capi","pool":[vj..],"calls":[{"fn":name,"args":[..],"keep":bool}]}
//! args: {"h":i} handle of the pool | null (a null pointer) | {"s":hex} C string | {"outp":1} | {"filter":text} |
//!       {"b":bool} | {"f":hex bits} | {"n":"decimal"}
use crate::vj;
use libhaystack::c_api::err::last_error_message;
use libhaystack::c_api::str::haystack_string_destroy;
use libhaystack::c_api::value::haystack_value_destroy;
use libhaystack::filter::Filter;
use libhaystack::val::*;
use serde_json::{json, Value as J};
use std::ffi::{CStr, CString};
use std::os::raw::c_char;

pub struct St {
    pub pool: Vec<*mut Value>,
}

include!("capi_gen.rs");

fn sentinel() -> *const Value { 0x1usize as *const Value }

unsafe fn arg_value(a: &J, st: &St) -> *mut Value {
    if a.is_null() { return std::ptr::null_mut(); }
    st.pool[a["h"].as_u64().unwrap() as usize]
}

fn arg_cstr(a: &J) -> Option<CString> {
    if a.is_null() { return None; }
    Some(CString::new(vj::unhex(a["s"].as_str().unwrap())).expect("case strings have no NUL"))
}

fn arg_filter(a: &J) -> Option<Box<Filter>> {
    if a.is_null() { return None; }
    Some(Box::new(Filter::try_from(a["filter"].as_str().unwrap()).expect("case filters parse")))
}

unsafe fn ret_cstr(p: *const c_char) -> J {
    if p.is_null() { return J::Null; }
    let b = CStr::from_ptr(p).to_bytes().to_vec();
    haystack_string_destroy(p as *mut c_char);
    json!({"s": vj::hex(&b)})
}

/// the returned box stays alive until the caller decides (kept in the pool or destroyed)
static mut LAST_BOX: *mut Value = std::ptr::null_mut();

unsafe fn ret_box(b: Option<Box<Value>>) -> J {
    match b {
        Some(b) => { let j = json!({"v": vj::to(&b)}); LAST_BOX = Box::into_raw(b); j }
        None => J::Null,
    }
}

unsafe fn outp_json(o: *const Value, st: &St) -> J {
    if o == sentinel() { return json!("unset"); }
    if o.is_null() { return J::Null; }
    for (h, p) in st.pool.iter().enumerate() {
        if p.is_null() { continue; }
        match &**p {
            Value::List(l) => { for (i, e) in l.iter().enumerate() { if std::ptr::eq(e, o) { return json!({"h": h, "i": i, "v": vj::to(e)}); } } }
            Value::Dict(d) => { for (k, e) in d.iter() { if std::ptr::eq(e, o) { return json!({"h": h, "k": vj::hex(k.as_bytes()), "v": vj::to(e)}); } } }
            _ => {}
        }
    }
    json!({"dangling": true})
}

pub fn run(api: &str, case: &J) -> J {
    match api {
        "capi" => unsafe {
            let mut st = St { pool: Vec::new() };
            for v in case["pool"].as_array().unwrap() { st.pool.push(Box::into_raw(Box::new(vj::from(v)))); }
            // start from a clean error slot
            let e = last_error_message(); if !e.is_null() { haystack_string_destroy(e as *mut c_char); }
            let mut results = Vec::new();
            for c in case["calls"].as_array().unwrap() {
                let name = c["fn"].as_str().unwrap();
                let args = c["args"].as_array().unwrap();
                LAST_BOX = std::ptr::null_mut();
                let mut r = match call(name, args, &mut st) { Some(r) => r, None => json!({"unknown_fn": name}) };
                if name == "haystack_value_destroy" && !args[0].is_null() { let h = args[0]["h"].as_u64().unwrap() as usize; st.pool[h] = std::ptr::null_mut(); }
                if !LAST_BOX.is_null() {
                    if c["keep"].as_bool().unwrap_or(false) { st.pool.push(LAST_BOX); r["kept"] = json!(st.pool.len() - 1); } else { haystack_value_destroy(LAST_BOX); }
                    LAST_BOX = std::ptr::null_mut();
                }
                let e = last_error_message();
                r["err"] = if e.is_null() { J::Null } else { let b = CStr::from_ptr(e).to_bytes().to_vec(); haystack_string_destroy(e as *mut c_char); J::String(vj::hex(&b)) };
                let e2 = last_error_message();
                r["err_cleared"] = J::Bool(e2.is_null());
                if !e2.is_null() { haystack_string_destroy(e2 as *mut c_char); }
                r["pool"] = J::Array(st.pool.iter().map(|p| if p.is_null() { J::Null } else { vj::to(&**p) }).collect());
                results.push(r);
            }
            for p in st.pool.iter() { if !p.is_null() { haystack_value_destroy(*p); } }
            json!({"ok": results})
        },
        "capi_functions" => json!({"ok": FUNCTIONS}),
        // &Unit * &Unit and &Unit / &Unit on database units given by name
        "unit_muldiv" => {
            use libhaystack::units::get_unit;
            let a = get_unit(case["a"].as_str().unwrap()).expect("unit a");
            let b = get_unit(case["b"].as_str().unwrap()).expect("unit b");
            let r = if case["op"] == "mul" { a * b } else { a / b };
            let d = |u: &libhaystack::units::Unit| u.dimensions.map(|x| vec![x.kg, x.m, x.sec, x.k, x.a, x.mol, x.cd]);
            match r {
                Ok(u) => json!({"ok": {"name": u.name(), "dims": d(u), "scale": format!("{:016x}", u.scale.to_bits()),
                                       "a": {"dims": d(a), "scale": format!("{:016x}", a.scale.to_bits())}, "b": {"dims": d(b), "scale": format!("{:016x}", b.scale.to_bits())}}}),
                Err(e) => json!({"ok": {"err": e}}),
            }
        }
        // Number * / Number next to the unit operator on the same two units
        "number_muldiv" => {
            use libhaystack::units::get_unit;
            use libhaystack::val::Number;
            let fb = |k: &str| f64::from_bits(u64::from_str_radix(case[k].as_str().unwrap(), 16).unwrap());
            let un = |k: &str| if case[k].is_null() { None } else { Some(get_unit(case[k].as_str().unwrap()).expect("unit")) };
            let (x, y) = (fb("x"), fb("y"));
            let a = Number { value: x, unit: un("a") }; let b = Number { value: y, unit: un("b") };
            let (ua, ub) = (un("ua").unwrap(), un("ub").unwrap());
            let mul = case["op"] == "mul";
            let uop = if mul { ua * ub } else { ua / ub };
            let r = if mul { a * b } else { a / b };
            let want = if mul { x * y } else { x / y };
            let name = |u: Option<&libhaystack::units::Unit>| match u { Some(u) => J::String(u.name().to_string()), None => J::Null };
            let (number, value_ok) = match r { Ok(n) => (name(n.unit), n.value.to_bits() == want.to_bits() || (n.value.is_nan() && want.is_nan())), Err(_) => (J::String("ERR".into()), true) };
            json!({"ok": {"number": number, "value_ok": value_ok, "unit_op": match uop { Ok(u) => name(Some(u)), Err(_) => J::String("ERR".into()) }}})
        }
        // units::match_units(dim, scale) -> names, dims and scales of the returned database units
        "match_units" => {
            use libhaystack::units::{match_units, unit_dimension::UnitDimensions};
            let d: Vec<i8> = case["dims"].as_array().unwrap().iter().map(|x| x.as_i64().unwrap() as i8).collect();
            let dim = UnitDimensions { kg: d[0], m: d[1], sec: d[2], k: d[3], a: d[4], mol: d[5], cd: d[6] };
            let scale = f64::from_bits(u64::from_str_radix(case["scale"].as_str().unwrap(), 16).unwrap());
            let mut out: Vec<J> = match_units(dim, scale).iter().map(|u| json!({"name": u.name(), "scale": format!("{:016x}", u.scale.to_bits()),
                "dims": u.dimensions.map(|x| vec![x.kg, x.m, x.sec, x.k, x.a, x.mol, x.cd])})).collect();
            out.sort_by_key(|j| j["name"].as_str().unwrap().to_string()); out.dedup();
            json!({"ok": out})
        }
        // cache invisibility: q2 after q1 on one namespace ("warm") against q2 on a fresh one ("cold")
        "ns_history" => {
            use libhaystack::defs::namespace::{DefDict, Namespace};
            let mk = || -> &'static Namespace<'static> { match vj::from(&case["defs"]) { Value::Grid(g) => Box::leak(Box::new(Namespace::make(g))), _ => panic!("defs grid") } };
            let names = |v: Vec<&Dict>| -> J { let mut n: Vec<String> = v.iter().map(|d| vj::hex(d.def_name().as_bytes())).collect(); n.sort(); n.dedup(); json!(n) };
            let ask = |ns: &'static Namespace<'static>, q: &J| -> J {
                let sym = Symbol::from(vj::uhs(&q["sym"]).as_str());
                let base = Symbol::from(vj::uhs(&q["base"]).as_str());
                match q["op"].as_str().unwrap() {
                    "supertypes" => names(ns.supertypes_of(&sym).clone()),
                    "all_supertypes" => names(ns.all_supertypes_of(&sym)),
                    "inheritance" => names(ns.inheritance(&sym).clone()),
                    "fits" => json!(ns.fits(&sym, &base)),
                    "reflect" => { let rec = vj::dict_from(&q["rec"]); let r = ns.reflect(&rec); json!({"defs": names(r.defs.clone()), "fits": r.fits(&base), "entity": vj::dict_to(&r.entity_type)}) }
                    other => json!({"bad_op": other}),
                }
            };
            let a = mk();
            let _ = ask(a, &case["q1"]);
            let warm = ask(a, &case["q2"]);
            let cold = ask(mk(), &case["q2"]);
            json!({"ok": {"warm": warm, "cold": cold}})
        }
        // namespace queries: {"defs": vj grid, "sym": hex, "base": hex, "rec": vj dict | null}
        "ns_query" => {
            use libhaystack::defs::namespace::{DefDict, Namespace};
            let defs = match vj::from(&case["defs"]) { Value::Grid(g) => g, _ => panic!("defs grid") };
            let ns: &'static Namespace<'static> = Box::leak(Box::new(Namespace::make(defs)));
            let sym = Symbol::from(vj::uhs(&case["sym"]).as_str());
            let base = Symbol::from(vj::uhs(&case["base"]).as_str());
            let names = |v: Vec<&Dict>| -> J { let mut n: Vec<String> = v.iter().map(|d| vj::hex(d.def_name().as_bytes())).collect(); n.sort(); json!(n) };
            let mut out = serde_json::Map::new();
            out.insert("has".into(), json!(ns.has(&sym)));
            out.insert("supertypes".into(), names(ns.supertypes_of(&sym).clone()));
            out.insert("all_supertypes".into(), names(ns.all_supertypes_of(&sym)));
            out.insert("subtypes".into(), names(ns.subtypes_of(&sym).iter().collect()));
            out.insert("all_subtypes".into(), names(ns.all_subtypes_of(&sym)));
            out.insert("inheritance".into(), names(ns.inheritance(&sym).clone()));
            out.insert("fits".into(), json!(ns.fits(&sym, &base)));
            out.insert("fits_marker".into(), json!(ns.fits_marker(&sym)));
            out.insert("fits_val".into(), json!(ns.fits_val(&sym)));
            out.insert("fits_choice".into(), json!(ns.fits_choice(&sym)));
            out.insert("fits_entity".into(), json!(ns.fits_entity(&sym)));
            if !case["rec"].is_null() {
                let rec = vj::dict_from(&case["rec"]);
                let r = ns.reflect(&rec);
                out.insert("reflect".into(), names(r.defs.clone()));
                out.insert("reflect_fits".into(), json!(r.fits(&base)));
                let f = Filter::try_from(format!("^{}", base.value).as_str());
                if let Ok(f) = f {
                    use libhaystack::filter::{eval::EvalContext, Eval};
                    let ctx = EvalContext::make(&rec, ns, &rec);
                    out.insert("filter".into(), json!(f.eval(&ctx)));
                }
            }
            json!({"ok": J::Object(out)})
        }
        // what the Rust API gives for the same inputs (the reference for the entry points that only forward)
        "capi_rust" => {
            use libhaystack::encoding::zinc;
            use libhaystack::filter::{Filtered, ListFiltered};
            let mut pool: Vec<Value> = case["pool"].as_array().unwrap().iter().map(vj::from).collect();
            let name = case["fn"].as_str().unwrap();
            let a = case["args"].as_array().unwrap();
            let val = |i: usize, pool: &Vec<Value>| -> Option<Value> { if a[i].is_null() { None } else { Some(pool[a[i]["h"].as_u64().unwrap() as usize].clone()) } };
            let text = |i: usize| -> Option<Option<String>> { if a[i].is_null() { None } else { Some(String::from_utf8(vj::unhex(a[i]["s"].as_str().unwrap())).ok()) } };
            let filt = |i: usize| -> Option<Filter> { if a[i].is_null() { None } else { Some(Filter::try_from(a[i]["filter"].as_str().unwrap()).unwrap()) } };
            let cstr_ok = |s: &str| !s.as_bytes().contains(&0);
            let fail = |sent: J, pool: &Vec<Value>| json!({"ret": sent, "err": true, "pool": pool.iter().map(vj::to).collect::<Vec<_>>()});
            let done = |ret: J, pool: &Vec<Value>| json!({"ret": ret, "err": false, "pool": pool.iter().map(vj::to).collect::<Vec<_>>()});
            let out = match name {
                "haystack_value_to_zinc_string" => match val(0, &pool) {
                    Some(v) => match zinc::encode::to_zinc_string(&v) { Ok(s) if cstr_ok(&s) => done(json!({"s": vj::hex(s.as_bytes())}), &pool), _ => fail(J::Null, &pool) },
                    None => fail(J::Null, &pool),
                },
                "haystack_value_to_json_string" => match val(0, &pool) {
                    Some(v) => match serde_json::to_string(&v) { Ok(s) if cstr_ok(&s) => done(json!({"s": vj::hex(s.as_bytes())}), &pool), _ => fail(J::Null, &pool) },
                    None => fail(J::Null, &pool),
                },
                "haystack_value_from_zinc_string" => match text(0) {
                    Some(Some(t)) => match zinc::decode::from_str(&t) { Ok(v) => done(json!({"v": vj::to(&v)}), &pool), Err(_) => fail(J::Null, &pool) },
                    _ => fail(J::Null, &pool),
                },
                "haystack_value_from_json_string" => match text(0) {
                    Some(Some(t)) => match serde_json::from_str::<Value>(&t) { Ok(v) => done(json!({"v": vj::to(&v)}), &pool), Err(_) => fail(J::Null, &pool) },
                    _ => fail(J::Null, &pool),
                },
                "haystack_filter_parse" => match text(0) {
                    Some(Some(t)) => match Filter::try_from(t.as_str()) { Ok(f) => done(json!({"filter": f.to_string()}), &pool), Err(_) => fail(J::Null, &pool) },
                    _ => fail(J::Null, &pool),
                },
                "haystack_filter_match_dict" => match (filt(0), val(1, &pool)) {
                    (Some(f), Some(Value::Dict(d))) => done(json!({"r": if d.filter(&f) { 1 } else { 0 }}), &pool),
                    _ => fail(json!({"r": -1}), &pool),
                },
                "haystack_filter_first_match_in_grid" => match (filt(0), val(1, &pool)) {
                    (Some(f), Some(Value::Grid(g))) if !a[2].is_null() => match g.filter(&f) {
                        Some(d) => { let h = a[2]["h"].as_u64().unwrap() as usize; pool[h] = Value::Dict(d.clone()); done(json!({"r": 1}), &pool) }
                        None => done(json!({"r": 0}), &pool),
                    },
                    _ => fail(json!({"r": -1}), &pool),
                },
                "haystack_filter_match_all_grid" => match (filt(0), val(1, &pool)) {
                    (Some(f), Some(Value::Grid(g))) if !a[2].is_null() => {
                        let rows: Vec<Dict> = g.filter_all(&f).into_iter().cloned().collect();
                        let res = match &g.meta { Some(m) => Grid::make_from_dicts_with_meta(rows, m.clone()), None => Grid::make_from_dicts(rows) };
                        let r = if res.is_empty() { 0 } else { 1 };
                        let h = a[2]["h"].as_u64().unwrap() as usize; pool[h] = Value::Grid(res); done(json!({"r": r}), &pool)
                    }
                    _ => fail(json!({"r": -1}), &pool),
                },
                "haystack_value_get_number_unit" => match val(0, &pool) {
                    Some(Value::Number(n)) => match n.unit { Some(u) => done(json!({"s": vj::hex(u.symbol().as_bytes())}), &pool), None => done(J::Null, &pool) },
                    _ => fail(J::Null, &pool),
                },
                "haystack_value_make_tz_datetime" => match (val(0, &pool), val(1, &pool), text(2)) {
                    (Some(Value::Date(d)), Some(Value::Time(t)), Some(Some(z))) => {
                        use chrono::{Offset, TimeZone};
                        let utc = chrono::Utc.from_utc_datetime(&chrono::NaiveDateTime::new(*d, *t));
                        match libhaystack::timezone::make_date_time_with_tz(&utc.with_timezone(&chrono::Utc.fix()), &z) {
                            Ok(dt) => done(json!({"v": vj::to(&Value::DateTime(dt.into()))}), &pool),
                            Err(_) => fail(J::Null, &pool),
                        }
                    }
                    _ => fail(J::Null, &pool),
                },
                other => json!({"no_rust_reference": other}),
            };
            json!({"ok": out})
        }
        other => json!({"bad_api": other}),
    }
}
