use crate::vj;
use libhaystack::val::*;
use serde_json::{json, Value as J};

pub fn run(api: &str, case: &J) -> J {
    match api {
        "rfc3339" => {
            let text = String::from_utf8(vj::unhex(case["in"].as_str().unwrap())).unwrap_or_default();
            let r = if case["tz"].is_null() { DateTime::parse_from_rfc3339(&text) } else { DateTime::parse_from_rfc3339_with_timezone(&text, case["tz"].as_str().unwrap()) };
            match r { Ok(d) => json!({"ok": vj::dt_to(&d)}), Err(e) => json!({"err": e}) }
        }
        other => crate::apis11::run(other, case),
    }
}
