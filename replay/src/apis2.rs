use crate::vj;
use libhaystack::filter::nodes::*;
use libhaystack::filter::path::Path;
use libhaystack::filter::Filter;
use libhaystack::val::*;
use serde_json::{json, Value as J};

fn path_to(p: &Path) -> J { J::Array(p.iter().map(|s| vj::hs(&s.to_string())).collect()) }

pub fn or_to(o: &Or) -> J { json!({"or": o.ands.iter().map(and_to).collect::<Vec<_>>()}) }
fn and_to(a: &And) -> J { json!({"and": a.terms.iter().map(term_to).collect::<Vec<_>>()}) }
fn op_name(o: &CmpOp) -> &'static str {
    match o { CmpOp::Eq => "Eq", CmpOp::NotEq => "NotEq", CmpOp::LessThan => "LessThan", CmpOp::LessThanEq => "LessThanEq", CmpOp::GreatThan => "GreatThan", CmpOp::GreatThanEq => "GreatThanEq" }
}
fn term_to(t: &Term) -> J {
    match t {
        Term::Parens(p) => json!({"parens": or_to(&p.or)}),
        Term::Has(h) => json!({"has": path_to(&h.path)}),
        Term::Missing(m) => json!({"missing": path_to(&m.path)}),
        Term::IsA(i) => json!({"isa": vj::hs(&i.symbol.value)}),
        Term::WildcardEq(w) => json!({"weq": {"id": path_to(&w.id), "ref": vj::to(&Value::Ref(w.ref_value.clone()))}}),
        Term::Relation(r) => json!({"rel": {"rel": vj::hs(&r.rel.value), "term": r.rel_term.as_ref().map(|s| vj::hs(&s.value)),
                                      "ref": r.ref_value.as_ref().map(|r| vj::to(&Value::Ref(r.clone())))}}),
        Term::Cmp(c) => json!({"cmp": {"path": path_to(&c.path), "op": op_name(&c.op), "v": vj::to(&c.value)}}),
    }
}

pub fn run(api: &str, case: &J) -> J {
    match api {
        "filter_parse" => {
            let data = vj::unhex(case["in"].as_str().unwrap());
            let text = match std::str::from_utf8(&data) { Ok(t) => t, Err(_) => return json!({"bad_case": "not utf-8"}) };
            match Filter::try_from(text) {
                Ok(f) => json!({"ok": or_to(&f.or), "text": vj::hex(f.to_string().as_bytes())}),
                Err(e) => json!({"err": e.to_string()}),
            }
        }
        "filter_reparse" => {
            // print-then-parse on a parsed filter
            let data = vj::unhex(case["in"].as_str().unwrap());
            let text = std::str::from_utf8(&data).unwrap();
            match Filter::try_from(text) {
                Ok(f) => {
                    let printed = f.to_string();
                    match Filter::try_from(printed.as_str()) {
                        Ok(g) => json!({"ok": or_to(&g.or), "first": or_to(&f.or), "same": f == g, "text": vj::hex(printed.as_bytes())}),
                        Err(e) => json!({"err2": e.to_string(), "first": or_to(&f.or), "text": vj::hex(printed.as_bytes())}),
                    }
                }
                Err(e) => json!({"err": e.to_string()}),
            }
        }
        other => crate::apis3::run(other, case),
    }
}
