use crate::vj;
use libhaystack::units::get_unit;
use libhaystack::val::*;
use serde_json::{json, Value as J};

pub fn run(api: &str, case: &J) -> J {
    match api {
        // a unit identifier through lookup and both codecs
        "unit_survives" => {
            let id = vj::uhs(&case["id"]);
            let u = match get_unit(&id) { Some(u) => u, None => return json!({"ok": {"lookup": null}}) };
            let n = Value::Number(Number { value: 1.5, unit: Some(u) });
            let z = libhaystack::encoding::zinc::encode::to_zinc_string(&n).ok();
            let zd = z.as_ref().and_then(|t| libhaystack::encoding::zinc::decode::from_str(t).ok());
            let zid = format!("1.5{}", id);
            let zd_id = libhaystack::encoding::zinc::decode::from_str(&zid).ok();
            let j = serde_json::to_string(&n).ok();
            let jd = j.as_ref().and_then(|t| serde_json::from_str::<Value>(t).ok());
            json!({"ok": {"lookup": u.name(), "symbol": u.symbol(), "zinc": z, "zinc_same": zd.as_ref() == Some(&n), "zinc_by_id_same": zd_id.as_ref() == Some(&n),
                          "json": j, "json_same": jd.as_ref() == Some(&n)}})
        }
        other => crate::apis12::run(other, case),
    }
}
