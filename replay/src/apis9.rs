use crate::vj;
use libhaystack::val::*;
use serde_json::{json, Value as J};

/// canonical description of a JSON tree (keeps integer/float distinction and member order)
pub fn tj(v: &J) -> J {
    match v {
        J::Null => J::Null,
        J::Bool(b) => json!(b),
        J::Number(n) => {
            if let Some(i) = n.as_i64() { if i < 0 { return json!({"$n": "i", "v": i.to_string()}); } }
            if let Some(u) = n.as_u64() { return json!({"$n": "u", "v": u.to_string()}); }
            json!({"$n": "f", "v": format!("{:016x}", n.as_f64().unwrap().to_bits())})
        }
        J::String(s) => json!({"$s": vj::hex(s.as_bytes())}),
        J::Array(a) => J::Array(a.iter().map(tj).collect()),
        J::Object(o) => json!({"$m": o.iter().map(|(k, v)| json!([vj::hex(k.as_bytes()), tj(v)])).collect::<Vec<_>>()}),
    }
}

/// JSON text from a canonical tree description (member order as given)
pub fn untj(t: &J, out: &mut String) {
    match t {
        J::Null => out.push_str("null"),
        J::Bool(b) => out.push_str(if *b { "true" } else { "false" }),
        J::Array(a) => { out.push('['); for (i, x) in a.iter().enumerate() { if i > 0 { out.push(','); } untj(x, out); } out.push(']'); }
        J::Object(o) => {
            if let Some(s) = o.get("$s") { out.push_str(&serde_json::to_string(&vj::uhs(s)).unwrap()); }
            else if let Some(k) = o.get("$n") {
                let v = o["v"].as_str().unwrap();
                match k.as_str().unwrap() {
                    "f" => { let x = f64::from_bits(u64::from_str_radix(v, 16).unwrap()); out.push_str(&serde_json::to_string(&x).unwrap()); }
                    "t" => out.push_str(v),         // literal number text (spelling variants)
                    _ => out.push_str(v),
                }
            } else {
                out.push('{');
                for (i, kv) in o["$m"].as_array().unwrap().iter().enumerate() {
                    if i > 0 { out.push(','); }
                    out.push_str(&serde_json::to_string(&vj::uhs(&kv[0])).unwrap()); out.push(':'); untj(&kv[1], out);
                }
                out.push('}');
            }
        }
        _ => out.push_str("null"),
    }
}

pub fn run(api: &str, case: &J) -> J {
    match api {
        "json_encode" => {
            let v = vj::from(&case["v"]);
            match serde_json::to_value(&v) {
                Ok(t) => {
                    let text = serde_json::to_string(&v).unwrap_or_default();
                    json!({"ok": tj(&t), "text": vj::hex(text.as_bytes())})
                }
                Err(e) => json!({"err": e.to_string()}),
            }
        }
        "json_decode" => {
            let mut text = String::new();
            if case["text"].is_null() { untj(&case["tree"], &mut text); } else { text = String::from_utf8(vj::unhex(case["text"].as_str().unwrap())).unwrap_or_default(); }
            match serde_json::from_str::<Value>(&text) { Ok(v) => json!({"ok": vj::to(&v), "text": vj::hex(text.as_bytes())}), Err(e) => json!({"err": e.to_string(), "text": vj::hex(text.as_bytes())}) }
        }
        "json_roundtrip" => {
            let v = vj::from(&case["v"]);
            let text = match serde_json::to_string(&v) { Ok(t) => t, Err(e) => return json!({"enc_err": e.to_string()}) };
            match serde_json::from_str::<Value>(&text) {
                Ok(v2) => json!({"ok": vj::to(&v2), "text": vj::hex(text.as_bytes()), "same": vj::to(&v2) == vj::to(&v)}),
                Err(e) => json!({"err": e.to_string(), "text": vj::hex(text.as_bytes())}),
            }
        }
        other => crate::apis10::run(other, case),
    }
}
