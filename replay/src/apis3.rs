use serde_json::{json, Value as J};

#[path = "../../kani/src/shared.rs"]
#[allow(dead_code)]
mod shared;
use shared::{bodies, Chk, Src};

struct CSrc { vals: Vec<Vec<u8>>, i: usize }
impl CSrc {
    fn next(&mut self, n: usize) -> Vec<u8> {
        let mut v = if self.i < self.vals.len() { self.vals[self.i].clone() } else { vec![] };
        self.i += 1; v.resize(n, 0); v
    }
}
impl Src for CSrc {
    fn u8(&mut self) -> u8 { self.next(1)[0] }
    fn i8(&mut self) -> i8 { self.next(1)[0] as i8 }
    fn u64(&mut self) -> u64 { let v = self.next(8); u64::from_le_bytes([v[0], v[1], v[2], v[3], v[4], v[5], v[6], v[7]]) }
}
#[derive(Default)]
struct CChk { failed: Vec<String>, assumption_violated: bool, covered: Vec<String> }
impl Chk for CChk {
    fn assume(&mut self, c: bool) { if !c { self.assumption_violated = true; } }
    fn check(&mut self, c: bool, msg: &'static str) { if !c && !self.assumption_violated { self.failed.push(msg.to_string()); } }
    fn cover(&mut self, c: bool, msg: &'static str) { if c { self.covered.push(msg.to_string()); } }
}

pub fn run(api: &str, case: &J) -> J {
    match api {
        // re-run a Kani harness body natively on the concrete inputs of a counterexample
        "kani_body" => {
            let vals: Vec<Vec<u8>> = case["inputs"].as_array().unwrap().iter()
                .map(|v| v.as_array().unwrap().iter().map(|b| b.as_u64().unwrap() as u8).collect()).collect();
            let mut s = CSrc { vals, i: 0 };
            let mut c = CChk::default();
            match case["name"].as_str().unwrap() {
                "coord_eq_hash" => bodies::coord_eq_hash(&mut s, &mut c),
                "coord_ord" => bodies::coord_ord(&mut s, &mut c),
                "coord_transitive" => bodies::coord_transitive(&mut s, &mut c),
                "kind_codes" => bodies::kind_codes(&mut s, &mut c),
                "dims_add_sub" => bodies::dims_add_sub(&mut s, &mut c),
                other => return json!({"bad_case": other}),
            }
            json!({"ok": {"failed": c.failed, "assumption_violated": c.assumption_violated, "covered": c.covered}})
        }
        other => crate::apis4::run(other, case),
    }
}
