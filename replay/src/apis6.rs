use libhaystack::units::{Unit, UnitDimensions};
use libhaystack::val::Number;
use serde_json::{json, Value as J};

fn f(j: &J) -> f64 { f64::from_bits(u64::from_str_radix(j.as_str().unwrap(), 16).unwrap()) }
fn bits(x: f64) -> String { format!("{:016x}", x.to_bits()) }

fn unit(j: &J) -> &'static Unit {
    let dims = if j["dims"].is_null() { None } else {
        let d: Vec<i8> = j["dims"].as_array().unwrap().iter().map(|x| x.as_i64().unwrap() as i8).collect();
        Some(UnitDimensions { kg: d[0], m: d[1], sec: d[2], k: d[3], a: d[4], mol: d[5], cd: d[6] })
    };
    Box::leak(Box::new(Unit {
        quantity: j["quantity"].as_str().map(|s| s.to_string()),
        ids: j["ids"].as_array().unwrap().iter().map(|s| s.as_str().unwrap().to_string()).collect(),
        dimensions: dims, scale: f(&j["scale"]), offset: f(&j["offset"]),
    }))
}

pub fn run(api: &str, case: &J) -> J {
    match api {
        "convert" => {
            let a = unit(&case["a"]); let b = unit(&case["b"]);
            match a.convert_to(f(&case["x"]), b) { Ok(v) => json!({"ok": bits(v)}), Err(_) => json!({"ok": null}) }
        }
        "number_arith" => {
            let ua = if case["ua"].is_null() { None } else { Some(unit(&case["ua"])) };
            let ub = if case["same_unit"].as_bool().unwrap_or(false) { ua } else if case["ub"].is_null() { None } else { Some(unit(&case["ub"])) };
            let a = Number { value: f(&case["x"]), unit: ua }; let b = Number { value: f(&case["y"]), unit: ub };
            let r = match case["op"].as_str().unwrap() { "add" => a + b, "sub" => a - b, "mul" => a * b, _ => a / b };
            match r {
                Ok(n) => json!({"ok": {"bits": bits(n.value), "unit": n.unit.map(|u| u.ids.clone()), "unit_is_a": n.unit.map(|u| std::ptr::eq(u, ua.unwrap_or(u)) && ua.is_some()),
                                        "unit_is_b": n.unit.map(|u| ub.is_some() && std::ptr::eq(u, ub.unwrap()))}}),
                Err(_) => json!({"ok": null}),
            }
        }
        other => crate::apis7::run(other, case),
    }
}
