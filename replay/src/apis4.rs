use crate::vj;
use libhaystack::val::*;
use serde_json::{json, Value as J};
use std::cmp::Ordering;
use std::hash::{Hash, Hasher};

#[derive(Default, PartialEq)]
struct Rec { s: Vec<(u8, Vec<u8>)> }
impl Hasher for Rec {
    fn write(&mut self, b: &[u8]) { self.s.push((0, b.to_vec())) }
    fn write_u8(&mut self, i: u8) { self.s.push((1, vec![i])) }
    fn write_u32(&mut self, i: u32) { self.s.push((4, i.to_le_bytes().to_vec())) }
    fn write_u64(&mut self, i: u64) { self.s.push((8, i.to_le_bytes().to_vec())) }
    fn write_usize(&mut self, i: usize) { self.s.push((9, i.to_le_bytes().to_vec())) }
    fn write_i8(&mut self, i: i8) { self.s.push((11, vec![i as u8])) }
    fn write_i32(&mut self, i: i32) { self.s.push((14, i.to_le_bytes().to_vec())) }
    fn write_i64(&mut self, i: i64) { self.s.push((18, i.to_le_bytes().to_vec())) }
    fn write_isize(&mut self, i: isize) { self.s.push((19, i.to_le_bytes().to_vec())) }
    fn finish(&self) -> u64 { 0 }
}
fn stream(v: &Value) -> Rec { let mut r = Rec::default(); v.hash(&mut r); r }
fn ord(o: Ordering) -> i32 { match o { Ordering::Less => -1, Ordering::Equal => 0, Ordering::Greater => 1 } }

/// the Eq/Hash/Ord laws of C12 evaluated natively on concrete values; returns the facts and the violated laws
pub fn laws(a: &Value, b: &Value, c: Option<&Value>) -> J {
    let mut bad: Vec<&str> = vec![];
    let eq_ab = a == b; let eq_ba = b == a;
    let cmp_ab = a.cmp(b); let cmp_ba = b.cmp(a);
    let p_ab = a.partial_cmp(b);
    let hs = stream(a) == stream(b);
    if !(a == a) { bad.push("eq-reflexive"); }
    if eq_ab != eq_ba { bad.push("eq-symmetric"); }
    if !(a.clone() == *a) { bad.push("clone-eq"); }
    if eq_ab && !hs { bad.push("eq-implies-hash"); }
    if (cmp_ab == Ordering::Equal) != eq_ab { bad.push("cmp-equal-iff-eq"); }
    if let Some(p) = p_ab { if p != cmp_ab { bad.push("partial-agrees-with-total"); } }
    if cmp_ab != cmp_ba.reverse() { bad.push("cmp-antisymmetric"); }
    let mut out = json!({"eq": eq_ab, "eq_rev": eq_ba, "cmp": ord(cmp_ab), "cmp_rev": ord(cmp_ba), "pcmp": p_ab.map(ord), "hash_same": hs});
    if let Some(c) = c {
        if eq_ab && b == c && !(a == c) { bad.push("eq-transitive"); }
        if cmp_ab != Ordering::Greater && b.cmp(c) != Ordering::Greater && a.cmp(c) == Ordering::Greater { bad.push("cmp-transitive"); }
        out["eq_bc"] = json!(b == c); out["eq_ac"] = json!(a == c); out["cmp_bc"] = json!(ord(b.cmp(c))); out["cmp_ac"] = json!(ord(a.cmp(c)));
    }
    out["violated"] = json!(bad);
    out
}

pub fn run(api: &str, case: &J) -> J {
    match api {
        "eqord" => {
            let a = vj::from(&case["a"]); let b = vj::from(&case["b"]);
            let c = if case["c"].is_null() { None } else { Some(vj::from(&case["c"])) };
            json!({"ok": laws(&a, &b, c.as_ref())})
        }
        other => crate::apis5::run(other, case),
    }
}
