use crate::vj;
use libhaystack::val::kind::HaystackKind;
use libhaystack::val::*;
use serde_json::{json, Value as J};

fn preds(v: &Value) -> Vec<&'static str> {
    let all: [(&str, bool); 18] = [("is_null", v.is_null()), ("is_remove", v.is_remove()), ("is_marker", v.is_marker()), ("is_bool", v.is_bool()),
        ("is_na", v.is_na()), ("is_number", v.is_number()), ("is_str", v.is_str()), ("is_ref", v.is_ref()), ("is_symbol", v.is_symbol()),
        ("is_uri", v.is_uri()), ("is_date", v.is_date()), ("is_time", v.is_time()), ("is_datetime", v.is_datetime()), ("is_coord", v.is_coord()),
        ("is_xstr", v.is_xstr()), ("is_list", v.is_list()), ("is_dict", v.is_dict()), ("is_grid", v.is_grid())];
    all.iter().filter(|p| p.1).map(|p| p.0).collect()
}

fn conversions(v: &Value) -> Vec<&'static str> {
    let mut out = vec![];
    macro_rules! t { ($ty:ty, $name:literal, $var:ident) => {
        if let Ok(x) = <$ty>::try_from(v) { out.push($name); if Value::$var(x.clone()) != *v { out.push(concat!($name, "-payload-differs")); } }
    }; }
    t!(Bool, "Bool", Bool); t!(Number, "Number", Number); t!(Str, "Str", Str); t!(Ref, "Ref", Ref); t!(Uri, "Uri", Uri); t!(Symbol, "Symbol", Symbol);
    t!(Date, "Date", Date); t!(Time, "Time", Time); t!(DateTime, "DateTime", DateTime); t!(Coord, "Coord", Coord); t!(XStr, "XStr", XStr);
    t!(Dict, "Dict", Dict); t!(Grid, "Grid", Grid);
    if let Ok(x) = List::try_from(v) { out.push("Vec"); if Value::List(x) != *v { out.push("Vec-payload-differs"); } }
    // conversions to primitives
    if let Ok(x) = bool::try_from(v) { out.push("bool"); if Value::make_bool(x) != *v { out.push("bool-payload-differs"); } }
    if let Ok(x) = f64::try_from(v) { out.push("f64"); match v { Value::Number(n) if n.value.to_bits() == x.to_bits() || (n.value == x) => {}, _ => out.push("f64-payload-differs") } }
    if let Ok(x) = String::try_from(v) { out.push("String"); if Value::make_str(&x) != *v { out.push("String-payload-differs"); } }
    if Marker::try_from(v).is_ok() { out.push("Marker"); }
    if Na::try_from(v).is_ok() { out.push("Na"); }
    if Remove::try_from(v).is_ok() { out.push("Remove"); }
    out
}

fn getters(d: &Dict, key: &str) -> Vec<&'static str> {
    let mut out = vec![];
    macro_rules! g { ($m:ident, $name:literal) => { if d.$m(key).is_some() { out.push($name); } }; }
    g!(get_bool, "get_bool"); g!(get_num, "get_num"); g!(get_str, "get_str"); g!(get_xstr, "get_xstr"); g!(get_ref, "get_ref"); g!(get_uri, "get_uri");
    g!(get_symbol, "get_symbol"); g!(get_date, "get_date"); g!(get_time, "get_time"); g!(get_date_time, "get_date_time"); g!(get_coord, "get_coord");
    g!(get_dict, "get_dict"); g!(get_list, "get_list"); g!(get_grid, "get_grid");
    if d.has(key) { out.push("has"); }
    if d.has_marker(key) { out.push("has_marker"); }
    if d.has_na(key) { out.push("has_na"); }
    if d.has_remove(key) { out.push("has_remove"); }
    out
}

pub fn run(api: &str, case: &J) -> J {
    match api {
        "accessors" => {
            let v = vj::from(&case["v"]);
            let kind = HaystackKind::from(&v);
            let mut d = Dict::new();
            d.insert("k".into(), v.clone());
            json!({"ok": {"preds": preds(&v), "kind": kind as u8, "kind_name": <&str>::from(kind), "conv": conversions(&v),
                          "getters": getters(&d, "k"), "getters_missing": getters(&d, "zz")}})
        }
        "kind_code" => {
            let c = case["code"].as_u64().unwrap() as u8;
            match HaystackKind::try_from(c) { Ok(k) => json!({"ok": {"code": k as u8, "name": <&str>::from(k), "display": k.to_string()}}), Err(_) => json!({"ok": null}) }
        }
        "kind_name" => {
            let b = vj::unhex(case["in"].as_str().unwrap());
            let t = match std::str::from_utf8(&b) { Ok(t) => t, Err(_) => return json!({"bad_case": "utf8"}) };
            match HaystackKind::try_from(t) { Ok(k) => json!({"ok": {"code": k as u8}}), Err(_) => json!({"ok": null}) }
        }
        "grid_from_dicts" => {
            let rows: Vec<Dict> = case["rows"].as_array().unwrap().iter().map(vj::dict_from).collect();
            let g = if case["meta"].is_null() { Grid::make_from_dicts(rows) } else { Grid::make_from_dicts_with_meta(rows, vj::dict_from(&case["meta"])) };
            json!({"ok": vj::to(&Value::Grid(g))})
        }
        other => crate::apis6::run(other, case),
    }
}
