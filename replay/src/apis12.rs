use crate::vj;
use libhaystack::val::*;
use serde_json::{json, Value as J};
use std::borrow::Cow;

pub fn run(api: &str, case: &J) -> J {
    match api {
        "dis" => {
            let rec = vj::dict_from(&case["rec"]);
            let loc: Vec<(String, String)> = case["localized"].as_array().map(|a| a.iter().map(|kv| (vj::uhs(&kv[0]), vj::uhs(&kv[1]))).collect()).unwrap_or_default();
            let get = |key: &str| -> Option<Cow<'_, str>> { loc.iter().find(|kv| kv.0 == key).map(|kv| Cow::Owned(kv.1.clone())) };
            let def = if case["def"].is_null() { None } else { Some(Cow::Owned(vj::uhs(&case["def"]))) };
            let s = dict_to_dis(&rec, &get, def).to_string();
            json!({"ok": vj::hex(s.as_bytes())})
        }
        other => crate::apis13::run(other, case),
    }
}
