#!/bin/bash
# Build what the checks need from files on disk only (offline): the native replay binary (dependencies
# cached under /verif/.cache) and a first MIR dump of /repo's current tree.
set -e
cd "$(dirname "$0")"
export CARGO_NET_OFFLINE=true
mkdir -p .cache evidence replays
python3-vt - <<'PY'
import sys
sys.path.insert(0, '.')
from vlib import native
from mirsym import load
print('replay binary:', native.build('dev'))
print('replay binary (ASan):', native.build_asan())
p = load.program()
print('MIR bodies:', len(p.bodies))
from vlib import kani
res, wall, out = kani.run(['kind_codes'])
print('kani warm-up:', {k: v['status'] for k, v in res.items()}, '%.0fs' % wall)
PY
