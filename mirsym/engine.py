"""mirsym engine: statement compiler + path-based symbolic executor with decision-trace DFS."""
import re, time, math, struct
import z3
from .mirparse import split_top
from .program import *
from .values import *

BINOPS = {'Add', 'Sub', 'Mul', 'Div', 'Rem', 'BitXor', 'BitAnd', 'BitOr', 'Shl', 'Shr', 'Eq', 'Lt', 'Le', 'Ne', 'Ge', 'Gt',
          'Cmp', 'Offset', 'AddWithOverflow', 'SubWithOverflow', 'MulWithOverflow', 'AddUnchecked', 'SubUnchecked',
          'MulUnchecked', 'ShlUnchecked', 'ShrUnchecked'}
UNOPS = {'Not', 'Neg', 'PtrMetadata'}

(NOP, ASSIGN, CALL, GOTO, SWITCH, ASSERT, DROP, RETURN, UNREACHABLE, RESUME, SETDISCR) = range(11)

F64 = z3.Float64()
RNE = z3.RNE()


def balanced(t):
    d = 0
    for ch in t:
        if ch in '([': d += 1
        elif ch in ')]': d -= 1
        if d < 0: return False
    return d == 0


# --------------------------------------------------------------------------- static types
def deref_type(t):
    t = t.strip()
    for p in ('&mut ', '&', '*const ', '*mut '):
        if t.startswith(p): return t[len(p):].strip()
    m = re.match(r'^(?:std::boxed::)?Box<(.*)>$', t)
    if m: return split_top(m.group(1))[0]
    return t


def elem_type(t):
    t = t.strip()
    if t.startswith('['):
        inner = t[1:-1]
        parts = split_top(inner, ';')
        return parts[0].strip()
    m = re.match(r'^(?:std::vec::)?Vec<(.*)>$', t)
    if m: return split_top(m.group(1))[0]
    return None


class Compiler:
    def __init__(s, prog):
        s.prog = prog
        s.place_cache = {}

    # ----- places
    def place(s, t):
        t = t.strip()
        r = s.place_cache.get(t)
        if r is None:
            r = s._place(t)
            s.place_cache[t] = r
        return r

    def _place(s, t):
        if re.match(r'^_\d+$', t): return (t, ())
        if t.endswith(']'):
            # find matching '['
            d = 0; k = -1
            for i in range(len(t) - 1, -1, -1):
                if t[i] == ']': d += 1
                elif t[i] == '[':
                    d -= 1
                    if d == 0: k = i; break
            if k > 0:
                base = s._place(t[:k]); idx = t[k + 1:-1].strip()
                if re.match(r'^_\d+$', idx): return (base[0], base[1] + (('i', idx),))
                m = re.match(r'^(-?)(\d+) of (\d+)$', idx)
                if m: return (base[0], base[1] + (('ci', int(m.group(2)), bool(m.group(1))),))
                m = re.match(r'^(\d+)\.\.$', idx)
                if m: return (base[0], base[1] + (('sub', int(m.group(1)), None),))
                m = re.match(r'^(\d+):-(\d+)$', idx)
                if m: return (base[0], base[1] + (('sub', int(m.group(1)), int(m.group(2))),))
                raise Unsupported('place index ' + t)
        if t.startswith('(') and t.endswith(')') and balanced(t[1:-1]):
            inner = t[1:-1].strip()
            if inner.startswith('*'):
                b = s._place(inner[1:]); return (b[0], b[1] + (('d',),))
            for m in re.finditer(r'\.(\d+): ', inner):
                if balanced(inner[:m.start()]):
                    b = s._place(inner[:m.start()])
                    return (b[0], b[1] + (('f', int(m.group(1)), inner[m.end():]),))
            m = re.match(r'^(.*) as (\w+)$', inner)
            if m and balanced(m.group(1)):
                b = s._place(m.group(1)); return (b[0], b[1] + (('v', m.group(2)),))
            return s._place(inner)
        if t.startswith('*'):
            b = s._place(t[1:]); return (b[0], b[1] + (('d',),))
        raise Unsupported('place ' + t)

    def place_type(s, body, place):
        ty = body.locals.get(place[0])
        for p in place[1]:
            if ty is None: return None
            k = p[0]
            if k == 'd': ty = deref_type(ty)
            elif k == 'f': ty = p[2]
            elif k in ('i', 'ci'): ty = elem_type(ty)
        return ty

    # ----- operands
    def operand(s, body, t):
        t = t.strip()
        if t.startswith('no_retag '): t = t[9:]
        if t.startswith('copy '): return ('copy', s.place(t[5:]))
        if t.startswith('move '): return ('move', s.place(t[5:]))
        if t.startswith('const '): return ('const', s.const(body, t[6:].strip()))
        if re.match(r'^[<\w]', t): return ('const', ('named', strip_lifetimes(t)))   # bare fn item
        raise Unsupported('operand ' + t)

    def operand_type(s, body, op, text):
        if op[0] in ('copy', 'move'): return s.place_type(body, op[1])
        t = text.strip()
        m = re.match(r'^const -?\d+_(\w+)$', t)
        if m: return m.group(1)
        if re.match(r'^const (true|false)$', t): return 'bool'
        if re.match(r"^const '", t): return 'char'
        if re.search(r'f64$', t) or 'impl f64' in t: return 'f64'
        return None

    def const(s, body, t):
        """-> ('v', value) for immediate values or ('thunk', kind, data) evaluated at run time"""
        m = re.match(r'^(-?\d+)_(\w+)$', t)
        if m: return ('v', int(m.group(1)))
        if t == 'true': return ('v', True)
        if t == 'false': return ('v', False)
        if t == '()': return ('unit',)
        if t.startswith('"'):
            return ('str', _unescape_str(t))
        if t.startswith('b"'):
            return ('bytes', _unescape_bytes(t[1:]))
        if t.startswith("'"):
            return ('v', ord(_unescape_str('"' + t[1:-1].replace('"', '\\"') + '"').decode('utf-8')) if t != "'\"'" else 34)
        m = re.match(r'^(-?[\d.]+(?:[eE][-+]?\d+)?)f(64|32)$', t)
        if m: return ('v', float(m.group(1)))
        m = re.match(r'^([+-]?)(inf|NaN)_?f(64|32)$', t)
        if m: return ('v', float(('-' if m.group(1) == '-' else '') + ('inf' if m.group(2) == 'inf' else 'nan')))
        named = {'core::f64::<impl f64>::NAN': float('nan'), 'core::f64::<impl f64>::INFINITY': float('inf'),
                 'core::f64::<impl f64>::NEG_INFINITY': float('-inf'), 'u8::MAX': 255, 'core::num::<impl u32>::MAX': 2 ** 32 - 1,
                 'core::num::<impl usize>::MAX': 2 ** 64 - 1, 'core::num::<impl u64>::MAX': 2 ** 64 - 1,
                 'core::num::<impl i64>::MAX': 2 ** 63 - 1, 'core::num::<impl i64>::MIN': -2 ** 63,
                 'core::num::<impl u16>::MAX': 65535, 'core::num::<impl i32>::MAX': 2 ** 31 - 1,
                 'core::f64::<impl f64>::MAX': 1.7976931348623157e308, 'core::f64::<impl f64>::MIN': -1.7976931348623157e308,
                 'core::f64::<impl f64>::EPSILON': 2.220446049250313e-16}
        if t in named: return ('v', named[t])
        m = re.match(r'^(?:core::num::<impl )?(u8|u16|u32|u64|usize|i8|i16|i32|i64|isize)>?::(MIN|MAX)$', t)
        if m:
            bits, sg = INT_TY[m.group(1)]
            return ('v', ((1 << (bits - 1)) - 1 if sg else (1 << bits) - 1) if m.group(2) == 'MAX' else (-(1 << (bits - 1)) if sg else 0))
        m = re.match(r'^\{alloc(\d+): &(.*)\}$', t)
        if m: return ('static_ref', strip_lifetimes(m.group(2)), int(m.group(1)))
        m = re.match(r'^(.*)::promoted\[(\d+)\]$', t)
        if m: return ('promoted', int(m.group(2)))
        m = re.match(r'^ZeroSized: \{closure@(.*)\}$', t)
        if m: return ('closure', m.group(1))
        m = re.match(r'^(.*) as (\w+) \(IntToInt\)$', t)
        t = strip_lifetimes(t)
        # named constant / static / fn item / unit struct
        return ('named', t)

    # ----- rvalues
    def rvalue(s, body, t):
        t = t.strip()
        m = re.match(r'^((?:copy|move|const) .*) as (.+) \((\w+)(\(.*\))?\)$', t)
        if m and balanced(m.group(1)):
            op = s.operand(body, m.group(1))
            return ('cast', op, s.operand_type(body, op, m.group(1)), strip_lifetimes(m.group(2)), m.group(3))
        if t.startswith(('copy ', 'move ', 'const ', 'no_retag ')):
            return ('use', s.operand(body, t))
        # a function item turned into a function pointer: `path::to::f as for<'a> fn(..) -> .. (PointerCoercion(ReifyFnPointer(..), ..))`
        m = re.match(r'^(.*?) as (?:for<[^>]*> )?(?:unsafe )?(?:extern "[^"]*" )?fn\(.*\((?:PointerCoercion\()?(?:ReifyFnPointer|ClosureFnPointer).*\)$', t, re.S)
        if m and balanced(m.group(1)) and not m.group(1).startswith(('copy ', 'move ')):
            return s.rvalue(body, m.group(1))
        if t.startswith('&'):
            m = re.match(r'^&(raw const |raw mut |mut |fake shallow |fake )?(.*)$', t)
            return ('ref', s.place(m.group(2)))
        m = re.match(r'^discriminant\((.*)\)$', t)
        if m: return ('discr', s.place(m.group(1)))
        m = re.match(r'^(\w+)\((.*)\)$', t, re.S)
        if m and m.group(1) in BINOPS:
            a, b = split_top(m.group(2))
            oa = s.operand(body, a); ob = s.operand(body, b)
            ty = s.operand_type(body, oa, a) or s.operand_type(body, ob, b)
            return ('bin', m.group(1), oa, ob, ty)
        if m and m.group(1) in UNOPS:
            oa = s.operand(body, m.group(2))
            return ('un', m.group(1), oa, s.operand_type(body, oa, m.group(2)))
        if m and m.group(1) == 'Len': return ('len', s.place(m.group(2)))
        if m and m.group(1) == 'CopyForDeref': return ('use', ('copy', s.place(m.group(2))))
        if m and m.group(1) == 'ShallowInitBox':
            a = split_top(m.group(2)); return ('use', s.operand(body, a[0]))
        if t.startswith('(') and t.endswith(')'):
            inner = t[1:-1].strip()
            if inner.endswith(','): inner = inner[:-1]
            return ('tuple', [s.operand(body, x) for x in split_top(inner)] if inner else [])
        if t.startswith('[') and t.endswith(']'):
            parts = split_top(t[1:-1], ';')
            if len(parts) == 2:
                n = parts[1].strip()
                nm = re.match(r'^(?:const )?(\d+)(?:_usize)?$', n)
                if not nm: raise Unsupported('repeat len ' + n)
                return ('repeat', s.operand(body, parts[0]), int(nm.group(1)))
            return ('array', [s.operand(body, x) for x in split_top(t[1:-1])])
        if t.startswith('{closure@'):
            j = t.index('}')
            span = t[9:j]
            rest = t[j + 1:].strip()
            ops = []
            if rest.startswith('{'):
                for f in split_top(rest[1:-1].strip()):
                    ops.append(s.operand(body, f.split(': ', 1)[1]))
            return ('closure', span, ops)
        # bare function item (`_1 = <Value as PartialOrd>::ge;`, `_1 = core::str::<impl str>::len;`)
        if not t.endswith((')', '}', ']')) and re.search(r'::(?:<[^<>]*>::)?[a-z_]\w*(?:::<.*>)?$', t) and not re.search(r'::[A-Z]\w*$', t):
            return ('use', ('const', ('named', strip_lifetimes(t))))
        # ADT aggregate
        t2 = strip_lifetimes(t)
        m = re.match(r'^(.*?)\s*\{ (.*) \}$', t2, re.S)
        fields = None
        head = t2
        if m and not t2.endswith(')'):
            head = m.group(1); fields = [s.operand(body, f.split(': ', 1)[1]) for f in split_top(m.group(2))]
        elif t2.endswith(')'):
            # Variant(ops)
            d = 0; k = -1
            for i in range(len(t2) - 1, -1, -1):
                if t2[i] == ')': d += 1
                elif t2[i] == '(':
                    d -= 1
                    if d == 0: k = i; break
            head = t2[:k]; fields = [s.operand(body, x) for x in split_top(t2[k + 1:-1])]
        segs = split_path(head)
        names = [strip_generics(x) for x in segs if not x.startswith('<')]
        names = [n for n in names if n]
        return s._adt(names, fields or [], t)

    def _adt(s, names, fields, raw):
        prog = s.prog
        full = '::'.join(names)
        # try as Type::Variant
        if len(names) >= 2:
            tyc = prog.canon_type('::'.join(names[:-1]))
            vi = prog.variant_index(tyc, names[-1])
            if vi is not None:
                return ('adt', tyc, vi, fields)
        tyc = prog.canon_type(full)
        td = prog.typedef(tyc)
        if td is not None and td.kind == 'enum':
            raise Unsupported('aggregate of enum without variant ' + raw)
        if td is None and len(names) == 1:
            # bare foreign variant (e.g. `UnexpectedEof`, `Less`) or foreign unit struct
            for en, vs in STD_ENUMS.items():
                for i, (vn, d) in enumerate(vs):
                    if vn == names[0] and not fields:
                        return ('adt', en, i, fields)
            return ('adt', names[0], 0, fields) if fields else ('nominal', names[0])
        return ('adt', tyc, 0, fields)

    # ----- statements
    def stmt(s, body, st):
        if st == 'return;': return (RETURN,)
        if st.startswith(('StorageLive', 'StorageDead', 'nop', 'FakeRead', 'PlaceMention', 'AscribeUserType', 'Retag',
                          'Coverage', 'ConstEvalCounter', 'BackwardIncompatibleDropHint', 'Deinit')):
            return (NOP,)
        m = re.match(r'^goto -> (bb\d+);$', st)
        if m: return (GOTO, m.group(1))
        if st == 'unreachable;': return (UNREACHABLE,)
        if st.startswith(('resume', 'terminate(')): return (RESUME, st)
        m = re.match(r'^drop\((.*)\) -> \[return: (bb\d+)', st)
        if m: return (DROP, s.place(m.group(1)), m.group(2))
        m = re.match(r'^switchInt\((.*)\) -> \[(.*)\];$', st)
        if m:
            op = s.operand(body, m.group(1))
            ty = s.operand_type(body, op, m.group(1))
            targets = []; other = None
            for a in m.group(2).split(', '):
                k, t = a.split(': ')
                if k == 'otherwise': other = t
                else: targets.append((int(k), t))
            return (SWITCH, op, targets, other, ty)
        m = re.match(r'^assert\((!?)(.*?), "(.*)"(.*)\) -> \[success: (bb\d+)', st)
        if m:
            return (ASSERT, s.operand(body, m.group(2)), not m.group(1), m.group(3), m.group(5))
        m = re.match(r'^discriminant\((.*)\) = (\d+);$', st)
        if m: return (SETDISCR, s.place(m.group(1)), int(m.group(2)))
        # call?
        m = re.match(r'^(.+?) = (.+)\((.*)\) -> (?:\[return: (bb\d+)(?:, unwind[^\]]*)?\]|unwind[^;]*|(bb\d+));$', st, re.S)
        if m and not balanced(m.group(2)):
            # the greedy callee swallowed part of the argument list (`f(move _1, const ())`): re-split at the
            # parenthesis that matches the closing one
            m2 = re.match(r'^(.+?) = (.+)\) -> (?:\[return: (bb\d+)(?:, unwind[^\]]*)?\]|unwind[^;]*|(bb\d+));$', st, re.S)
            if m2:
                inner = m2.group(2); depth = 0; cut = None
                for i in range(len(inner) - 1, -1, -1):
                    ch = inner[i]
                    if ch == ')': depth += 1
                    elif ch == '(':
                        if depth == 0: cut = i; break
                        depth -= 1
                if cut is not None and balanced(inner[:cut]):
                    class _M:
                        def __init__(s, g): s.g = g
                        def group(s, i): return s.g[i - 1]
                        def groups(s): return s.g
                    m = _M((m2.group(1), inner[:cut], inner[cut + 1:], m2.group(3), m2.group(4)))
        if m and balanced(m.group(2)) and not m.group(2).startswith(('&', 'const ')) and not re.match(r'^\w+$', m.group(2)) or \
                (m and re.match(r'^(copy|move) ', m.group(2))):
            dest, callee, args, ret, ret2 = m.groups()
            if not (callee.split('(')[0] in BINOPS or callee in UNOPS):
                argops = [s.operand(body, a) for a in split_top(args)] if args.strip() else []
                if callee.startswith(('copy ', 'move ')):
                    site = ('indirect', s.operand(body, callee))
                else:
                    site = parse_callee(callee)
                return (CALL, s.place(dest), site, argops, ret or ret2)
        m = re.match(r'^(.+?) = (\w[\w:<>, ]*)\((.*)\) -> (?:\[return: (bb\d+)(?:, unwind[^\]]*)?\]|unwind[^;]*|(bb\d+));$', st, re.S)
        if m and not (m.group(2) in BINOPS or m.group(2) in UNOPS):
            dest, callee, args, ret, ret2 = m.groups()
            argops = [s.operand(body, a) for a in split_top(args)] if args.strip() else []
            return (CALL, s.place(dest), parse_callee(callee), argops, ret or ret2)
        m = re.match(r'^(.+?) = (.*);$', st, re.S)
        if m:
            return (ASSIGN, s.place(m.group(1)), s.rvalue(body, m.group(2)))
        raise Unsupported('stmt ' + st)


def _unescape_str(t):
    """rust string literal as printed by MIR (with quotes) -> bytes (utf-8)"""
    body = t[1:-1]
    out = bytearray(); i = 0; n = len(body)
    while i < n:
        c = body[i]
        if c == '\\':
            d = body[i + 1]
            if d == 'n': out.append(10); i += 2
            elif d == 'r': out.append(13); i += 2
            elif d == 't': out.append(9); i += 2
            elif d == '0': out.append(0); i += 2
            elif d == '\\': out.append(92); i += 2
            elif d == '"': out.append(34); i += 2
            elif d == "'": out.append(39); i += 2
            elif d == 'x': out.append(int(body[i + 2:i + 4], 16)); i += 4
            elif d == 'u':
                j = body.index('}', i); out += chr(int(body[i + 3:j], 16)).encode('utf-8'); i = j + 1
            else: raise Unsupported('escape ' + body[i:i + 4])
        else:
            out += c.encode('utf-8'); i += 1
    return bytes(out)


def _unescape_bytes(t):
    body = t[1:-1]
    out = bytearray(); i = 0; n = len(body)
    while i < n:
        c = body[i]
        if c == '\\':
            d = body[i + 1]
            if d == 'n': out.append(10); i += 2
            elif d == 'r': out.append(13); i += 2
            elif d == 't': out.append(9); i += 2
            elif d == '0': out.append(0); i += 2
            elif d == '\\': out.append(92); i += 2
            elif d == '"': out.append(34); i += 2
            elif d == "'": out.append(39); i += 2
            elif d == 'x': out.append(int(body[i + 2:i + 4], 16)); i += 4
            else: raise Unsupported('escape ' + body[i:i + 4])
        else:
            out += c.encode('latin-1') if ord(c) < 256 else c.encode('utf-8'); i += 1
    return bytes(out)


# --------------------------------------------------------------------------- execution
class Frame:
    __slots__ = ('body', 'cells')

    def __init__(s, body):
        s.body = body; s.cells = {}


class PathResult:
    __slots__ = ('kind', 'value', 'detail', 'trace', 'steps', 'where', 'info')

    def __init__(s, kind, value=None, detail=None, where=None):
        s.kind = kind; s.value = value; s.detail = detail; s.where = where; s.trace = None; s.steps = 0; s.info = {}

    def __repr__(s):
        return '<%s %s %s>' % (s.kind, s.detail or '', s.where or '')


class HostObj:
    """harness-side object reachable from MIR through generic trait calls (readers, writers, serializers)"""
    host_type = 'Host'

    def call(s, ex, site, args):
        raise Unsupported('host method %s on %s' % (site.key, s.host_type))


class Exec:
    def __init__(s, prog, max_steps=40000, max_depth=60):
        s.prog = prog
        s.comp = Compiler(prog)
        s.max_steps = max_steps; s.max_depth = max_depth
        s.models = []           # list of (regex or str, fn)
        s.model_exact = {}
        s.model_rx = []
        s.stats = {'paths': 0, 'checks': 0, 'solver_s': 0.0, 'blocks': 0, 'stmts': 0, 'bodies': set(), 'models': set(),
                   'unsupported': {}}
        s.static_cache = {}
        s.reset_path()
        s.pending = []

    # ---------------- per path state
    def reset_path(s):
        s.solver = z3.Solver()
        s.solver.set('timeout', getattr(s, 'query_timeout_ms', 20000))
        s.pc = []
        s.trace = []; s.pos = 0
        s.steps = 0; s.depth = 0; s.maxdepth_seen = 0
        s.fresh_n = 0
        s.allocs = []
        s.stack = []
        s.float_defs = {}
        s.float_pending = {}
        s.side = {}             # harness scratch
        s.entry_steps = []
        s.unordered = set()

    def note_unordered(s, ty):
        if ty.startswith('Hash'): s.unordered.add(ty)

    def fresh(s, prefix, sort):
        s.fresh_n += 1
        nm = '%s!%d' % (prefix, s.fresh_n)
        if sort == 'f64': return z3.FP(nm, F64)
        if sort == 'bool': return z3.Bool(nm)
        return z3.BitVec(nm, sort)

    # ---------------- forking
    def _retry_fresh(s):
        """the incremental solver gave up (time limit, usually under machine load): the same assertions once more in a fresh,
        non-incremental solver with four times the limit.  Still unknown -> the path is reported as inconclusive by the caller."""
        s2 = z3.Solver()
        s2.set('timeout', 4 * getattr(s, 'query_timeout_ms', 20000))
        s2.add(s.solver.assertions())
        r = s2.check()
        s.stats['retries'] = s.stats.get('retries', 0) + 1
        return r, (s2.model() if r == z3.sat else None)

    def _check(s, extra=None):
        t = time.time()
        if extra is not None:
            s.solver.push(); s.solver.add(extra)
        r = s.solver.check()
        if r == z3.unknown: r, _ = s._retry_fresh()
        if extra is not None: s.solver.pop()
        s.stats['checks'] += 1; s.stats['solver_s'] += time.time() - t
        if r == z3.unknown: raise Unsupported('solver unknown')
        return r == z3.sat

    def choose(s, conds, labels=None):
        """fork on mutually exclusive conditions; returns index taken on this path"""
        if s.pos < len(s.trace):
            i = s.trace[s.pos]; s.pos += 1
            c = conds[i]
            if not isinstance(c, bool):
                s.solver.add(c); s.pc.append(c)
            return i
        feas = []
        for i, c in enumerate(conds):
            if c is True: feas.append(i)
            elif c is False: continue
            else:
                if s._check(c): feas.append(i)
        if not feas: raise Infeasible()
        base = s.trace[:s.pos]
        for alt in reversed(feas[1:]):
            s.pending.append(base + [alt])
        i = feas[0]
        s.trace.append(i); s.pos += 1
        c = conds[i]
        if not isinstance(c, bool):
            s.solver.add(c); s.pc.append(c)
        return i

    def branch(s, cond):
        if isinstance(cond, bool): return cond
        cond = z3.simplify(cond)
        if z3.is_true(cond): return True
        if z3.is_false(cond): return False
        return s.choose([cond, z3.Not(cond)]) == 0

    def pick(s, n):
        """harness-level nondeterministic choice among n alternatives"""
        return s.choose([True] * n)

    def assume(s, cond):
        if isinstance(cond, bool):
            if not cond: raise Infeasible()
            return
        s.solver.add(cond); s.pc.append(cond)
        if not s._check(): raise Infeasible()

    def sat(s, cond):
        """is `cond` satisfiable together with the path condition? -> model or None"""
        if isinstance(cond, bool):
            if not cond: return None
            cond = z3.BoolVal(True)
        t = time.time()
        s.solver.push(); s.solver.add(cond)
        r = s.solver.check()
        m = s.solver.model() if r == z3.sat else None
        if r == z3.unknown: r, m = s._retry_fresh()
        s.solver.pop()
        s.stats['checks'] += 1; s.stats['solver_s'] += time.time() - t
        if r == z3.unknown: raise Unsupported('solver unknown')
        return m

    def model(s):
        r = s.solver.check(); s.stats['checks'] += 1
        if r == z3.unknown:
            r, m = s._retry_fresh()
            if r == z3.unknown: raise Unsupported('solver unknown')
            if r != z3.sat: raise Infeasible()
            return m
        if r != z3.sat: raise Infeasible()
        return s.solver.model()

    def concretize(s, v, prefer=None):
        """force a symbolic scalar to a concrete value on this path (forks are not created: the value
        is fixed to the solver's choice and added to the path condition).  Used only where stated."""
        if not is_sym(v): return v
        # the chosen value is part of the decision trace: a re-execution of the same prefix must see the same value (the
        # solver is free to return another model), otherwise later choices would be read against the wrong program points
        if s.pos < len(s.trace) and isinstance(s.trace[s.pos], tuple) and z3.is_bv(v):
            cv = s.trace[s.pos][1]; s.pos += 1
            c = z3.BitVecVal(cv, v.size())
            s.solver.add(v == c); s.pc.append(v == c)
            return cv
        m = s.model()
        c = m.eval(v, model_completion=True)
        s.solver.add(v == c); s.pc.append(v == c)
        cv = conc_value(c)
        if z3.is_bv(v) and s.pos >= len(s.trace):
            s.trace.append(('c', cv)); s.pos += 1
        return cv

    # ---------------- exploration
    def explore(s, fn, post=None, prefix=None, max_paths=None, deadline=None):
        """run fn(ex) on every path; returns (results, leftover pending prefixes)"""
        results = []
        s.pending = [list(prefix) if prefix else []]
        while s.pending:
            if max_paths is not None and len(results) >= max_paths: break
            if deadline is not None and time.time() > deadline: break
            tr = s.pending.pop()
            s.reset_path()
            s.trace = tr
            try:
                v = fn(s)
                r = PathResult('ok', v)
            except Panic as p:
                r = PathResult('panic', None, '%s: %s' % (p.kind, p.msg), p.where)
            except BoundExceeded as b:
                r = PathResult('bound', None, b.what, b.where)
            except Unsupported as u:
                r = PathResult('unsupported', None, str(u))
                k = str(u)[:120]
                s.stats['unsupported'][k] = s.stats['unsupported'].get(k, 0) + 1
            except Infeasible:
                continue
            except RecursionError:
                r = PathResult('bound', None, 'python recursion limit (call depth)')
            r.trace = list(s.trace); r.steps = s.steps
            r.info['maxdepth'] = s.maxdepth_seen
            s.stats['paths'] += 1
            if post is not None:
                out = post(s, r)
                if out is not None: results.append(out)
            else:
                results.append(r)
        left = s.pending; s.pending = []
        return results, left

    # ---------------- memory
    def cell(s, fr, loc):
        c = fr.cells.get(loc)
        if c is None:
            c = Cell(None); fr.cells[loc] = c
        return c

    def resolve(s, fr, place):
        """place -> (cell, path) with derefs followed"""
        loc, projs = place
        c = fr.cells.get(loc)
        if c is None:
            c = Cell(None); fr.cells[loc] = c
        if not projs: return c, ()
        path = ()
        for p in projs:
            k = p[0]
            if k == 'f': path = path + (p[1],)
            elif k == 'd':
                v = s.read(c, path)
                if isinstance(v, Ptr):
                    s.check_live(v)
                    c = v.cell; path = v.path
                elif isinstance(v, SliceRef):
                    c = Cell(v); path = ('*',)
                elif v is NULL or isinstance(v, NullPtr):
                    raise Panic('null-deref', 'dereference of null pointer', s.where())
                else:
                    raise Unsupported('deref of %r' % (v,))
            elif k == 'v': pass
            elif k == 'i':
                i = fr.cells[p[1]].v
                path = path + (('i', i),)
            elif k == 'ci':
                path = path + (('ci', p[1], p[2]),)
            else:
                raise Unsupported('projection ' + k)
        return c, path

    def check_live(s, ptr):
        a = ptr.cell.alloc
        if a is not None and a.state != 'live':
            raise Panic('use-after-free', 'access to %s allocation #%d (%s)' % (a.state, a.id, a.kind), s.where())

    def read(s, c, path):
        v = c.v
        for p in path:
            if isinstance(p, int):
                if isinstance(v, Agg): v = v.fields[p]
                elif isinstance(v, (Ptr, VecV)) or v is None:
                    pass  # Box/Unique/NonNull/MaybeUninit wrappers are transparent
                else: raise Unsupported('field %d of %r' % (p, v))
            elif p == '*':
                pass
            else:
                items, lo = (v.vec.items, v.lo) if isinstance(v, SliceRef) else (v.items, 0)
                n = len(v) if isinstance(v, SliceRef) else len(items)
                if p[0] == 'i':
                    i = p[1]
                    if is_sym(i):
                        vals = items[lo:lo + n]
                        if vals and all(isinstance(x, bool) or z3.is_bool(x) for x in vals):
                            # a table of flags: the disjunction of the positions that hold (the MIR bounds assert has run before)
                            v = z3.simplify(z3.Or([z3.And(i == k, x) if z3.is_bool(x) else (i == k) for k, x in enumerate(vals) if x is not False]))
                            continue
                        if not vals or n > 256: raise Unsupported('symbolic index')
                        for k in range(n):
                            if k == n - 1 or s.branch(i == k): v = vals[k]; break
                        continue
                    if i >= n: raise Panic('index', 'index out of bounds: the len is %d but the index is %d' % (n, i), s.where())
                    v = items[lo + i]
                else:
                    i = p[1]
                    v = items[lo + (n - i if p[2] else i)]
        return v

    def write(s, c, path, val):
        if not path:
            c.v = val; return
        if not isinstance(c.v, Agg) and all(isinstance(p, int) for p in path):
            # MaybeUninit / ManuallyDrop / Unique wrappers around a non-struct payload are transparent
            c.v = val; return
        v = c.v
        for p in path[:-1]:
            if isinstance(p, int): v = v.fields[p]
            elif p == '*': pass
            else:
                items, lo = (v.vec.items, v.lo) if isinstance(v, SliceRef) else (v.items, 0)
                v = items[lo + p[1]]
        p = path[-1]
        if isinstance(p, int):
            if isinstance(v, Agg):
                while len(v.fields) <= p: v.fields.append(None)
                v.fields[p] = val
            else: raise Unsupported('write field of %r' % (v,))
        elif p == '*':
            raise Unsupported('write through slice ref')
        else:
            items, lo = (v.vec.items, v.lo) if isinstance(v, SliceRef) else (v.items, 0)
            n = len(v) if isinstance(v, SliceRef) else len(items)
            i = p[1]
            if p[0] == 'i':
                if is_sym(i): raise Unsupported('symbolic index')
                if i >= n: raise Panic('index', 'index out of bounds: the len is %d but the index is %d' % (n, i), s.where())
            items[lo + i] = val

    def load(s, ptr):
        """read through a pointer value"""
        if isinstance(ptr, Ptr):
            s.check_live(ptr)
            return s.read(ptr.cell, ptr.path)
        if isinstance(ptr, SliceRef): return ptr
        if ptr is NULL: raise Panic('null-deref', 'dereference of null pointer', s.where())
        return ptr

    def store(s, ptr, v):
        s.check_live(ptr)
        s.write(ptr.cell, ptr.path, v)

    def deref_all(s, v):
        while isinstance(v, Ptr): v = s.load(v)
        return v

    def loop_frame(s):
        """deepest frame that has been running for more than half of the step budget: the runaway loop's owner"""
        for k in range(len(s.stack) - 1, -1, -1):
            if s.stack[k] is not None and s.steps - s.entry_steps[k] > s.max_steps // 2:
                b, bb, i = s.stack[k]
                return '%s loop' % b.name
        return s.where()

    def where(s):
        if s.stack:
            b, bb, i = s.stack[-1]
            sp = b.spans.get((bb, i))
            return '%s %s[%d]%s' % (b.name, bb, i, ' @%s:%d' % sp if sp else '')
        return None

    # ---------------- operands
    def eval_op(s, fr, op):
        k = op[0]
        if k == 'copy':
            c, p = s.resolve(fr, op[1]); v = s.read(c, p)
            if isinstance(v, (Agg, VecV)): return deep_copy(v)
            return v
        if k == 'move':
            c, p = s.resolve(fr, op[1]); return s.read(c, p)
        return s.eval_const(fr, op[1])

    def eval_const(s, fr, c):
        k = c[0]
        if k == 'v': return c[1]
        if k == 'unit': return unit()
        if k == 'str':
            b = c[1]; return SliceRef(VecV(list(b), 'str'), 0, len(b), 'str')
        if k == 'bytes':
            b = c[1]; return Ptr(Cell(VecV(list(b), 'array')))
        if k == 'promoted':
            nm = strip_lifetimes(fr.body.name) + '::promoted[%d]' % c[1]
            key = ('promoted', id(fr.body), c[1])
            if key not in s.static_cache:
                bs = s.prog.by_name.get(nm)
                if not bs: raise Unsupported('promoted ' + nm)
                b = bs[0]
                if len(bs) > 1:
                    for x in bs:
                        if x.file == fr.body.file: b = x
                s.static_cache[key] = s.call_body(b, [])
            return s.static_cache[key]
        if k == 'static_ref':
            return s.static_ref(c[1], c[2] if len(c) > 2 else None)
        if k == 'closure':
            return Agg('{closure@%s}' % c[1], 0, [])
        if k == 'named':
            return s.named_const(fr, c[1])
        raise Unsupported('const ' + repr(c))

    def static_ref(s, name, alloc=None):
        key = ('static', name)
        if alloc is not None and s.find_model('static:' + name) is None:
            # a plain-data static of the crate (`static T: [bool; 128] = make_table();`): its initialiser is run from MIR
            sn = s.prog.alloc_statics().get(alloc)
            b = None
            if sn and not sn.startswith('<') and sn.split('::')[-1] != name.split('::')[-1]:   # (lazy_static wrappers have the type named like the static)
                for cand in s.prog.by_name.get(sn, []) + [x for k, v in s.prog.by_name.items() if k.endswith('::' + sn) for x in v]:
                    if cand.kind.startswith('static'): b = cand; break
            if b is not None:
                key = ('static-data', sn)
                if key not in s.static_cache:
                    s.static_cache[key] = Ptr(Cell(s.call_body(b, [])))
                return s.static_cache[key]
        if key not in s.static_cache:
            m = s.find_model('static:' + name)
            if m is not None:
                s.static_cache[key] = Ptr(Cell(m(s, name)))
            else:
                # lazy_static wrapper types are ZSTs; Deref on them is modelled (`<NAME as Deref>::deref`)
                s.static_cache[key] = Ptr(Cell(Agg('static:' + name, 0, [])))
        return s.static_cache[key]

    def named_const(s, fr, t):
        key = ('named', t)
        if key in s.static_cache: return s.static_cache[key]
        names = [strip_generics(x) for x in split_path(t) if not x.startswith('<')]
        r = None
        # crate const/static with a body
        b = s.prog.find_fn(names) if names else None
        if b is not None and b.kind in ('const', 'static', 'static mut'):
            r = s.call_body(b, [])
            if b.kind.startswith('static'): r = r
        elif b is not None and b.kind == 'fn':
            r = FnRef(t)
        elif names and names[-1][:1].islower() and not t.endswith('}'):
            r = FnRef(t)        # a function item (`PartialEq::eq`, `str::len`, ...)
        else:
            # unit struct / unit variant / fn item of std
            rv = None
            try:
                rv = s.comp._adt(names, [], t) if names else None
            except Unsupported:
                rv = None
            if rv is not None and rv[0] == 'adt':
                r = Agg(rv[1], rv[2], [])
            elif rv is not None and rv[0] == 'nominal' and not (t.startswith('<') or '::' in t and t.split('::')[-1][:1].islower()):
                r = Agg(rv[1], 0, [])
            else:
                r = FnRef(t)
        if not isinstance(r, (Agg, VecV)):
            s.static_cache[key] = r
            return r
        return r

    # ---------------- statements
    def call_body(s, body, args):
        s.depth += 1
        if s.depth > s.maxdepth_seen: s.maxdepth_seen = s.depth
        if s.depth > s.max_depth:
            s.depth -= 1
            raise BoundExceeded('call depth > %d' % s.max_depth, body.name)
        fr = Frame(body)
        cells = fr.cells
        for i, a in enumerate(args):
            cells['_%d' % (i + 1)] = Cell(a)
        comp = body.compiled
        s.stats['bodies'].add(body.name)
        stack = s.stack
        stack.append(None)
        s.entry_steps.append(s.steps)
        bb = 'bb0'
        try:
            while True:
                blk = comp.get(bb)
                if blk is None:
                    raw = body.blocks[bb]
                    blk = []
                    for st in raw:
                        try:
                            blk.append(s.comp.stmt(body, st))
                        except Unsupported as u:
                            blk.append((-1, str(u)))
                    comp[bb] = blk
                s.stats['blocks'] += 1
                nxt = None
                i = -1
                for st in blk:
                    i += 1
                    op = st[0]
                    if op == NOP: continue
                    s.steps += 1
                    stack[-1] = (body, bb, i)
                    if s.steps > s.max_steps:
                        raise BoundExceeded('more than %d MIR steps' % s.max_steps, s.loop_frame())
                    if op == ASSIGN:
                        v = s.eval_rvalue(fr, st[2])
                        c, p = s.resolve(fr, st[1]); s.write(c, p, v)
                    elif op == CALL:
                        argv = [s.eval_op(fr, a) for a in st[3]]
                        r = s.do_call(fr, st[2], argv)
                        if st[4] is None:
                            raise Panic('diverged', 'call to diverging function returned', s.where())
                        c, p = s.resolve(fr, st[1]); s.write(c, p, r)
                        nxt = st[4]; break
                    elif op == GOTO:
                        nxt = st[1]; break
                    elif op == SWITCH:
                        nxt = s.do_switch(fr, st); break
                    elif op == RETURN:
                        c = cells.get('_0')
                        return c.v if c is not None and c.v is not None else unit()
                    elif op == DROP:
                        s.do_drop(fr, st[1]); nxt = st[2]; break
                    elif op == ASSERT:
                        v = s.eval_op(fr, st[1])
                        if not st[2]:
                            v = (not v) if isinstance(v, bool) else z3.Not(v)
                        if s.branch(v): nxt = st[4]; break
                        raise Panic('assert', st[3][:100], s.where())
                    elif op == UNREACHABLE:
                        raise Panic('unreachable', 'entered unreachable code', s.where())
                    elif op == SETDISCR:
                        c, p = s.resolve(fr, st[1]); v = s.read(c, p)
                        if isinstance(v, Agg): v.variant = st[2]
                        else: s.write(c, p, Agg('?', st[2], []))
                    elif op == RESUME:
                        raise Panic('resume', st[1], s.where())
                    else:
                        raise Unsupported(st[1])
                if nxt is None:
                    raise Unsupported('fallthrough in %s %s' % (body.name, bb))
                bb = nxt
        finally:
            stack.pop(); s.entry_steps.pop()
            s.depth -= 1

    def do_switch(s, fr, st):
        v = s.eval_op(fr, st[1])
        targets, other = st[2], st[3]
        if isinstance(v, bool): v = int(v)
        if isinstance(v, int):
            for k, t in targets:
                if k == v: return t
            if other is None: raise Panic('unreachable', 'switch without matching arm')
            return other
        if isinstance(v, float): raise Unsupported('switch on float')
        if not is_sym(v): raise Unsupported('switch on %r' % (v,))
        if z3.is_bool(v):
            conds = []; tg = []
            for k, t in targets:
                conds.append(v if k else z3.Not(v)); tg.append(t)
            if other is not None:
                ks = set(k for k, t in targets)
                if ks == {0}: conds.append(v); tg.append(other)
                elif ks == {1}: conds.append(z3.Not(v)); tg.append(other)
        else:
            bits = v.size()
            def lit(k):
                return z3.BitVecVal(k & ((1 << bits) - 1), bits)
            conds = [v == lit(k) for k, t in targets]; tg = [t for k, t in targets]
            if other is not None:
                conds.append(z3.And([v != lit(k) for k, t in targets])); tg.append(other)
        return tg[s.choose(conds)]

    def do_drop(s, fr, place):
        # drop glue is not executed, except for the heap model: dropping a Box frees its allocation
        hook = s.side.get('drop_hook')
        if hook is not None:
            c, p = s.resolve(fr, place)
            try:
                v = s.read(c, p)
            except (Unsupported, Panic):
                return
            hook(s, v)

    # ---------------- rvalues
    def eval_rvalue(s, fr, rv):
        k = rv[0]
        if k == 'use': return s.eval_op(fr, rv[1])
        if k == 'ref':
            c, p = s.resolve(fr, rv[1])
            if p and p[-1] == '*':
                return c.v  # reborrow of a slice reference
            if isinstance(c.v, SliceRef) and not p:
                pass
            return Ptr(c, p)
        if k == 'adt':
            return Agg(rv[1], rv[2], [s.eval_op(fr, x) for x in rv[3]])
        if k == 'discr':
            c, p = s.resolve(fr, rv[1]); v = s.read(c, p)
            return s.discriminant(v)
        if k == 'bin':
            return s.binop(rv[1], s.eval_op(fr, rv[2]), s.eval_op(fr, rv[3]), rv[4])
        if k == 'tuple':
            return Agg(UNIT_TY, 0, [s.eval_op(fr, x) for x in rv[1]])
        if k == 'cast':
            return s.cast(s.eval_op(fr, rv[1]), rv[2], rv[3], rv[4])
        if k == 'un':
            return s.unop(rv[1], s.eval_op(fr, rv[2]), rv[3])
        if k == 'array':
            return VecV([s.eval_op(fr, x) for x in rv[1]], 'array')
        if k == 'repeat':
            v = s.eval_op(fr, rv[1]); return VecV([deep_copy(v) for _ in range(rv[2])], 'array')
        if k == 'closure':
            return Agg('{closure@%s}' % rv[1], 0, [s.eval_op(fr, x) for x in rv[2]])
        if k == 'len':
            c, p = s.resolve(fr, rv[1]); v = s.read(c, p)
            return len(v) if isinstance(v, SliceRef) else len(v.items)
        if k == 'nominal':
            return Agg(rv[1], 0, [])
        raise Unsupported('rvalue ' + k)

    def discriminant(s, v):
        if isinstance(v, Agg):
            vs = s.prog.variants(v.ty)
            if vs is None:
                if isinstance(v.variant, int): return v.variant
                raise Unsupported('discriminant of ' + v.ty)
            return vs[v.variant][1]
        if isinstance(v, Opaque) and isinstance(v.data, dict) and 'discr' in v.data: return v.data['discr']
        raise Unsupported('discriminant of %r' % (v,))

    def int_ty(s, ty):
        return INT_TY.get(ty)

    def binop(s, op, a, b, ty):
        if op.endswith('Unchecked'): op = op[:-9]
        if isinstance(a, bool) and isinstance(b, bool):
            if op == 'Eq': return a == b
            if op == 'Ne': return a != b
            if op == 'BitAnd': return a and b
            if op == 'BitOr': return a or b
            if op == 'BitXor': return a != b
            a = int(a); b = int(b)
        sa = is_sym(a); sb = is_sym(b)
        if not sa and not sb:
            if isinstance(a, float) or isinstance(b, float):
                a = float(a); b = float(b)
                if op == 'Eq': return a == b
                if op == 'Ne': return a != b
                if op == 'Lt': return a < b
                if op == 'Le': return a <= b
                if op == 'Gt': return a > b
                if op == 'Ge': return a >= b
                if op == 'Add': return a + b
                if op == 'Sub': return a - b
                if op == 'Mul': return _fmul(a, b)
                if op == 'Div': return _fdiv(a, b)
                if op == 'Rem': return math.fmod(a, b) if b != 0 and not math.isinf(a) else float('nan')
                raise Unsupported('float binop ' + op)
            if isinstance(a, (Ptr, NullPtr, SliceRef)) or isinstance(b, (Ptr, NullPtr, SliceRef)):
                same = (a is b) or (isinstance(a, Ptr) and isinstance(b, Ptr) and a.cell is b.cell and a.path == b.path) \
                    or (isinstance(a, NullPtr) and isinstance(b, NullPtr))
                if op == 'Eq': return same
                if op == 'Ne': return not same
                raise Unsupported('pointer binop ' + op)
            if not isinstance(a, int) or not isinstance(b, int):
                raise Unsupported('binop %s on %r, %r' % (op, a, b))
            it = INT_TY.get(ty)
            bits, sg = it if it else (64, False)
            if ty == 'bool': bits, sg = 1, False
            if op == 'Eq': return a == b
            if op == 'Ne': return a != b
            if op == 'Lt': return a < b
            if op == 'Le': return a <= b
            if op == 'Gt': return a > b
            if op == 'Ge': return a >= b
            if op == 'Cmp': return Agg('Ordering', 0 if a < b else (1 if a == b else 2), [])
            if op in ('Add', 'Sub', 'Mul'):
                r = a + b if op == 'Add' else (a - b if op == 'Sub' else a * b)
                return wrap_int(r, bits, sg)
            if op in ('AddWithOverflow', 'SubWithOverflow', 'MulWithOverflow'):
                r = a + b if op[0] == 'A' else (a - b if op[0] == 'S' else a * b)
                w = wrap_int(r, bits, sg)
                return Agg(UNIT_TY, 0, [w, w != r])
            if op == 'BitAnd': return wrap_int(a & b, bits, sg)
            if op == 'BitOr': return wrap_int(a | b, bits, sg)
            if op == 'BitXor': return wrap_int(a ^ b, bits, sg)
            if op == 'Shl': return wrap_int(a << (b % bits), bits, sg)
            if op == 'Shr': return wrap_int(a >> (b % bits), bits, sg)
            if op == 'Div':
                if b == 0: raise Panic('div-zero', 'attempt to divide by zero', s.where())
                q = abs(a) // abs(b)
                return wrap_int(q if (a >= 0) == (b >= 0) else -q, bits, sg)
            if op == 'Rem':
                if b == 0: raise Panic('div-zero', 'attempt to calculate the remainder with a divisor of zero', s.where())
                r = abs(a) % abs(b)
                return r if a >= 0 else -r
            raise Unsupported('int binop ' + op)
        # symbolic
        ref = a if sa else b
        if z3.is_fp(ref) or isinstance(a, float) or isinstance(b, float):
            if s.float_pending and not (sa and sb and a.get_id() == b.get_id()):
                from .models_num import materialize
                materialize(s, a); materialize(s, b)
            if not sa: a = z3.FPVal(a, F64)
            if not sb: b = z3.FPVal(b, F64)
            if op == 'Eq': return z3.fpEQ(a, b)
            if op == 'Ne': return z3.Not(z3.fpEQ(a, b))
            if op == 'Lt': return z3.fpLT(a, b)
            if op == 'Le': return z3.fpLEQ(a, b)
            if op == 'Gt': return z3.fpGT(a, b)
            if op == 'Ge': return z3.fpGEQ(a, b)
            if op == 'Add': return z3.fpAdd(RNE, a, b)
            if op == 'Sub': return z3.fpSub(RNE, a, b)
            if op == 'Mul': return z3.fpMul(RNE, a, b)
            if op == 'Div': return z3.fpDiv(RNE, a, b)
            raise Unsupported('sym float binop ' + op)
        if z3.is_bool(ref):
            if not sa: a = z3.BoolVal(bool(a))
            if not sb: b = z3.BoolVal(bool(b))
            if op == 'Eq': return a == b
            if op == 'Ne': return a != b
            if op == 'BitAnd': return z3.And(a, b)
            if op == 'BitOr': return z3.Or(a, b)
            if op == 'BitXor': return z3.Xor(a, b)
            raise Unsupported('sym bool binop ' + op)
        bits = ref.size()
        it = INT_TY.get(ty)
        sg = it[1] if it else False
        if not sa: a = z3.BitVecVal(a, bits)
        if not sb: b = z3.BitVecVal(b, bits)
        if a.size() != b.size():
            if op in ('Shl', 'Shr'):
                b = z3.ZeroExt(a.size() - b.size(), b) if b.size() < a.size() else z3.Extract(a.size() - 1, 0, b)
            else:
                raise Unsupported('width mismatch in ' + op)
        if op == 'Eq': return a == b
        if op == 'Ne': return a != b
        if op == 'Lt': return (a < b) if sg else z3.ULT(a, b)
        if op == 'Le': return (a <= b) if sg else z3.ULE(a, b)
        if op == 'Gt': return (a > b) if sg else z3.UGT(a, b)
        if op == 'Ge': return (a >= b) if sg else z3.UGE(a, b)
        if op == 'Add': return a + b
        if op == 'Sub': return a - b
        if op == 'Mul': return a * b
        if op == 'BitAnd': return a & b
        if op == 'BitOr': return a | b
        if op == 'BitXor': return a ^ b
        if op == 'Shl': return a << (b & (bits - 1))
        if op == 'Shr': return (a >> (b & (bits - 1))) if sg else z3.LShR(a, b & (bits - 1))
        if op == 'AddWithOverflow':
            r = a + b
            ovf = z3.Not(z3.And(z3.BVAddNoOverflow(a, b, sg), z3.BVAddNoUnderflow(a, b))) if sg else z3.Not(z3.BVAddNoOverflow(a, b, False))
            return Agg(UNIT_TY, 0, [r, ovf])
        if op == 'SubWithOverflow':
            r = a - b
            ovf = z3.Not(z3.And(z3.BVSubNoOverflow(a, b), z3.BVSubNoUnderflow(a, b, sg))) if sg else z3.ULT(a, b)
            return Agg(UNIT_TY, 0, [r, ovf])
        if op == 'MulWithOverflow':
            r = a * b
            ovf = z3.Not(z3.And(z3.BVMulNoOverflow(a, b, sg), z3.BVMulNoUnderflow(a, b))) if sg else z3.Not(z3.BVMulNoOverflow(a, b, False))
            return Agg(UNIT_TY, 0, [r, ovf])
        if op in ('Div', 'Rem'):
            if s.branch(b == 0): raise Panic('div-zero', 'attempt to divide by zero', s.where())
            if op == 'Div': return (a / b) if sg else z3.UDiv(a, b)
            return z3.SRem(a, b) if sg else z3.URem(a, b)
        if op == 'Cmp':
            lt = (a < b) if sg else z3.ULT(a, b)
            i = s.choose([lt, a == b, z3.And(z3.Not(lt), a != b)])
            return Agg('Ordering', i, [])
        raise Unsupported('sym int binop ' + op)

    def unop(s, op, a, ty):
        if op == 'Not':
            if isinstance(a, bool): return not a
            if is_sym(a): return z3.Not(a) if z3.is_bool(a) else ~a
            bits, sg = INT_TY.get(ty, (64, False))
            return wrap_int(~a, bits, sg)
        if op == 'Neg':
            if isinstance(a, float): return -a
            if is_sym(a): return z3.fpNeg(a) if z3.is_fp(a) else -a
            bits, sg = INT_TY.get(ty, (64, True))
            return wrap_int(-a, bits, sg)
        if op == 'PtrMetadata':
            v = a
            if isinstance(v, SliceRef): return len(v)
            if isinstance(v, Ptr):
                t = s.load(v)
                if isinstance(t, VecV): return len(t.items)
            return unit()
        raise Unsupported('unop ' + op)

    def cast(s, v, fromty, toty, kind):
        if kind == 'IntToInt':
            tb, ts = INT_TY.get(toty, (None, None)) if toty != 'bool' else (1, False)
            if tb is None: raise Unsupported('cast to ' + toty)
            if isinstance(v, bool): return int(v)
            if isinstance(v, int): return wrap_int(v, tb, ts)
            if isinstance(v, Agg):  # field-less enum as integer
                return wrap_int(s.discriminant(v), tb, ts)
            if z3.is_bool(v): return z3.If(v, z3.BitVecVal(1, tb), z3.BitVecVal(0, tb))
            fb = v.size(); fs = INT_TY.get(fromty, (fb, False))[1]
            if tb > fb: return z3.SignExt(tb - fb, v) if fs else z3.ZeroExt(tb - fb, v)
            if tb < fb: return z3.Extract(tb - 1, 0, v)
            return v
        if kind == 'IntToFloat':
            if isinstance(v, bool): v = int(v)
            if isinstance(v, int): return float(v)
            fs = INT_TY.get(fromty, (64, False))[1]
            return z3.fpSignedToFP(RNE, v, F64) if fs else z3.fpUnsignedToFP(RNE, v, F64)
        if kind == 'FloatToInt':
            tb, ts = INT_TY[toty]
            lo, hi = (-(1 << (tb - 1)), (1 << (tb - 1)) - 1) if ts else (0, (1 << tb) - 1)
            if isinstance(v, float):
                if v != v: return 0
                if v <= lo: return lo
                if v >= hi: return hi
                return int(v)
            # saturating, NaN -> 0
            if s.float_pending:
                from .models_num import materialize
                materialize(s, v)
            flo = z3.FPVal(float(lo), F64); fhi = z3.FPVal(float(hi), F64)
            conv = z3.fpToSBV(z3.RTZ(), v, z3.BitVecSort(tb)) if ts else z3.fpToUBV(z3.RTZ(), v, z3.BitVecSort(tb))
            return z3.If(z3.fpIsNaN(v), z3.BitVecVal(0, tb),
                         z3.If(z3.fpLEQ(v, flo), z3.BitVecVal(lo, tb),
                               z3.If(z3.fpGEQ(v, fhi), z3.BitVecVal(hi, tb), conv)))
        if kind == 'FloatToFloat': return v
        if kind.startswith('PointerCoercion'):
            tt = toty.strip()
            inner = deref_type(tt)
            if inner.startswith('[') and ';' not in inner or inner == 'str':
                if isinstance(v, Ptr):
                    t = s.load(v)
                    if isinstance(t, VecV): return SliceRef(t, 0, len(t.items), 'slice')
                return v
            return v
        if kind in ('Transmute', 'PtrToPtr', 'FnPtrToPtr', 'PointerExposeProvenance', 'PointerWithExposedProvenance', 'Subtype'):
            return v
        raise Unsupported('cast ' + kind)

    # ---------------- calls
    def register(s, key, fn):
        if isinstance(key, str): s.model_exact[key] = fn
        else: s.model_rx.append((key, fn))

    def find_model(s, key):
        f = s.model_exact.get(key)
        if f is not None: return f
        for rx, fn in s.model_rx:
            if rx.match(key): return fn
        return None

    def runtime_type(s, v):
        while isinstance(v, Ptr): v = s.load(v)
        if isinstance(v, HostObj): return ('host', v)
        if isinstance(v, Agg): return ('ty', v.ty)
        if isinstance(v, VecV): return ('ty', {'string': 'String', 'vec': 'Vec', 'array': '[T; N]', 'str': 'str'}.get(v.kind, 'Vec'))
        if isinstance(v, SliceRef): return ('ty', 'str' if v.kind == 'str' else '[T]')
        if isinstance(v, bool) or (is_sym(v) and z3.is_bool(v)): return ('ty', 'bool')
        if isinstance(v, float) or (is_sym(v) and z3.is_fp(v)): return ('ty', 'f64')
        return ('unknown', v)

    def do_call(s, fr, site, argv):
        if isinstance(site, tuple):   # indirect call through a closure / fn pointer value
            f = s.eval_op(fr, site[1])
            return s.call_value(f, argv)
        r = site.resolved
        if r is None:
            r = s.resolve_site(site, fr)
            site.resolved = r
        kind = r[0]
        if kind == 'body': return s.call_body(r[1], argv)
        if kind == 'body_deref':
            argv = list(argv)
            for k in range(r[2]):
                argv[0] = s.load(argv[0])
                if r[3] and len(argv) > 1: argv[1] = s.load(argv[1])
            return s.call_body(r[1], argv)
        if kind == 'model':
            s.stats['models'].add(site.key)
            return r[1](s, site, argv)
        if kind == 'dyn': return s.call_dynamic(site, argv)
        raise Unsupported('callee ' + site.raw)

    def resolve_site(s, site, fr=None):
        prog = s.prog
        # harness overrides come first
        m = s.find_model('!' + site.key)
        if m is not None: return ('model', m)
        if site.kind == 'trait':
            st = strip_generics(site.self_ty.lstrip('&').replace('mut ', '').strip())
            tyc = prog.canon_type(st) if re.match(r'^[\w:]+$', st) else None
            if site.tparam and not (tyc is not None and prog.typedef(tyc) is not None): return ('dyn',)
            if tyc is not None:
                targs = site.trait_args.lstrip('&').replace('mut ', '').strip() if site.trait_args else site.trait_args
                b = prog.find_method(tyc, site.trait, site.method, targs)
                nref = len(site.self_ty) - len(site.self_ty.lstrip('&'))
                if b is not None and nref:
                    # the crate implements the trait on the reference type itself (`impl Div for &Unit`): self is passed as it is
                    mm = re.search(r'<impl at ([^:>]+):(\d+):(\d+): \d+:\d+>', b.name)
                    info = prog.src.impl_at(mm.group(1), int(mm.group(2)), int(mm.group(3))) if mm and mm.group(1).startswith('src/') else None
                    if info and isinstance(info[3], str) and len(info[3].strip()) - len(info[3].strip().lstrip('&')) >= nref: return ('body', b)
                if b is not None and nref and prog.typedef(tyc) is not None:
                    # blanket impls on references (`impl PartialEq<&B> for &A`, `Display for &T`) forward to the referent
                    return ('body_deref', b, nref, site.trait in ('PartialEq', 'PartialOrd', 'Ord'))
                if b is not None: return ('body', b)
                if prog.typedef(tyc) is not None:
                    b = prog.find_trait_default(site.trait, site.method)
                    if b is not None: return ('body', b)
            # impls on foreign types written in the crate (e.g. `impl From<&str> for &Unit`)
            b = prog.find_method(short_type(site.self_ty), site.trait, site.method, site.trait_args)
            if b is not None: return ('body', b)
            m = s.find_model(site.key)
            if m is not None: return ('model', m)
            m = s.find_model('<_ as %s>::%s' % (site.trait, site.method))
            if m is not None: return ('model', m)
            return ('none',)
        # path kind
        names = site.path
        if len(names) >= 2:
            tyc = prog.canon_type('::'.join(names[:-1]))
            b = prog.find_method(tyc, None, names[-1])
            if b is not None: return ('body', b)
            # trait method called by path on a crate type (`Type::method` resolved through a trait impl)
            if prog.typedef(tyc) is not None:
                for (ty, tr, me), lst in prog.impl_methods.items():
                    if ty == tyc and me == names[-1]: return ('body', lst[0][0])
        b = prog.find_fn(names)
        if b is not None and b.kind == 'fn': return ('body', b)
        m = s.find_model(site.key)
        if m is not None: return ('model', m)
        return ('none',)

    def call_dynamic(s, site, argv):
        if not argv: raise Unsupported('dynamic call without receiver ' + site.raw)
        kind, rt = s.runtime_type(argv[0])
        if kind == 'host':
            s.stats['models'].add('host:%s::%s' % (rt.host_type, site.method))
            return rt.call(s, site, argv)
        if kind == 'ty':
            b = s.prog.find_method(rt, site.trait, site.method, site.trait_args)
            if b is None and s.prog.typedef(rt) is not None:
                b = s.prog.find_trait_default(site.trait, site.method)
            if b is not None: return s.call_body(b, argv)
            key = '<%s as %s>::%s' % (rt.split('::')[-1], site.trait, site.method)
            m = s.find_model(key) or s.find_model('<_ as %s>::%s' % (site.trait, site.method))
            if m is not None:
                s.stats['models'].add(key)
                return m(s, site, argv)
            raise Unsupported('callee %s (receiver %s)' % (site.raw, rt))
        m = s.find_model('<_ as %s>::%s' % (site.trait, site.method))
        if m is not None: return m(s, site, argv)
        raise Unsupported('callee %s (receiver %r)' % (site.raw, rt))

    def call_value(s, f, argv):
        """call a closure / fn item value with already evaluated arguments (argv = positional args)"""
        while isinstance(f, Ptr): f = s.load(f)
        if isinstance(f, Agg) and not f.fields and not f.ty.startswith('{closure@') and s.prog.variants(f.ty) is not None:
            return Agg(f.ty, f.variant, list(argv))      # a tuple-variant constructor used as a function (`.map(Cow::Borrowed)`)
        if isinstance(f, Agg) and f.ty.startswith('{closure@'):
            span = f.ty[9:-1]
            b = s.prog.closures.get(span)
            if b is None: raise Unsupported('closure body ' + span)
            # closure bodies take (self, args...) with self by ref or by value
            a0 = b.args[0][1]
            selfv = Ptr(Cell(f)) if a0.startswith('&') else f
            return s.call_body(b, [selfv] + list(argv))
        if isinstance(f, FnRef):
            site = parse_callee(f.name)
            r = s.resolve_site(site)
            if r[0] == 'body': return s.call_body(r[1], list(argv))
            if r[0] == 'body_deref':
                argv = list(argv)
                for k in range(r[2]):
                    argv[0] = s.load(argv[0])
                    if r[3] and len(argv) > 1: argv[1] = s.load(argv[1])
                return s.call_body(r[1], argv)
            if r[0] == 'model': return r[1](s, site, list(argv))
            if r[0] == 'dyn': return s.call_dynamic(site, list(argv))
            raise Unsupported('callee ' + f.name)
        if isinstance(f, HostObj):
            return f.call(s, None, list(argv))
        raise Unsupported('call of %r' % (f,))

    def call_named(s, name, argv):
        """harness entry: call a function by (trimmed) name"""
        site = parse_callee(name)
        r = s.resolve_site(site)
        if r[0] == 'body': return s.call_body(r[1], argv)
        if r[0] == 'model': return r[1](s, site, argv)
        if r[0] == 'dyn': return s.call_dynamic(site, argv)
        raise Unsupported('entry ' + name)


def _fmul(a, b):
    try:
        return a * b
    except OverflowError:
        return float('inf') if (a > 0) == (b > 0) else float('-inf')


def _fdiv(a, b):
    if b == 0:
        if a != a or a == 0: return float('nan')
        neg = (math.copysign(1, a) < 0) != (math.copysign(1, b) < 0)
        return float('-inf') if neg else float('inf')
    try:
        return a / b
    except OverflowError:
        return float('inf')


def conc_value(c):
    """z3 value -> python value"""
    if z3.is_bv_value(c): return c.as_long()
    if z3.is_true(c): return True
    if z3.is_false(c): return False
    if z3.is_fp(c):
        return fp_to_float(c)
    raise Unsupported('concretize %r' % (c,))


def fp_to_float(c):
    c = z3.simplify(c)
    if z3.is_fprm(c): raise Unsupported('rm')
    if c.isNaN(): return float('nan')
    if c.isInf(): return float('-inf') if c.isNegative() else float('inf')
    if c.isZero(): return -0.0 if c.isNegative() else 0.0
    sign = 1 if c.sign() else 0
    exp = c.exponent_as_long(True)
    sig = c.significand_as_long()
    bits = (sign << 63) | (exp << 52) | sig
    return struct.unpack('<d', struct.pack('<Q', bits))[0]
