"""Index of the crate's *source*: type definitions (module path, enum variants with
discriminants, struct field names) and impl headers at given spans.  MIR bodies name impls by
span (`<impl at src/x.rs:66:1: 66:41>`), call sites name them by type; this index links the two.
"""
import os, re

STD_ENUMS = {
    'Option': [('None', 0), ('Some', 1)],
    'Result': [('Ok', 0), ('Err', 1)],
    'ControlFlow': [('Continue', 0), ('Break', 1)],
    'Cow': [('Borrowed', 0), ('Owned', 1)],
    'Ordering': [('Less', -1), ('Equal', 0), ('Greater', 1)],
    'Bound': [('Included', 0), ('Excluded', 1), ('Unbounded', 2)],
    'LocalResult': [('Single', 0), ('Ambiguous', 1), ('None', 2)],
    'MappedLocalTime': [('Single', 0), ('Ambiguous', 1), ('None', 2)],
    'SecondsFormat': [('Secs', 0), ('Millis', 1), ('Micros', 2), ('Nanos', 3), ('AutoSi', 4)],
    'Entry': [('Vacant', 0), ('Occupied', 1)],
}


def mod_of_file(rel):
    # rel like src/haystack/val/value.rs
    p = rel[4:] if rel.startswith('src/') else rel
    p = p[:-3] if p.endswith('.rs') else p
    parts = p.split('/')
    if parts[-1] in ('mod', 'lib'):
        parts = parts[:-1]
    return '::'.join(parts)


class TypeDef:
    __slots__ = ('name', 'module', 'kind', 'variants', 'fields', 'file', 'line', 'vfields')

    def __init__(s, name, module, kind, file, line):
        s.name = name; s.module = module; s.kind = kind; s.file = file; s.line = line
        s.variants = None   # list of (name, discr)
        s.fields = None     # list of field names (struct) or None for tuple structs
        s.vfields = {}      # variant name -> list of field names or int count

    @property
    def full(s):
        return (s.module + '::' if s.module else '') + s.name


def _strip_comments(src):
    # remove // comments and /* */ blocks but keep line structure
    out = []
    i = 0; n = len(src); instr = False
    while i < n:
        c = src[i]
        if instr:
            out.append(c)
            if c == '\\' and i + 1 < n:
                out.append(src[i + 1]); i += 2; continue
            if c == '"': instr = False
            i += 1; continue
        if c == '"':
            instr = True; out.append(c); i += 1; continue
        if c == "'" :
            m = re.match(r"'(\\.[^']*|[^\\'])'", src[i:i + 12])
            if m:
                out.append(m.group(0)); i += len(m.group(0)); continue
        if src.startswith('//', i):
            j = src.find('\n', i)
            if j < 0: j = n
            i = j; continue
        if src.startswith('/*', i):
            j = src.find('*/', i + 2)
            if j < 0: j = n - 2
            out.append('\n' * src.count('\n', i, j + 2)); i = j + 2; continue
        out.append(c); i += 1
    return ''.join(out)


def _match_brace(src, i):
    """src[i] == '{' -> index of the matching '}'"""
    d = 0; n = len(src); instr = False
    while i < n:
        c = src[i]
        if instr:
            if c == '\\': i += 2; continue
            if c == '"': instr = False
        elif c == '"': instr = True
        elif c == '{': d += 1
        elif c == '}':
            d -= 1
            if d == 0: return i
        i += 1
    return n - 1


def _split_top(s):
    out = []; d = 0; cur = []
    for ch in s:
        if ch in '([{<': d += 1
        elif ch in ')]}>': d -= 1
        if ch == ',' and d == 0:
            out.append(''.join(cur)); cur = []
        else:
            cur.append(ch)
    if ''.join(cur).strip(): out.append(''.join(cur))
    return out


class SrcIndex:
    def __init__(s, repo):
        s.repo = repo
        s.files = {}        # rel -> text (comments stripped, same line structure)
        s.raw = {}
        s.types = {}        # short name -> [TypeDef]
        s.uses = {}         # rel -> {ident: full path}
        s.traits = {}       # short name -> [module]
        s.alias_targets = {}
        for dp, dn, fn in os.walk(os.path.join(repo, 'src')):
            for f in fn:
                if f.endswith('.rs'):
                    p = os.path.join(dp, f); rel = os.path.relpath(p, repo)
                    raw = open(p, encoding='utf-8').read()
                    s.raw[rel] = raw
                    if 'units_generated' in rel:
                        s.files[rel] = ''
                        continue
                    s.files[rel] = _strip_comments(raw)
        # modules compiled out by `#[cfg(not(feature = "<default feature>"))] mod x;` are not part of the crate
        for rel in list(s.files):
            if rel.endswith('/mod.rs') or rel.endswith('lib.rs'):
                for m in re.finditer(r'#\[cfg\(not\(feature\s*=\s*"[\w-]+"\)\)\]\s*(?:pub(?:\([^)]*\))?\s+)?mod\s+(\w+)\s*;', s.files[rel]):
                    dead = os.path.join(os.path.dirname(rel), m.group(1) + '.rs')
                    s.files.pop(dead, None)
        for rel, src in s.files.items():
            s._scan(rel, src)
        s._impl_cache = {}

    def _scan(s, rel, src):
        mod = mod_of_file(rel)
        for m in re.finditer(r'(?m)^[ \t]*(?:pub(?:\([^)]*\))?\s+)?(struct|enum|union|trait|type)\s+(\w+)', src):
            kind, name = m.group(1), m.group(2)
            line = src.count('\n', 0, m.start()) + 1
            # inline `mod x {` nesting is ignored except for `mod test`
            if kind == 'trait':
                s.traits.setdefault(name, []).append(mod); continue
            if kind == 'type':
                # only module-level aliases (associated types inside impls are indented)
                ls = src.rfind('\n', 0, m.start()) + 1
                if src[ls:m.start()].strip(' \t') != '' or m.start() != ls and src[ls] in ' \t': continue
                tm = re.match(r'\s*=\s*([^;]+);', src[m.end():m.end() + 200])
                if not tm: continue
                s.alias_targets[name] = tm.group(1).strip()
                continue
            td = TypeDef(name, mod, kind, rel, line)
            s.types.setdefault(name, []).append(td)
            if kind == 'enum':
                i = src.find('{', m.end())
                j = _match_brace(src, i)
                body = src[i + 1:j]
                vs = []; nxt = 0
                for item in _split_top(body):
                    it = re.sub(r'#\[[^\]]*\]', '', item).strip()
                    if not it: continue
                    vm = re.match(r'(\w+)\s*(\((.*)\)|\{(.*)\})?\s*(?:=\s*(-?\d+))?\s*$', it, re.S)
                    if not vm: continue
                    if vm.group(5) is not None: nxt = int(vm.group(5))
                    vs.append((vm.group(1), nxt)); nxt += 1
                    if vm.group(4) is not None:
                        td.vfields[vm.group(1)] = [re.match(r'\s*(?:pub\s+)?(\w+)', x).group(1) for x in _split_top(vm.group(4)) if x.strip()]
                    elif vm.group(3) is not None:
                        td.vfields[vm.group(1)] = len(_split_top(vm.group(3)))
                    else:
                        td.vfields[vm.group(1)] = 0
                td.variants = vs
            elif kind == 'struct':
                rest = src[m.end():m.end() + 400]
                rm = re.match(r'\s*(<[^{;(]*>)?\s*(where[^{;]*)?\s*([\{\(;])', rest, re.S)
                if rm and rm.group(3) == '{':
                    i = src.find('{', m.end()); j = _match_brace(src, i)
                    names = []
                    for item in _split_top(src[i + 1:j]):
                        it = re.sub(r'#\[[^\]]*\]', '', item).strip()
                        fm = re.match(r'(?:pub(?:\([^)]*\))?\s+)?(\w+)\s*:', it)
                        if fm: names.append(fm.group(1))
                    td.fields = names
        u = {}
        for m in re.finditer(r'(?m)^[ \t]*(?:pub(?:\([^)]*\))?\s+)?use\s+([^;]+);', src):
            s._use_tree(m.group(1).strip(), '', u)
        s.uses[rel] = u

    def _use_tree(s, t, prefix, out):
        t = t.strip()
        m = re.match(r'^(.*?)::\{(.*)\}$', t, re.S)
        if m and '{' not in m.group(1):
            for part in _split_top(m.group(2)):
                s._use_tree(part, prefix + m.group(1).strip() + '::', out)
            return
        am = re.match(r'^(.*)\s+as\s+(\w+)$', t)
        if am:
            out[am.group(2)] = prefix + am.group(1).strip(); return
        full = prefix + t
        out[full.split('::')[-1]] = full

    # ---------- lookups
    def find_type(s, path, from_file=None):
        """path: possibly trimmed `a::b::Name` -> TypeDef or None (std / unknown)"""
        segs = [x for x in path.split('::') if x]
        if not segs: return None
        cands = s.types.get(segs[-1])
        if not cands: return None
        if len(cands) == 1 and len(segs) == 1: return cands[0]
        pre = segs[:-1]
        if pre and pre[0] in ('crate', 'libhaystack'): pre = pre[1:]
        good = [c for c in cands if _suffix(c.module.split('::') if c.module else [], pre)]
        if len(good) == 1: return good[0]
        if pre and not good and not from_file: return None     # qualified with a foreign module (`chrono::DateTime`)
        if from_file:
            here = mod_of_file(from_file)
            for c in (good or cands):
                if c.module == here: return c
            u = s.uses.get(from_file, {}).get(segs[0])
            if u:
                up = [x for x in u.split('::') if x not in ('crate', 'self', 'super', 'libhaystack')]
                for c in cands:
                    full = (c.module.split('::') if c.module else []) + [c.name]
                    if _suffix(full, up + segs[1:]) or _suffix(up + segs[1:], full): return c
                # `use super::x::Name` style: compare tails
                for c in cands:
                    if c.module.split('::')[-1:] == up[-2:-1]: return c
            # glob imports: prefer a candidate in a parent module
            for c in (good or cands):
                if here.startswith(c.module.rsplit('::', 1)[0]): return c
        return (good or cands)[0] if len(good or cands) == 1 else None

    def line(s, rel, n):
        src = s.files.get(rel)
        if src is None: return ''
        lines = src.split('\n')
        return lines[n - 1] if 0 < n <= len(lines) else ''

    def impl_at(s, rel, line, col):
        """-> (self TypeDef or printed name, trait short name or None) for `<impl at rel:line:col: ..>`"""
        key = (rel, line, col)
        if key in s._impl_cache: return s._impl_cache[key]
        src = s.files.get(rel)
        r = None
        if src is not None:
            lines = src.split('\n')
            text = lines[line - 1][col - 1:] if line <= len(lines) else ''
            if re.match(r'(unsafe\s+)?impl\b', text):
                hdr = text
                k = line
                while '{' not in hdr and k < len(lines):
                    hdr += ' ' + lines[k]; k += 1
                hdr = hdr.split('{')[0]
                hdr = re.sub(r'\bwhere\b.*$', '', hdr, flags=re.S)
                hm = re.match(r"(?:unsafe\s+)?impl\s*(<(?:[^<>]|<(?:[^<>]|<[^<>]*>)*>)*>)?\s*(.*)$", hdr.strip(), re.S)
                body = hm.group(2).strip()
                tr = None
                fm = _split_for(body)
                if fm:
                    tr, ty = fm
                else:
                    ty = body
                ty = ty.strip()
                ty_name = re.sub(r'<.*$', '', ty.lstrip('&').replace('mut ', '').strip(), flags=re.S).strip()
                trn = re.sub(r'<.*$', '', tr, flags=re.S).strip().split('::')[-1] if tr else None
                trargs = None
                if tr and '<' in tr:
                    trargs = tr[tr.index('<') + 1: tr.rindex('>')].strip()
                td = s.find_type(ty_name, rel)
                r = (td if td else ty.strip(), trn, trargs, ty.strip())
            else:
                # derive(...) token: the type is the next struct/enum
                tm = re.match(r'\w+', text)
                trn = tm.group(0) if tm else None
                k = line - 1
                while k < len(lines) and not re.match(r'\s*(pub(\([^)]*\))?\s+)?(struct|enum|union)\s+(\w+)', lines[k]):
                    k += 1
                if k < len(lines):
                    nm = re.match(r'\s*(pub(\([^)]*\))?\s+)?(struct|enum|union)\s+(\w+)', lines[k]).group(4)
                    td = None
                    for c in s.types.get(nm, []):
                        if c.file == rel and c.line == k + 1: td = c
                    r = (td or nm, trn, None, nm)
        s._impl_cache[key] = r
        return r


def _split_for(body):
    """`Trait<..> for Type<..>` -> (trait, type); None when inherent"""
    d = 0
    i = 0
    while i < len(body):
        c = body[i]
        if c in '<([': d += 1
        elif c in '>)]': d -= 1
        elif d == 0 and body.startswith(' for ', i):
            return body[:i].strip(), body[i + 5:].strip()
        i += 1
    return None


def _suffix(full, suf):
    if not suf: return True
    return len(suf) <= len(full) and full[-len(suf):] == suf
