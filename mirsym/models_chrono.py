"""chrono / chrono-tz models: civil date-time arithmetic, the FromStr grammars, fixed-offset zones.
Named IANA zones with DST rules are NOT modelled (zone offset = Unsupported unless the zone is UTC or Etc/GMT±N);
the list of zone names is read from the chrono-tz sources in the cargo registry."""
import re, os, glob
import z3
from .values import *
from .models import (rx, some, none, ok, err, deref, items_of, string_of, str_ref, pystr, zand, zor, znot, eq_scalar, site_generic,
                     conc_bytes, b2z, in_range, values_cmp, ordering, tup)
from .engine import conc_value

REG = []


def model(*keys):
    def deco(fn):
        for k in keys: REG.append((k, fn))
        return fn
    return deco


W = 64


def zz(x):
    if is_sym(x):
        if x.size() < W: return z3.ZeroExt(W - x.size(), x)
        return x
    return x


def sym_any(*xs): return any(is_sym(x) for x in xs)


def udiv(a, b):
    if is_sym(a): return z3.UDiv(a, z3.BitVecVal(b, a.size()))
    return a // b


def ite(c, a, b):
    if isinstance(c, bool): return a if c else b
    bits = W
    return z3.If(c, zz(a) if is_sym(a) else z3.BitVecVal(a, bits), zz(b) if is_sym(b) else z3.BitVecVal(b, bits))


def ule(a, b):
    if sym_any(a, b): return z3.ULE(zz(a) if is_sym(a) else z3.BitVecVal(a, W), zz(b) if is_sym(b) else z3.BitVecVal(b, W))
    return a <= b


def days_from_civil(y, m, d):
    """years 0..9999 only when symbolic (all quantities non-negative)"""
    y, m, d = zz(y), zz(m), zz(d)
    if not sym_any(y, m, d):
        y2 = y - (1 if m <= 2 else 0)
        era = (y2 if y2 >= 0 else y2 - 399) // 400
        yoe = y2 - era * 400
        doy = (153 * (m + (-3 if m > 2 else 9)) + 2) // 5 + d - 1
        doe = yoe * 365 + yoe // 4 - yoe // 100 + doy
        return era * 146097 + doe - 719468
    # shift by 400 years so that y2 >= 0 for year 0, Jan/Feb
    y2 = (y + 400) - ite(ule(m, 2), 1, 0)
    era = udiv(y2, 400); yoe = y2 - era * 400
    mm = ite(ule(m, 2), m + 9, m - 3)
    doy = udiv(153 * mm + 2, 5) + d - 1
    doe = yoe * 365 + udiv(yoe, 4) - udiv(yoe, 100) + doy
    return era * 146097 + doe - 719468 - 146097


def civil_from_days(z):
    if not is_sym(z):
        z += 719468
        era = (z if z >= 0 else z - 146096) // 146097
        doe = z - era * 146097
        yoe = (doe - doe // 1460 + doe // 36524 - doe // 146096) // 365
        y = yoe + era * 400
        doy = doe - (365 * yoe + yoe // 4 - yoe // 100)
        mp = (5 * doy + 2) // 153
        d = doy - (153 * mp + 2) // 5 + 1
        m = mp + 3 if mp < 10 else mp - 9
        return (y + (1 if m <= 2 else 0), m, d)
    z = z + 719468 + 146097     # shifted so the value is non-negative for years >= -400
    era = udiv(z, 146097); doe = z - era * 146097
    yoe = udiv(doe - udiv(doe, 1460) + udiv(doe, 36524) - udiv(doe, 146096), 365)
    y = yoe + era * 400 - 400
    doy = doe - (365 * yoe + udiv(yoe, 4) - udiv(yoe, 100))
    mp = udiv(5 * doy + 2, 153)
    d = doy - udiv(153 * mp + 2, 5) + 1
    m = ite(z3.ULT(mp, 10), mp + 3, mp - 9)
    return (y + ite(z3.ULE(m, 2), 1, 0), m, d)


def S(x):
    return z3.simplify(x) if is_sym(x) else x


def nd(y, m, d): return Agg('NaiveDate', 0, [S(y), S(m), S(d)])
def nt(h, mi, s, ns): return Agg('NaiveTime', 0, [S(h), S(mi), S(s), S(ns)])
def ndt(d, t): return Agg('NaiveDateTime', 0, [d, t])
def fixed(secs): return Agg('FixedOffset', 0, [S(secs)])
UTC = lambda: Agg('Utc', 0, [])


def cdt(local, off, zone, utc=None):
    """chrono::DateTime<Z>: local naive fields + offset seconds east + zone value + the instant (seconds since the epoch, UTC).
    The instant is carried explicitly so that re-zoning into a zone whose offset is opaque (named IANA zones) keeps it."""
    if utc is None: utc = naive_secs(local) - sx(off)
    return Agg('chrono::DateTime', 0, [local, S(off), zone, S(utc)])


def naive_secs(n):
    """NaiveDateTime -> seconds since 1970-01-01T00:00:00 of the naive fields (int or BV64)"""
    n = n
    d, t = n.fields[0], n.fields[1]
    days = days_from_civil(*d.fields)
    return days * 86400 + zz(t.fields[0]) * 3600 + zz(t.fields[1]) * 60 + zz(t.fields[2])


def naive_from_secs(secs, ns):
    if not is_sym(secs):
        days, tod = divmod(secs, 86400)
        y, m, d = civil_from_days(days)
        return ndt(nd(y, m, d), nt(tod // 3600, tod % 3600 // 60, tod % 60, ns))
    sh = secs + 86400 * 1000000      # keep it non-negative for unsigned division
    days = udiv(sh, 86400) - 1000000; tod = sh - udiv(sh, 86400) * 86400
    y, m, d = civil_from_days(days)
    h = udiv(tod, 3600); r = tod - h * 3600; mi = udiv(r, 60)
    return ndt(nd(y, m, d), nt(h, mi, r - mi * 60, ns))


def sx(x, bits=W):
    """sign-extend offsets (i32) into the 64-bit arithmetic"""
    if is_sym(x):
        return z3.SignExt(bits - x.size(), x) if x.size() < bits else x
    return x


def utc_secs(dt):
    if len(dt.fields) > 3 and dt.fields[3] is not None: return dt.fields[3]
    return naive_secs(dt.fields[0]) - sx(dt.fields[1])


def shift_naive(n, delta):
    """naive + delta seconds"""
    if not is_sym(delta) and delta == 0: return n
    return naive_from_secs(naive_secs(n) + sx(delta), n.fields[1].fields[3])


# --------------------------------------------------------------------------- zone names
_ZONES = None


def zone_names():
    global _ZONES
    if _ZONES is None:
        names = set()
        for f in glob.glob(os.path.expanduser('~/.cargo/registry/src/*/chrono-tz-0.6*/tz/*')):
            base = os.path.basename(f)
            if base in ('africa', 'antarctica', 'asia', 'australasia', 'etcetera', 'europe', 'northamerica', 'southamerica', 'backward'):
                for line in open(f, encoding='utf-8', errors='replace'):
                    p = line.split('#')[0].split()
                    if len(p) >= 2 and p[0] == 'Zone': names.add(p[1])
                    elif len(p) >= 3 and p[0] == 'Link': names.add(p[2])
        if not names: raise Unsupported('chrono-tz zone tables not found in the cargo registry')
        _ZONES = sorted(names)
    return _ZONES


def tz_value(name):
    return Agg('Tz', 0, [name])


def tz_fixed_offset(name):
    """offset (seconds east) for the zones this model covers, else None"""
    if name in ('UTC', 'Etc/UTC', 'Etc/GMT', 'GMT', 'Etc/UCT', 'UCT', 'Etc/Universal', 'Universal', 'Etc/Zulu', 'Zulu',
                'Etc/GMT+0', 'Etc/GMT-0', 'Etc/GMT0', 'GMT+0', 'GMT-0', 'GMT0', 'Etc/Greenwich', 'Greenwich'): return 0
    m = re.match(r'^Etc/GMT([+-])(\d{1,2})$', name)
    if m: return (-1 if m.group(1) == '+' else 1) * int(m.group(2)) * 3600
    return None


def tz_rule(name):
    """the zone's rule table as an UNINTERPRETED function instant (seconds, UTC) -> offset (seconds east): whatever holds for
    every such function holds for the real IANA table, on both sides of every transition"""
    return z3.Function('tzrule_' + re.sub(r'\W', '_', name), z3.BitVecSort(W), z3.BitVecSort(32))


def tz_offset_at(ex, tzv, what, instant=None):
    off = tz_fixed_offset(tzv.fields[0])
    if off is None:
        # named IANA zone: the rule tables are outside the model; the offset is an arbitrary value of chrono's range -
        # the same value for the same instant when the instant is known (uninterpreted function of the instant)
        ex.side['named_zone'] = True
        if instant is not None:
            i = instant if is_sym(instant) else z3.BitVecVal(instant, W)
            v = tz_rule(tzv.fields[0])(i)
        else:
            v = ex.fresh('zoneoff', 32)
        ex.solver.add(z3.And(v > -86400, v < 86400))
        return v
    return off


def parse_tz(ex, items):
    bs = conc_bytes(items)
    names = zone_names()
    if bs is not None:
        t = bs.decode('utf-8', 'replace')
        return ok(tz_value(t)) if t in set(names) else err(pystr('failed to parse timezone'))
    cand = []
    for n in names:
        nb = n.encode()
        if len(nb) != len(items): continue
        if any((not is_sym(x)) and x != y for x, y in zip(items, nb)): continue
        cand.append(n)
    conds = [zand(eq_scalar(x, y) for x, y in zip(items, n.encode())) for n in cand]
    conds.append(zand([znot(c) for c in conds]) if conds else True)
    k = ex.choose(conds)
    return ok(tz_value(cand[k])) if k < len(cand) else err(pystr('failed to parse timezone'))


@model('<Tz as FromStr>::from_str')
def m_tz_from_str(ex, site, a): return parse_tz(ex, items_of(ex, a[0]))


@model('<Tz as PartialEq>::eq')
def m_tz_eq(ex, site, a): return znorm(deref(ex, a[0])).fields[0] == znorm(deref(ex, a[1])).fields[0]


@model('Tz::name', '<TzOffset as OffsetName>::tz_id')
def m_tz_name(ex, site, a):
    v = deref(ex, a[0])
    if v.ty == 'TzOffset': v = v.fields[0]
    return str_ref(list(v.fields[0].encode()))


@model('display:Tz')
def d_tz(ex, v, opts): return list(v.fields[0].encode())


# --------------------------------------------------------------------------- text grammars (chrono::format::parse)
def classify(ex, items):
    out = []
    for b in items:
        if not is_sym(b):
            c = 'd' if 48 <= b <= 57 else (chr(b) if b in (58, 45, 43, 46) else ('w' if b in (9, 10, 11, 12, 13, 32) else 'o'))
        else:
            conds = [in_range(b, 48, 57), b == 58, b == 45, b == 43, b == 46, z3.Or(in_range(b, 9, 13), b == 32)]
            conds.append(z3.Not(z3.Or(conds)))
            c = ('d', ':', '-', '+', '.', 'w', 'o')[ex.choose(conds)]
        out.append((c, b))
    return out


class Cur:
    def __init__(s, toks): s.t = toks; s.i = 0
    def ws(s):
        while s.i < len(s.t) and s.t[s.i][0] == 'w': s.i += 1
    def peek(s): return s.t[s.i][0] if s.i < len(s.t) else None
    def lit(s, c):
        if s.peek() == c: s.i += 1; return True
        return False
    def number(s, lo, hi):
        ds = []
        while s.i < len(s.t) and s.t[s.i][0] == 'd' and len(ds) < hi:
            ds.append(s.t[s.i][1]); s.i += 1
        if len(ds) < lo: return None
        return ds
    def end(s): return s.i >= len(s.t)


_DIG = {}        # id of a numeric term built from decimal digit bytes -> those digits (text provenance)
_DVAL = {}


def dval(ds):
    """numeric value of decimal digit bytes; the same digits always give the same term, and the term remembers its digits"""
    if all(not is_sym(d) for d in ds): return int(bytes(ds)) if ds else 0
    key = tuple(d.get_id() if is_sym(d) else ('c', d) for d in ds)
    hit = _DVAL.get(key)
    if hit is not None: return hit
    acc = z3.BitVecVal(0, W)
    for d in ds:
        acc = acc * 10 + (z3.ZeroExt(W - 8, b2z(d) - 48))
    acc = z3.simplify(acc)
    _DVAL[key] = acc; _DIG[acc.get_id()] = list(ds)
    return acc


def digits_of(n, width):
    """digits a term was built from (left-padded with '0'), when it has that provenance"""
    if not is_sym(n): return None
    ds = _DIG.get(n.get_id())
    if ds is None or len(ds) > width: return None
    return [48] * (width - len(ds)) + list(ds)


def perr(): return err(Agg('ParseError', 0, []))


def leap(y):
    if not is_sym(y): return (y % 4 == 0 and y % 100 != 0) or y % 400 == 0
    y = zz(y)
    return z3.Or(z3.And(z3.URem(y, 4) == 0, z3.URem(y, 100) != 0), z3.URem(y, 400) == 0)


def valid_ymd(y, m, d):
    """calendar validity for years 0..9999 (symbolic) / any year (concrete)"""
    if not sym_any(y, m, d):
        if not (1 <= m <= 12) or d < 1: return False
        dim = [31, 29 if leap(y) else 28, 31, 30, 31, 30, 31, 31, 30, 31, 30, 31][m - 1]
        return d <= dim and -262143 <= y <= 262142
    y, m, d = zz(y), zz(m), zz(d)
    B = lambda v: v if is_sym(v) else z3.BitVecVal(v, W)
    y, m, d = B(y), B(m), B(d)
    dim = z3.If(z3.Or(m == 4, m == 6, m == 9, m == 11), z3.BitVecVal(30, W),
                z3.If(m == 2, z3.If(leap(y), z3.BitVecVal(29, W), z3.BitVecVal(28, W)), z3.BitVecVal(31, W)))
    return z3.And(z3.UGE(m, 1), z3.ULE(m, 12), z3.UGE(d, 1), z3.ULE(d, dim), z3.ULE(y, 262142))


def parse_naive_date(ex, items):
    c = Cur(classify(ex, items))
    c.ws()
    neg = False
    if c.peek() == '-': c.i += 1; neg = True; yd = c.number(1, 18)
    elif c.peek() == '+': c.i += 1; yd = c.number(1, 18)
    else: yd = c.number(1, 4)
    if yd is None: return None
    c.ws()
    if not c.lit('-'): return None
    md = c.number1() if False else (c.ws(), c.number(1, 2))[1]
    if md is None: return None
    c.ws()
    if not c.lit('-'): return None
    c.ws(); dd = c.number(1, 2)
    if dd is None: return None
    c.ws()
    if not c.end(): return None
    y, m, d = dval(yd), dval(md), dval(dd)
    if neg:
        if is_sym(y): raise Unsupported('negative symbolic year')
        y = -y
    if not ex.branch(valid_ymd(y, m, d)): return None
    return nd(y, m, d)


def parse_naive_time(ex, items):
    c = Cur(classify(ex, items))
    c.ws(); hd = c.number(1, 2)
    if hd is None: return None
    c.ws()
    if not c.lit(':'): return None
    c.ws(); md = c.number(1, 2)
    if md is None: return None
    save = c.i
    sec = None; nano = None
    # optional ":SS[.fffffffff]" + white space; on any failure the cursor goes back
    c.ws()
    okk = c.lit(':')
    if okk:
        c.ws(); sd = c.number(1, 2)
        if sd is None: okk = False
        else:
            sec = dval(sd)
            if c.peek() == '.':
                c.i += 1
                fd = c.number(1, 9)
                if fd is None: okk = False
                else:
                    while c.peek() == 'd': c.i += 1
                    nano = dval(fd + [48] * (9 - len(fd)))
            if okk: c.ws()
    if not okk:
        c.i = save; sec = None; nano = None
    c.ws()
    if not c.end(): return None
    h, mi = dval(hd), dval(md)
    if not ex.branch(zand([ule(h, 23), ule(mi, 59)])): return None
    if sec is None: return nt(h, mi, 0, 0)
    if not ex.branch(ule(sec, 60)): return None
    ns = nano if nano is not None else 0
    if ex.branch(eq_scalar(zz(sec) if is_sym(sec) else sec, 60)):
        return nt(h, mi, 59, (ns + 1000000000))
    return nt(h, mi, sec, ns)


@model('<NaiveDate as FromStr>::from_str')
def m_naive_date_from_str(ex, site, a):
    r = parse_naive_date(ex, items_of(ex, a[0]))
    return perr() if r is None else ok(r)


@model('<NaiveTime as FromStr>::from_str')
def m_naive_time_from_str(ex, site, a):
    r = parse_naive_time(ex, items_of(ex, a[0]))
    return perr() if r is None else ok(r)


@model('display:ParseError')
def d_parse_error(ex, v, opts): return [ord(c) for c in '<chrono parse error>']


@model('NaiveDate::from_ymd_opt')
def m_from_ymd_opt(ex, site, a):
    y, m, d = a
    if is_sym(y) and y.size() == 32:
        if not ex.branch(z3.And(y >= 0, y <= 9999)): raise Unsupported('symbolic year outside 0..9999')
    return some(nd(y, m, d)) if ex.branch(valid_ymd(y, m, d)) else none()


@model('NaiveTime::from_hms_opt', 'NaiveTime::from_hms_milli_opt', 'NaiveTime::from_hms_nano_opt', 'NaiveTime::from_hms_micro_opt')
def m_from_hms_opt(ex, site, a):
    h, mi, s = a[0], a[1], a[2]
    frac = a[3] if len(a) > 3 else 0
    scale = {'from_hms_opt': 1, 'from_hms_milli_opt': 1000000, 'from_hms_micro_opt': 1000, 'from_hms_nano_opt': 1}[site.method]
    lim = {'from_hms_opt': 0, 'from_hms_milli_opt': 1999, 'from_hms_micro_opt': 1999999, 'from_hms_nano_opt': 1999999999}[site.method]
    good = zand([ule(h, 23), ule(mi, 59), ule(s, 59), ule(frac, lim)])
    if not ex.branch(good): return none()
    ns = frac * scale if not is_sym(frac) else zz(frac) * scale
    if not is_sym(ns) and not is_sym(s):
        if ns >= 1000000000 and s != 59: return none()
    elif lim:
        # a fraction of a second or more denotes a leap second and is accepted only with sec == 59
        nsz = ns if is_sym(ns) else z3.BitVecVal(ns, 32)
        sz = s if is_sym(s) else z3.BitVecVal(s, 32)
        if not ex.branch(z3.Or(z3.ULT(nsz, 1000000000), sz == 59)): return none()
    return some(nt(h, mi, s, ns))


@model('<NaiveDate as Datelike>::year', '<NaiveDate as Datelike>::month', '<NaiveDate as Datelike>::day')
def m_datelike(ex, site, a):
    return deref(ex, a[0]).fields[{'year': 0, 'month': 1, 'day': 2}[site.method]]


@model('<NaiveTime as Timelike>::hour', '<NaiveTime as Timelike>::minute', '<NaiveTime as Timelike>::second', '<NaiveTime as Timelike>::nanosecond')
def m_timelike(ex, site, a):
    return deref(ex, a[0]).fields[{'hour': 0, 'minute': 1, 'second': 2, 'nanosecond': 3}[site.method]]


@model('<DateTime as Datelike>::year', '<DateTime as Datelike>::month', '<DateTime as Datelike>::day')
def m_dt_datelike(ex, site, a):
    return deref(ex, a[0]).fields[0].fields[0].fields[{'year': 0, 'month': 1, 'day': 2}[site.method]]


@model('<DateTime as Timelike>::hour', '<DateTime as Timelike>::minute', '<DateTime as Timelike>::second', '<DateTime as Timelike>::nanosecond')
def m_dt_timelike(ex, site, a):
    return deref(ex, a[0]).fields[0].fields[1].fields[{'hour': 0, 'minute': 1, 'second': 2, 'nanosecond': 3}[site.method]]


@model('NaiveDate::and_hms_opt', 'NaiveDate::and_hms_milli_opt', 'NaiveDate::and_hms_micro_opt', 'NaiveDate::and_hms_nano_opt')
def m_and_hms_opt(ex, site, a):
    # chrono: NaiveTime::from_hms*_opt(h, m, s[, frac]).map(|t| self.and_time(t))
    class S: pass
    s2 = S(); s2.method = site.method.replace('and_', 'from_')
    t = m_from_hms_opt(ex, s2, a[1:])
    if t.variant == 0: return none()
    d = a[0]
    if isinstance(d, Ptr): d = deref(ex, d)
    return some(ndt(d, t.fields[0]))


@model('NaiveDate::and_time', 'NaiveDateTime::new')
def m_and_time(ex, site, a): return ndt(deref(ex, a[0]), deref(ex, a[1]))
@model('NaiveDateTime::date')
def m_ndt_date(ex, site, a): return deref(ex, a[0]).fields[0]
@model('NaiveDateTime::time')
def m_ndt_time(ex, site, a): return deref(ex, a[0]).fields[1]


@model('TimeDelta::hours', 'TimeDelta::minutes', 'TimeDelta::seconds', 'TimeDelta::days')
def m_timedelta_new(ex, site, a):
    k = {'hours': 3600, 'minutes': 60, 'seconds': 1, 'days': 86400}[site.method]
    v = a[0]
    return Agg('TimeDelta', 0, [S(sx(v) * k) if is_sym(v) else v * k])


@model('<TimeDelta as Add>::add')
def m_timedelta_add(ex, site, a): return Agg('TimeDelta', 0, [S(a[0].fields[0] + a[1].fields[0])])
@model('TimeDelta::num_seconds')
def m_timedelta_num_seconds(ex, site, a): return deref(ex, a[0]).fields[0]


@model('FixedOffset::east_opt', 'FixedOffset::west_opt')
def m_fixed_east(ex, site, a):
    s = a[0]
    if is_sym(s):
        good = z3.And(s > -86400, s < 86400)
        if not ex.branch(good): return none()
        return some(fixed(s if site.method == 'east_opt' else -s))
    if not (-86400 < s < 86400): return none()
    return some(fixed(s if site.method == 'east_opt' else -s))


@model('FixedOffset::local_minus_utc')
def m_local_minus_utc(ex, site, a): return deref(ex, a[0]).fields[0]
@model('FixedOffset::utc_minus_local')
def m_utc_minus_local(ex, site, a):
    v = deref(ex, a[0]).fields[0]; return -v


@model('<Utc as Offset>::fix', '<FixedOffset as Offset>::fix', '<TzOffset as Offset>::fix')
def m_fix(ex, site, a):
    v = deref(ex, a[0])
    if v.ty == 'Utc': return fixed(0)
    if v.ty == 'TzOffset': return fixed(v.fields[1])
    return v


def znorm(zone):
    if zone.ty == 'UTC': return tz_value('UTC')
    return zone


def zone_offset_for_utc(ex, zone, utc_naive, instant=None):
    zone = znorm(zone)
    if zone.ty == 'Utc': return 0
    if zone.ty == 'FixedOffset': return zone.fields[0]
    if zone.ty == 'Tz':
        if instant is None and utc_naive is not None: instant = naive_secs(utc_naive)
        return tz_offset_at(ex, zone, 'with_timezone', instant)
    raise Unsupported('zone ' + zone.ty)


@model('<Utc as TimeZone>::from_utc_datetime', '<FixedOffset as TimeZone>::from_utc_datetime', '<Tz as TimeZone>::from_utc_datetime')
def m_from_utc_datetime(ex, site, a):
    zone = znorm(deref(ex, a[0])); n = deref(ex, a[1])
    off = zone_offset_for_utc(ex, zone, n)
    return cdt(shift_naive(n, off), off, zone, naive_secs(n) if is_sym(off) else None)


@model('<Utc as TimeZone>::from_local_datetime', '<FixedOffset as TimeZone>::from_local_datetime', '<Tz as TimeZone>::from_local_datetime')
def m_from_local_datetime(ex, site, a):
    zone = znorm(deref(ex, a[0])); n = deref(ex, a[1])
    if zone.ty == 'Tz' and tz_fixed_offset(zone.fields[0]) is None:
        return local_in_named_zone(ex, zone, n)
    off = zone_offset_for_utc(ex, zone, None)     # fixed zones: local and utc views have the same offset
    return Agg('LocalResult', 0, [cdt(n, off, zone)])


def local_in_named_zone(ex, zone, n):
    """local time -> instant in a zone with transitions: skipped (None), unique (Single) or repeated (Ambiguous) - which one
    depends on the rule table, so all three are explored; an offset o is admissible iff rule(local - o) == o"""
    ex.side['named_zone'] = True
    k = ex.pick(3)
    if k == 0: return Agg('LocalResult', 2, [])
    F = tz_rule(zone.fields[0]); loc = naive_secs(n)
    loc = loc if is_sym(loc) else z3.BitVecVal(loc, W)
    def adm(tag):
        o = ex.fresh('localoff' + tag, 32)
        ex.assume(z3.And(o > -86400, o < 86400, F(loc - z3.SignExt(W - 32, o)) == o)); return o
    o1 = adm('a')
    if k == 1: return Agg('LocalResult', 0, [cdt(n, o1, zone, loc - z3.SignExt(W - 32, o1))])
    o2 = adm('b'); ex.assume(o1 > o2)       # earliest first: the larger offset
    return Agg('LocalResult', 1, [cdt(n, o1, zone, loc - z3.SignExt(W - 32, o1)), cdt(n, o2, zone, loc - z3.SignExt(W - 32, o2))])


@model('<FixedOffset as TimeZone>::with_ymd_and_hms', '<Utc as TimeZone>::with_ymd_and_hms', '<Tz as TimeZone>::with_ymd_and_hms')
def m_with_ymd_and_hms(ex, site, a):
    zone = deref(ex, a[0]); y, m, d, h, mi, s = a[1:7]
    if is_sym(y) and y.size() == 32 and not ex.branch(z3.And(y >= 0, y <= 9999)): raise Unsupported('symbolic year outside 0..9999')
    good = zand([valid_ymd(y, m, d), ule(h, 23), ule(mi, 59), ule(s, 59)])
    if not ex.branch(good): return Agg('LocalResult', 2, [])
    zn = znorm(zone)
    if zn.ty == 'Tz' and tz_fixed_offset(zn.fields[0]) is None:
        return local_in_named_zone(ex, zn, ndt(nd(y, m, d), nt(h, mi, s, 0)))
    off = zone_offset_for_utc(ex, zone, None)
    return Agg('LocalResult', 0, [cdt(ndt(nd(y, m, d), nt(h, mi, s, 0)), off, zone)])


@model('LocalResult::single', 'LocalResult::earliest', 'LocalResult::latest')
def m_local_single(ex, site, a):
    r = a[0]
    if r.variant == 1 and site.method == 'earliest': return some(r.fields[0])
    if r.variant == 1 and site.method == 'latest': return some(r.fields[1])
    return some(r.fields[0]) if r.variant == 0 else none()


@model('LocalResult::unwrap')
def m_local_unwrap(ex, site, a):
    r = a[0]
    if r.variant != 0: raise Panic('unwrap', 'No such local time', ex.where())
    return r.fields[0]


@model('<DateTime as Timelike>::with_nanosecond')
def m_with_nanosecond(ex, site, a):
    dt = deref(ex, a[0]); ns = a[1]
    if not ex.branch(ule(ns, 1999999999)): return none()
    n = dt.fields[0]; t = n.fields[1]
    return some(cdt(ndt(n.fields[0], nt(t.fields[0], t.fields[1], t.fields[2], ns)), dt.fields[1], dt.fields[2], dt.fields[3] if len(dt.fields) > 3 else None))


@model('DateTime::with_timezone')
def m_with_timezone(ex, site, a):
    dt = deref(ex, a[0]); zone = znorm(deref(ex, a[1]))
    off = zone_offset_for_utc(ex, zone, None, utc_secs(dt))
    old = dt.fields[1]
    if (not is_sym(off)) and (not is_sym(old)) and off == old: return cdt(dt.fields[0], off, zone, dt.fields[3] if len(dt.fields) > 3 else None)
    delta = sx(off) - sx(old)
    # a symbolic shift: carry the instant explicitly (re-deriving it from the shifted local fields is not tractable)
    return cdt(shift_naive(dt.fields[0], delta), off, zone, utc_secs(dt) if is_sym(delta) else None)


@model('DateTime::naive_local')
def m_naive_local(ex, site, a): return deref(ex, a[0]).fields[0]
@model('DateTime::date_naive')
def m_date_naive(ex, site, a): return deref(ex, a[0]).fields[0].fields[0]     # the date of the local view


@model('DateTime::naive_utc')
def m_naive_utc(ex, site, a):
    dt = deref(ex, a[0]); return shift_naive(dt.fields[0], -sx(dt.fields[1]) if is_sym(dt.fields[1]) else -dt.fields[1])
@model('DateTime::timezone')
def m_timezone(ex, site, a): return deref(ex, a[0]).fields[2]


@model('DateTime::offset')
def m_offset(ex, site, a):
    dt = deref(ex, a[0]); z = dt.fields[2]
    if z.ty == 'Tz': return Ptr(Cell(Agg('TzOffset', 0, [z, dt.fields[1]])))
    if z.ty == 'Utc': return Ptr(Cell(z))
    return Ptr(Cell(fixed(dt.fields[1])))


@model('DateTime::timestamp')
def m_timestamp(ex, site, a): return S(utc_secs(deref(ex, a[0])))
@model('DateTime::timestamp_subsec_nanos')
def m_subsec(ex, site, a): return deref(ex, a[0]).fields[0].fields[1].fields[3]
@model('DateTime::timestamp_millis')
def m_timestamp_millis(ex, site, a):
    dt = deref(ex, a[0]); return S(utc_secs(dt) * 1000 + udiv(zz(dt.fields[0].fields[1].fields[3]), 1000000))


def two(n):
    if not is_sym(n): return [48 + n // 10 % 10, 48 + n % 10]
    p = digits_of(n, 2)
    if p is not None: return p
    n = zz(n)
    return [z3.simplify(z3.Extract(7, 0, z3.URem(udiv(n, 10), 10)) + 48), z3.simplify(z3.Extract(7, 0, z3.URem(n, 10)) + 48)]


def offset_text(ex, off, colon=True, z_for_utc=False):
    if is_sym(off):
        neg = ex.branch(sx(off) < 0)
        a = z3.If(sx(off) < 0, -sx(off), sx(off))
    else:
        neg = off < 0; a = abs(off)
    if z_for_utc and not neg:
        if ex.branch(eq_scalar(a, 0)): return [90]
    hh = udiv(a, 3600); mm = udiv(a - hh * 3600, 60)
    return [45 if neg else 43] + two(hh) + ([58] if colon else []) + two(mm)


@model('display:FixedOffset', 'display:TzOffset')
def d_fixed_offset(ex, v, opts):
    off = v.fields[1] if v.ty == 'TzOffset' else v.fields[0]
    if v.ty == 'TzOffset':
        raise Unsupported('Display of TzOffset (zone abbreviation)')
    secs_rem = None
    return offset_text(ex, off)


@model('<FixedOffset as ToString>::to_string')
def m_fixed_to_string(ex, site, a):
    return string_of(offset_text(ex, deref(ex, a[0]).fields[0]))


def four(y):
    if not is_sym(y): return [ord(c) for c in '%04d' % y]
    p = digits_of(y, 4)
    if p is not None: return p
    y = zz(y)
    return [z3.simplify(z3.Extract(7, 0, z3.URem(udiv(y, k), 10)) + 48) for k in (1000, 100, 10, 1)]


@model('DateTime::to_rfc3339_opts', 'DateTime::to_rfc3339')
def m_to_rfc3339(ex, site, a):
    dt = deref(ex, a[0])
    n = dt.fields[0]; d = n.fields[0]; t = n.fields[1]
    y = d.fields[0]
    if not is_sym(y) and not (0 <= y <= 9999): raise Unsupported('rfc3339 of year outside 0..9999')
    out = four(y) + [45] + two(d.fields[1]) + [45] + two(d.fields[2]) + [84] + two(t.fields[0]) + [58] + two(t.fields[1]) + [58]
    ns = t.fields[3]; sec = t.fields[2]
    if is_sym(ns):
        # printing needs the digit count of the fraction: the value is fixed to the solver's choice on this path (a stated
        # sampling step, recorded in the decision trace)
        ns = ex.concretize(ns); ex.side['concretized_fraction'] = True
    if ns >= 1000000000:
        sec = 60; ns -= 1000000000
    out += two(sec)
    if site.method == 'to_rfc3339':
        fmtv = 4; use_z = False
    else:
        fmtv = a[1].variant; use_z = a[2]
    digits = {0: 0, 1: 3, 2: 6, 3: 9}.get(fmtv)
    if digits is None:
        digits = 0 if ns == 0 else (3 if ns % 1000000 == 0 else (6 if ns % 1000 == 0 else 9))
    if digits:
        out += [46] + [ord(c) for c in ('%09d' % ns)[:digits]]
    out += offset_text(ex, dt.fields[1], True, bool(use_z))
    return string_of(out)


def parse_rfc3339(ex, items):
    """chrono DateTime::parse_from_rfc3339: YYYY-MM-DD(T|t| )HH:MM:SS[.f+](Z|z|±HH:MM) -> DateTime<FixedOffset> or None"""
    n = len(items)
    if n < 20: return None
    cl = classify(ex, items[:10])
    if [c for c, b in cl] != ['d', 'd', 'd', 'd', '-', 'd', 'd', '-', 'd', 'd']: return None
    sep = items[10]
    if not ex.branch(zor([eq_scalar(sep, 84), eq_scalar(sep, 116), eq_scalar(sep, 32)])): return None
    cl2 = classify(ex, items[11:19])
    if [c for c, b in cl2] != ['d', 'd', ':', 'd', 'd', ':', 'd', 'd']: return None
    y, m, d = dval(items[0:4]), dval(items[5:7]), dval(items[8:10])
    h, mi, s = dval(items[11:13]), dval(items[14:16]), dval(items[17:19])
    i = 19; ns = 0
    rest = classify(ex, items[19:])
    k = 0
    if rest and rest[0][0] == '.':
        k = 1; fd = []
        while k < len(rest) and rest[k][0] == 'd':
            if len(fd) < 9: fd.append(rest[k][1])
            k += 1
        if not fd: return None
        ns = dval(fd + [48] * (9 - len(fd)))
    tail = rest[k:]
    if not tail: return None
    if len(tail) == 1 and tail[0][0] == 'o':
        b = tail[0][1]
        if not ex.branch(zor([eq_scalar(b, 90), eq_scalar(b, 122)])): return None
        off = 0
    else:
        if [c for c, b in tail] not in (['+', 'd', 'd', ':', 'd', 'd'], ['-', 'd', 'd', ':', 'd', 'd']): return None
        oh, om = dval([tail[1][1], tail[2][1]]), dval([tail[4][1], tail[5][1]])
        if not ex.branch(zand([ule(oh, 23), ule(om, 59)])): return None
        off = zz(oh) * 3600 + zz(om) * 60 if sym_any(oh, om) else oh * 3600 + om * 60
        if tail[0][0] == '-': off = -off
        if is_sym(off): off = z3.simplify(z3.Extract(31, 0, off))
    if not ex.branch(zand([valid_ymd(y, m, d), ule(h, 23), ule(mi, 59), ule(s, 60)])): return None
    if ex.branch(eq_scalar(zz(s) if is_sym(s) else s, 60)):
        s = 59; ns = ns + 1000000000
    return cdt(ndt(nd(y, m, d), nt(h, mi, s, ns)), off, fixed(off))


@model('DateTime::parse_from_rfc3339')
def m_parse_from_rfc3339(ex, site, a):
    r = parse_rfc3339(ex, items_of(ex, a[0]))
    return perr() if r is None else ok(r)


@model('<DateTime as PartialEq>::eq')
def m_cdt_eq(ex, site, a):
    x, y = deref(ex, a[0]), deref(ex, a[1])
    return zand([eq_scalar(utc_secs(x), utc_secs(y)), eq_scalar(x.fields[0].fields[1].fields[3], y.fields[0].fields[1].fields[3])])


def cdt_cmp(ex, x, y):
    sx_, sy_ = utc_secs(x), utc_secs(y)
    if not sym_any(sx_, sy_):
        c = (sx_ > sy_) - (sx_ < sy_)
    else:
        a_, b_ = (sx_ if is_sym(sx_) else z3.BitVecVal(sx_, W)), (sy_ if is_sym(sy_) else z3.BitVecVal(sy_, W))
        c = ex.choose([a_ < b_, a_ == b_, a_ > b_]) - 1
    if c != 0: return c
    return values_cmp(ex, x.fields[0].fields[1].fields[3], y.fields[0].fields[1].fields[3])


@model('<DateTime as Ord>::cmp')
def m_cdt_cmp(ex, site, a):
    return ordering(cdt_cmp(ex, deref(ex, a[0]), deref(ex, a[1])) + 1)


@model('<DateTime as PartialOrd>::partial_cmp')
def m_cdt_pcmp(ex, site, a):
    return some(ordering(cdt_cmp(ex, deref(ex, a[0]), deref(ex, a[1])) + 1))


def naive_cmp(ex, x, y):
    for p, q in zip(x.fields, y.fields):
        if isinstance(p, Agg): c = naive_cmp(ex, p, q)
        else: c = values_cmp(ex, p, q)
        if c != 0: return c
    return 0


@model('<NaiveDate as Ord>::cmp', '<NaiveTime as Ord>::cmp', '<NaiveDateTime as Ord>::cmp')
def m_naive_cmp(ex, site, a):
    return ordering(naive_cmp(ex, deref(ex, a[0]), deref(ex, a[1])) + 1)


@model('<NaiveDate as PartialOrd>::partial_cmp', '<NaiveTime as PartialOrd>::partial_cmp')
def m_naive_pcmp(ex, site, a):
    return some(ordering(naive_cmp(ex, deref(ex, a[0]), deref(ex, a[1])) + 1))


@model('display:NaiveDate')
def d_naive_date(ex, v, opts):
    return four(v.fields[0]) + [45] + two(v.fields[1]) + [45] + two(v.fields[2])


@model('display:NaiveTime')
def d_naive_time(ex, v, opts):
    out = two(v.fields[0]) + [58] + two(v.fields[1]) + [58]
    ns = v.fields[3]; sec = v.fields[2]
    if is_sym(ns): raise Unsupported('Display of symbolic nanoseconds')
    if ns >= 1000000000: sec = 60; ns -= 1000000000
    out += two(sec)
    if ns:
        digits = 3 if ns % 1000000 == 0 else (6 if ns % 1000 == 0 else 9)
        out += [46] + [ord(c) for c in ('%09d' % ns)[:digits]]
    return out


@model('NaiveDate::format', 'NaiveTime::format', 'NaiveDateTime::format', 'DateTime::format')
def m_format(ex, site, a):
    """strftime-style formatting: returns a DelayedFormat whose Display renders the common specifiers"""
    from .models import conc_bytes
    v = deref(ex, a[0]); fmt = conc_bytes(items_of(ex, a[1]))
    if fmt is None: raise Unsupported('chrono format with a symbolic format string')
    return Agg('DelayedFormat', 0, [v, fmt.decode('utf-8')])


@model('display:DelayedFormat')
def d_delayed_format(ex, v, opts):
    val, fmt = v.fields
    date = time = None
    if val.ty == 'NaiveDate': date = val
    elif val.ty == 'NaiveTime': time = val
    elif val.ty == 'NaiveDateTime': date, time = val.fields[0], val.fields[1]
    elif val.ty == 'chrono::DateTime': date, time = val.fields[0].fields[0], val.fields[0].fields[1]
    out = []; i = 0
    def frac(n):
        ns = time.fields[3]
        if is_sym(ns): ns = ex.concretize(ns)
        ns = ns % 1000000000
        if n is None:
            if ns == 0: return []
            n = 3 if ns % 1000000 == 0 else (6 if ns % 1000 == 0 else 9)
        return [ord(c) for c in ('%09d' % ns)[:n]]
    while i < len(fmt):
        c = fmt[i]
        if c != '%': out += list(c.encode('utf-8')); i += 1; continue
        sp = fmt[i + 1:i + 4]
        def need(x, what):
            if x is None: raise Unsupported('strftime %s on a value without that part' % what)
            return x
        if sp[:1] == 'Y': out += four(need(date, 'date').fields[0]); i += 2
        elif sp[:1] == 'm': out += two(need(date, 'date').fields[1]); i += 2
        elif sp[:1] == 'd': out += two(need(date, 'date').fields[2]); i += 2
        elif sp[:1] == 'H': out += two(need(time, 'time').fields[0]); i += 2
        elif sp[:1] == 'M': out += two(need(time, 'time').fields[1]); i += 2
        elif sp[:1] == 'S': out += two(need(time, 'time').fields[2]); i += 2
        elif sp[:1] == 'F': out += four(need(date, 'date').fields[0]) + [45] + two(date.fields[1]) + [45] + two(date.fields[2]); i += 2
        elif sp[:1] == 'T': out += two(need(time, 'time').fields[0]) + [58] + two(time.fields[1]) + [58] + two(time.fields[2]); i += 2
        elif sp[:1] == '%': out.append(37); i += 2
        elif sp[:2] == '.f': f_ = frac(None); out += ([46] + f_) if f_ else []; i += 3
        elif sp[:3] in ('.3f', '.6f', '.9f'): out += [46] + frac(int(sp[1])); i += 4
        elif sp[:2] in ('3f', '6f', '9f'): out += frac(int(sp[0])); i += 3
        elif sp[:1] == 'f': out += frac(9); i += 2
        else: raise Unsupported('strftime specifier %' + sp[:2])
    return out


@model('<NaiveTime as Timelike>::num_seconds_from_midnight')
def m_num_seconds_from_midnight(ex, site, a):
    t = deref(ex, a[0]); h, m_, s_ = t.fields[0], t.fields[1], t.fields[2]
    if not any(is_sym(x) for x in (h, m_, s_)): return h * 3600 + m_ * 60 + s_
    z = lambda x: x if is_sym(x) else z3.BitVecVal(x, 32)
    return z(h) * 3600 + z(m_) * 60 + z(s_)


@model('Utc::now')
def m_utc_now(ex, site, a):
    return cdt(ndt(nd(2024, 1, 1), nt(0, 0, 0, 0)), 0, UTC())


def dt_to_vj(cz, dt):
    """canonical JSON of a chrono DateTime<Tz> under a model (see replay/src/vj.rs dt_to)"""
    c = cz.c
    n = dt.fields[0]; d = n.fields[0]; t = n.fields[1]
    loc = [c(x) for x in d.fields] + [c(x) for x in t.fields]
    off = c(dt.fields[1])
    if off >= 1 << 31: off -= 1 << 32
    secs = days_from_civil(loc[0], loc[1], loc[2]) * 86400 + loc[3] * 3600 + loc[4] * 60 + loc[5] - off
    if len(dt.fields) > 3 and dt.fields[3] is not None:
        secs = c(dt.fields[3])
        if secs >= 1 << 63: secs -= 1 << 64
    ns = loc[6]
    z = dt.fields[2]
    name = z.fields[0] if z.ty == 'Tz' else ('UTC' if z.ty == 'Utc' else '?fixed')
    return {'t': 'dt', 'secs': secs, 'ns': ns % 1000000000 if ns < 1000000000 else ns, 'off': off, 'tz': name}


@model('<NaiveDate as Debug>::fmt', '<NaiveTime as Debug>::fmt', '<NaiveDate as Display>::fmt', '<NaiveTime as Display>::fmt')
def m_naive_debug_fmt(ex, site, a):
    from .models_fmt import sink_of
    v = deref(ex, a[0]); f = sink_of(ex, a[1])
    if v.ty == 'NaiveDate':
        y = v.fields[0]
        if not is_sym(y) and not (0 <= y <= 9999): raise Unsupported('Debug of NaiveDate outside years 0..9999')
        f.sink.extend(d_naive_date(ex, v, None))
    else:
        f.sink.extend(d_naive_time(ex, v, None))
    return ok(unit())
