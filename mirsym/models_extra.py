"""Less common std functions that a refactoring of the crate may start to use (added after seeded changes showed that a missing
model turns a detectable defect into an inconclusive run)."""
import struct, math
import z3
from .values import *
from .models import rx, some, none, ok, err, deref, items_of, string_of, unit, tup, zand, zor, eq_scalar
from .engine import F64, RNE

REG = []


def model(*keys):
    def deco(fn):
        for k in keys: REG.append((k, fn))
        return fn
    return deco


def fp(x): return x if is_sym(x) else z3.FPVal(float(x), F64)


@model('str::is_ascii', '[T]::is_ascii', 'String::is_ascii')
def m_is_ascii(ex, site, a):
    return zand([(b < 0x80) if not is_sym(b) else z3.ULT(b, 0x80) for b in items_of(ex, a[0])])


@model('u8::is_ascii', 'char::is_ascii')
def m_scalar_is_ascii(ex, site, a):
    c = deref(ex, a[0]); return (c < 0x80) if not is_sym(c) else z3.ULT(c, 0x80)


@model('u8::eq_ignore_ascii_case', 'char::eq_ignore_ascii_case')
def m_eq_ignore_case(ex, site, a):
    def low(c):
        if not is_sym(c): return c + 32 if 65 <= c <= 90 else c
        return z3.If(z3.And(z3.UGE(c, 65), z3.ULE(c, 90)), c + 32, c)
    x, y = low(deref(ex, a[0])), low(deref(ex, a[1]))
    return eq_scalar(x, y)


@model('f64::mul_add')
def m_mul_add(ex, site, a):
    x, y, z = a
    if not any(is_sym(v) for v in a):
        # exact product + one rounding: through exact rationals
        from fractions import Fraction
        try: return float(Fraction(x) * Fraction(y) + Fraction(z))
        except (ValueError, OverflowError): return x * y + z
    return z3.fpFMA(RNE, fp(x), fp(y), fp(z))


@model('f64::copysign')
def m_copysign(ex, site, a):
    x, y = a
    if not is_sym(x) and not is_sym(y): return math.copysign(x, y)
    ax = z3.fpAbs(fp(x))
    return z3.If(z3.fpIsNegative(fp(y)), z3.fpNeg(ax), ax)


@model(rx(r'^(BTreeMap)::(pop_first|pop_last)$'))
def m_pop_first(ex, site, a):
    from .models_coll import map_items
    items, ty = map_items(ex, a[0])
    if not items: return none()
    kv = items.pop(0 if site.method == 'pop_first' else -1)
    return some(tup(kv.fields[0], kv.fields[1]))


@model(rx(r'^(BTreeMap|HashMap)::remove_entry$'))
def m_remove_entry(ex, site, a):
    from .models_coll import map_items, map_find
    items, ty = map_items(ex, a[0])
    i, found = map_find(ex, items, a[1], ty == 'BTreeMap')
    if not found: return none()
    kv = items.pop(i); return some(tup(kv.fields[0], kv.fields[1]))


@model(rx(r'^(HashSet|BTreeSet)::retain$'))
def m_set_retain(ex, site, a):
    from .models_coll import map_items
    items, ty = map_items(ex, a[0])
    keep = [kv for kv in items if ex.branch(ex.call_value(a[1], [Ptr(Cell(kv), (0,))]))]
    items[:] = keep; return unit()


@model(rx(r'^(HashSet|BTreeSet)::(is_subset|is_superset|is_disjoint)$'))
def m_set_rel(ex, site, a):
    from .models_coll import map_items, map_find
    x, tx = map_items(ex, a[0]); y, ty = map_items(ex, a[1])
    if site.method == 'is_superset': x, y, tx, ty = y, x, ty, tx
    if site.method == 'is_disjoint':
        return not any(map_find(ex, y, kv.fields[0], ty.startswith('BTree'))[1] for kv in x)
    return all(map_find(ex, y, kv.fields[0], ty.startswith('BTree'))[1] for kv in x)


@model(rx(r'^(HashSet|BTreeSet)::(union|intersection|difference)$'))
def m_set_ops(ex, site, a):
    from .models_coll import map_items, map_find
    from .models_iter import IterV
    x, tx = map_items(ex, a[0]); y, ty = map_items(ex, a[1])
    inb = lambda kv: map_find(ex, y, kv.fields[0], ty.startswith('BTree'))[1]
    if site.method == 'union':
        ina = lambda kv: map_find(ex, x, kv.fields[0], tx.startswith('BTree'))[1]
        out = [kv for kv in x] + [kv for kv in y if not ina(kv)]
    elif site.method == 'intersection': out = [kv for kv in x if inb(kv)]
    else: out = [kv for kv in x if not inb(kv)]
    return IterV(src=[Ptr(Cell(kv), (0,)) for kv in out], tag=site.method)


@model('String::retain')
def m_string_retain(ex, site, a):
    from .models_coll import the_vec, utf8_width, decode_utf8_char
    v = the_vec(ex, a[0]); out = []; i = 0
    while i < len(v.items):
        w = utf8_width(ex, v.items[i]); ch = decode_utf8_char(ex, v.items[i:i + w])
        if ex.branch(ex.call_value(a[1], [ch])): out += v.items[i:i + w]
        i += w
    v.items[:] = out; return unit()


@model('Entry::or_insert_with_key')
def m_entry_or_insert_with_key(ex, site, a):
    from .models_coll import map_items
    e = a[0]; items, ty = map_items(ex, e.fields[0]); i = e.fields[2]
    if e.variant == 0: items.insert(i, tup(e.fields[1], ex.call_value(a[1], [Ptr(Cell(e.fields[1]))])))
    return Ptr(Cell(items[i]), (1,))


@model('Entry::key')
def m_entry_key(ex, site, a): return Ptr(Cell(a[0].fields[1]))


@model(rx(r'^<.* as Iterator>::scan$'))
def m_scan(ex, site, a):
    from .models_iter import to_iter, lazy
    it = to_iter(ex, a[0]); st = Cell(a[1]); f = a[2]; done = [False]
    def nx(ex):
        if done[0]: return None
        v = it.next(ex)
        if v is None: return None
        r = ex.call_value(f, [Ptr(st), v])
        if r.variant == 0: done[0] = True; return None
        return r.fields[0]
    return lazy(nx, 'scan')


@model('bool::then', 'bool::then_some')
def m_bool_then(ex, site, a):
    c = a[0]
    hit = c if isinstance(c, bool) else ex.branch(c)
    if not hit: return none()
    return some(ex.call_value(a[1], []) if site.method == 'then' else a[1])


@model('Cursor::position')
def m_cursor_position(ex, site, a):
    c = deref(ex, a[0]); return c.pos


@model('Cursor::set_position')
def m_cursor_set_position(ex, site, a):
    c = deref(ex, a[0]); c.pos = a[1]; return unit()


@model('Cursor::get_ref', 'Cursor::into_inner')
def m_cursor_get_ref(ex, site, a):
    from .models import str_ref
    c = deref(ex, a[0]); return SliceRef(VecV(list(c.data), 'vec'), 0, len(c.data), 'slice')


@model(rx(r'^\*mut .*::write$'), 'ptr::write', 'ptr::write_unaligned')
def m_ptr_write(ex, site, a):
    """*dst = v without dropping the old value"""
    p = a[0]
    if p is NULL or isinstance(p, NullPtr): raise Panic('null-deref', 'write through a null pointer', ex.where())
    ex.store(p, a[1]); return unit()


@model(rx(r'^\*(const|mut) .*::read$'), 'ptr::read')
def m_ptr_read(ex, site, a):
    p = a[0]
    if p is NULL or isinstance(p, NullPtr): raise Panic('null-deref', 'read through a null pointer', ex.where())
    return ex.load(p)


@model('ptr::eq', 'ptr::addr_eq')
def m_ptr_eq(ex, site, a):
    """address equality: the same cell and projection, or the very same object"""
    x, y = a[0], a[1]
    if isinstance(x, Ptr) and isinstance(y, Ptr):
        if x.cell is y.cell and tuple(x.path) == tuple(y.path): return True
        try: return ex.load(x) is ex.load(y) and isinstance(ex.load(x), (Agg, VecV))
        except Panic: return False
    return x is y


@model(rx(r'^(slice::)?Iter::as_slice$'), 'Iter::as_slice', 'IterMut::as_slice', 'IntoIter::as_slice')
def m_iter_as_slice(ex, site, a):
    """the elements a slice iterator has not yielded yet"""
    from .models_iter import IterV
    it = a[0]
    while isinstance(it, Ptr): it = ex.load(it)
    if not isinstance(it, IterV) or it.src is None: raise Unsupported('as_slice on a lazy iterator')
    rest = []
    for v in it.src[it.pos:it.end]:
        w = v
        while isinstance(w, Ptr): w = ex.load(w)
        rest.append(w)
    return SliceRef(VecV(rest, 'vec'), 0, len(rest), 'slice')


@model('char::encode_utf8')
def m_char_encode_utf8(ex, site, a):
    """writes the char into the caller's buffer and returns the written prefix as &mut str; panics when the buffer is too small"""
    from .models_coll import encode_utf8, as_slice
    bs = encode_utf8(ex, a[0]); buf = as_slice(ex, a[1])
    if len(bs) > len(buf):
        raise Panic('encode_utf8', 'encode_utf8: need %d bytes to encode the char but buffer has just %d' % (len(bs), len(buf)), ex.where())
    buf.vec.items[buf.lo:buf.lo + len(bs)] = bs
    return SliceRef(buf.vec, buf.lo, buf.lo + len(bs), 'str')


# ----- arithmetic operators on references to primitives (`byte - b'0'` with `byte: &u8`): core's forward_ref_binop impls
_PRIM = r'(u8|u16|u32|u64|u128|usize|i8|i16|i32|i64|i128|isize|f64|f32)'
@model(rx(r'^<&?' + _PRIM + r' as (Add|Sub|Mul|Div|Rem|BitAnd|BitOr|BitXor|Shl|Shr)(<&?\w+>)?>::\w+$'))
def m_ref_binop(ex, site, a):
    import re
    m = re.match(r'^<&?(\w+) as (\w+)[<>]', site.key)
    ty, op = m.group(1), m.group(2)
    x, y = a[0], a[1]
    while isinstance(x, Ptr): x = ex.load(x)
    while isinstance(y, Ptr): y = ex.load(y)
    if op in ('Add', 'Sub', 'Mul') and not ty.startswith('f'):
        # the operator impls inherit the overflow checks of the calling crate (the dump is made with overflow-checks=on)
        r = ex.binop(op + 'WithOverflow', x, y, ty)
        val, ovf = r.fields
        if ex.branch(ovf): raise Panic('overflow', 'attempt to %s with overflow' % {'Add': 'add', 'Sub': 'subtract', 'Mul': 'multiply'}[op], ex.where())
        return val
    return ex.binop(op, x, y, ty)
