"""Number models: f64 <-> text (exact for short decimals, axiomatised otherwise), integer parsing, f64 methods."""
import re, math, struct
import z3
from .values import *
from .models import (rx, some, none, ok, err, deref, items_of, string_of, zand, zor, znot, eq_scalar, site_generic, conc_bytes,
                     b2z, in_range)
from .engine import F64, RNE, fp_to_float

REG = []


def model(*keys):
    def deco(fn):
        for k in keys: REG.append((k, fn))
        return fn
    return deco


def rust_f64_str(x):
    """Rust's `Display for f64` on a concrete float (shortest round-trip digits, never an exponent)"""
    if x != x: return 'NaN'
    if x == float('inf'): return 'inf'
    if x == float('-inf'): return '-inf'
    r = repr(x)
    neg = r.startswith('-')
    if neg: r = r[1:]
    if 'e' in r or 'E' in r:
        m, e = r.lower().split('e'); e = int(e)
        if '.' in m: ip, fp = m.split('.')
        else: ip, fp = m, ''
        digits = ip + fp; point = len(ip) + e
        if point <= 0: s = '0.' + '0' * (-point) + digits
        elif point >= len(digits): s = digits + '0' * (point - len(digits))
        else: s = digits[:point] + '.' + digits[point:]
        if '.' in s: s = s.rstrip('0').rstrip('.')
    else:
        s = r[:-2] if r.endswith('.0') else r
    return ('-' if neg else '') + s


class FloatText:
    """provenance of a symbolic f64 that came from parsing decimal text: sign, integer digits, fraction digits"""
    __slots__ = ('neg', 'ip', 'fp')

    def __init__(s, neg, ip, fp): s.neg = neg; s.ip = ip; s.fp = fp


def f64_display(ex, v, opts=None):
    if not is_sym(v):
        if opts and 'precision' in opts:
            return [ord(c) for c in ('%.*f' % (opts['precision'], v))]
        return [ord(c) for c in rust_f64_str(v)]
    prov = ex.float_defs.get(v.get_id())
    if prov is None:
        hook = ex.side.get('f64_display_hook')
        if hook is not None: return hook(ex, v, opts)
        src = ex.side.get('float_text_src', {}).get(v.get_id())
        if src is not None:
            # a float parsed from text outside the exact fragment (large exponents): its source digits are fixed to the
            # solver's choice on this path (a stated sampling step, recorded in the decision trace), then std's own printing
            t = bytes(ex.concretize(b) & 0xff for b in src).decode('ascii', 'replace')
            ex.side['concretized_float_text'] = True
            ex.assume(z3.fpEQ(v, z3.FPVal(float(t), F64)) if float(t) == float(t) else z3.fpIsNaN(v))
            return f64_display(ex, float(t), opts)
        raise Unsupported('Display of a symbolic f64 without decimal provenance')
    if opts and 'precision' in opts: raise Unsupported('precision formatting of symbolic f64')
    # canonical form of a short decimal: no leading zeros, no trailing fraction zeros (exact for <= 15 significant digits)
    ip = list(prov.ip); fp = list(prov.fp)
    return ([45] if prov.neg else []) + ip + ([46] + fp if fp else [])


def intern_decimal(ex, neg, ip, fp):
    """symbolic f64 for the decimal text [-]ip[.fp] (<= 15 digits, no exponent).  The digits are normalised (leading
    integer zeros and trailing fraction zeros stripped, forking), equal normal forms share one FP variable, and distinct
    normal forms are distinct values (exact for <= 15 significant digits).  The defining arithmetic constraint
    x = N / 10^k (one correctly rounded IEEE division) is added only when the value flows into float arithmetic."""
    ip = [z3.simplify(d) if is_sym(d) else d for d in ip]; fp = [z3.simplify(d) if is_sym(d) else d for d in fp]
    while len(ip) > 1 and ex.branch(eq_scalar(ip[0], 48)): ip.pop(0)
    if not ip: ip = [48]
    while fp and ex.branch(eq_scalar(fp[-1], 48)): fp.pop()
    key = (neg, tuple(d.get_id() if is_sym(d) else ('c', d) for d in ip), tuple(d.get_id() if is_sym(d) else ('c', d) for d in fp))
    tab = ex.side.setdefault('float_intern', {})
    hit = tab.get(key)
    if hit is not None: return hit[0]
    if all(not is_sym(d) for d in ip + fp):
        v = float(('-' if neg else '') + bytes(ip).decode() + ('.' + bytes(fp).decode() if fp else ''))
        tab[key] = (v, neg, ip, fp); return v
    v = ex.fresh('pf', 'f64')
    ex.solver.add(z3.Not(z3.fpIsNaN(v)), z3.Not(z3.fpIsInf(v)))
    ex.solver.add(z3.fpIsNegative(v) if neg else z3.Not(z3.fpIsNegative(v)))
    allz = zand([eq_scalar(d, 48) for d in ip + fp])
    ex.solver.add(z3.fpIsZero(v) == (allz if is_sym(allz) else z3.BoolVal(bool(allz))))
    # equal digits <=> equal value, against every other decimal of this path
    for k2, (v2, neg2, ip2, fp2) in tab.items():
        same_shape = neg2 == neg and len(ip2) == len(ip) and len(fp2) == len(fp)
        f2 = v2 if is_sym(v2) else z3.FPVal(v2, F64)
        if same_shape:
            de = zand([eq_scalar(a, b) for a, b in zip(ip + fp, ip2 + fp2)])
            ex.solver.add((v == f2) == (de if is_sym(de) else z3.BoolVal(bool(de))))
        else:
            bothz = z3.And(z3.fpIsZero(v), z3.fpIsZero(f2)) if neg2 == neg else z3.BoolVal(False)
            ex.solver.add(z3.Or(v != f2, bothz))
    tab[key] = (v, neg, ip, fp)
    ex.float_defs[v.get_id()] = FloatText(neg, ip, fp)
    ex.float_pending[v.get_id()] = (v, neg, ip, fp)
    return v


def materialize(ex, v):
    """add the exact arithmetic definition of an interned decimal (called when it meets float arithmetic)"""
    if not is_sym(v): return
    p = ex.float_pending.pop(v.get_id(), None)
    if p is None: return
    _, neg, ip, fp = p
    if len(ip) + len(fp) > 18: raise Unsupported('float arithmetic on a decimal with more than 18 digits')
    N = digits_value_bv(ip + fp)
    x = z3.fpSignedToFP(RNE, N, F64)
    if fp: x = z3.fpDiv(RNE, x, z3.FPVal(float(10 ** len(fp)), F64))
    if neg: x = z3.fpNeg(x)
    ex.solver.add(v == x)


def digits_value_bv(digs, bits=64):
    acc = z3.BitVecVal(0, bits)
    for d in digs:
        dv = z3.ZeroExt(bits - 8, b2z(d) - 48) if is_sym(d) else z3.BitVecVal(d - 48, bits)
        acc = acc * 10 + dv
    return z3.simplify(acc)


def parse_f64_bytes(ex, items):
    """-> float / z3 FP value, or None when the text is not a Rust float literal.  Forks on byte classes."""
    bs = conc_bytes(items)
    if bs is not None:
        t = bs.decode('utf-8', 'replace')
        if re.match(r'^[+-]?(inf|infinity|nan)$', t, re.I):
            return float(t.lower().replace('infinity', 'inf'))
        if re.match(r'^[+-]?(\d+\.?\d*|\.\d+)([eE][+-]?\d+)?$', t): return float(t)
        return None
    n = len(items)
    if n == 0: return None
    # class per byte (forking): 0 digit, 1 '.', 2 e/E, 3 '+', 4 '-', 5 other
    cl = []
    for b in items:
        if not is_sym(b):
            c = 0 if 48 <= b <= 57 else (1 if b == 46 else (2 if b in (69, 101) else (3 if b == 43 else (4 if b == 45 else 5))))
        else:
            conds = [in_range(b, 48, 57), b == 46, z3.Or(b == 69, b == 101), b == 43, b == 45]
            conds.append(z3.Not(z3.Or(conds)))
            c = ex.choose(conds)
        cl.append(c)
    if 5 in cl:
        # inf / infinity / nan (case-insensitive) with optional sign
        k = 1 if cl[0] in (3, 4) else 0
        rest = items[k:]
        for word, val in (('inf', float('inf')), ('infinity', float('inf')), ('nan', float('nan'))):
            if len(rest) == len(word):
                c = zand(zor([eq_scalar(x, ord(ch)), eq_scalar(x, ord(ch.upper()))]) for x, ch in zip(rest, word))
                if ex.branch(c):
                    return -val if (k and cl[0] == 4) else val
        return None
    i = 0; neg = False
    if cl[0] in (3, 4): neg = cl[0] == 4; i = 1
    ip = []; fp = []; ex_neg = False; ex_d = []
    while i < n and cl[i] == 0: ip.append(items[i]); i += 1
    if i < n and cl[i] == 1:
        i += 1
        while i < n and cl[i] == 0: fp.append(items[i]); i += 1
    if not ip and not fp: return None
    has_exp = False
    if i < n and cl[i] == 2:
        has_exp = True; i += 1
        if i < n and cl[i] in (3, 4): ex_neg = cl[i] == 4; i += 1
        while i < n and cl[i] == 0: ex_d.append(items[i]); i += 1
        if not ex_d: return None
    if i != n: return None
    nd = len(ip) + len(fp)
    # significant digits: concrete trailing zeros of an integer literal only move the decimal point
    nz = 0
    if not fp:
        while nz < len(ip) - 1 and not is_sym(ip[len(ip) - 1 - nz]) and ip[len(ip) - 1 - nz] == 48: nz += 1
    if not has_exp and (nd <= 15 or (nd - nz <= 15 and nd <= 300)):
        return intern_decimal(ex, neg, ip, fp)
    if has_exp and nd <= 15 and len(ex_d) <= 2 and any(is_sym(d) for d in ex_d):
        # the exponent decides the magnitude: fork over its digit values (at most 100 ways)
        ex_d = [d if not is_sym(d) else 48 + ex.choose([d == 48 + k for k in range(10)]) for d in ex_d]
    if all(not is_sym(d) for d in list(ip) + list(fp) + list(ex_d)):
        t_ = ('-' if neg else '') + bytes(ip).decode() + ('.' + bytes(fp).decode() if fp else '') + (('e' + ('-' if ex_neg else '') + bytes(ex_d).decode()) if has_exp else '')
        return float(t_ if (ip or not fp) else ('-' if neg else '') + '0.' + bytes(fp).decode() + (('e' + ('-' if ex_neg else '') + bytes(ex_d).decode()) if has_exp else ''))
    if has_exp and nd <= 15 and all(not is_sym(d) for d in ex_d) and len(ex_d) <= 3:
        e = int(bytes(ex_d)) * (-1 if ex_neg else 1) - len(fp)
        # a power of ten only moves the decimal point: the same decimal, interned with its plain digits
        digs = list(ip) + list(fp)
        # (<= 15 significant digits: the shortest round-trip digits of the value are these digits, so Display prints them
        #  shifted by the exponent, padded with zeros)
        if e >= 0 and len(digs) <= 15 and e <= 40:
            return intern_decimal(ex, neg, digs + [48] * e, [])
        if e < 0 and len(digs) <= 15 and -e <= 40:
            k = len(digs) + e
            if k > 0: return intern_decimal(ex, neg, digs[:k], digs[k:])
            return intern_decimal(ex, neg, [48], [48] * (-k) + digs)
        if abs(e) <= 22:
            N = digits_value_bv(ip + fp); x = z3.fpSignedToFP(RNE, N, F64)
            p = z3.FPVal(float(10 ** abs(e)), F64)
            x = z3.fpMul(RNE, x, p) if e >= 0 else z3.fpDiv(RNE, x, p)
            if neg: x = z3.fpNeg(x)
            v = ex.fresh('pf', 'f64'); ex.solver.add(v == x)
            ex.side.setdefault('float_text_src', {})[v.get_id()] = list(items)
            return v
    # beyond the exact fragment: an unconstrained finite-or-infinite, non-NaN float of the right sign (axiom: std parses it)
    v = ex.fresh('pfu', 'f64')
    ex.solver.add(z3.Not(z3.fpIsNaN(v)))
    ex.solver.add(z3.fpIsNegative(v) if neg else z3.Not(z3.fpIsNegative(v)))
    ex.side.setdefault('axiomatised_floats', []).append(v)
    ex.side.setdefault('float_text_src', {})[v.get_id()] = list(items)
    return v


@model('str::parse')
def m_str_parse(ex, site, a):
    t = site_generic(site).strip()
    items = items_of(ex, a[0])
    if t == 'f64':
        v = parse_f64_bytes(ex, items)
        return err(Agg('ParseFloatError', 0, [])) if v is None else ok(v)
    if t in INT_TY:
        return parse_int(ex, items, t, 10)
    if t == 'bool':
        for w, val in (('true', True), ('false', False)):
            if len(items) == len(w) and ex.branch(zand(eq_scalar(x, ord(c)) for x, c in zip(items, w))): return ok(val)
        return err(Agg('ParseBoolError', 0, []))
    # crate / foreign FromStr
    tyc = ex.prog.canon_type(re.sub(r'<.*$', '', t))
    b = ex.prog.find_method(tyc, 'FromStr', 'from_str')
    if b is not None: return ex.call_body(b, [a[0]])
    m = ex.find_model('<%s as FromStr>::from_str' % t.split('::')[-1])
    if m is not None: return m(ex, site, a)
    raise Unsupported('str::parse::<%s>' % t)


@model('<f64 as FromStr>::from_str')
def m_f64_from_str(ex, site, a):
    v = parse_f64_bytes(ex, items_of(ex, a[0]))
    return err(Agg('ParseFloatError', 0, [])) if v is None else ok(v)


def parse_int(ex, items, ty, radix):
    bits, sg = INT_TY[ty]
    n = len(items)
    E = lambda: err(Agg('ParseIntError', 0, []))
    if n == 0: return E()
    i = 0; neg = False
    b0 = items[0]
    if ex.branch(eq_scalar(b0, 43)): i = 1
    elif sg and ex.branch(eq_scalar(b0, 45)): i = 1; neg = True
    if i == n: return E()
    W = bits + 8
    acc = 0
    for b in items[i:]:
        if radix == 10:
            good = in_range(b, 48, 57)
            if not ex.branch(good): return E()
            d = (b - 48) if not is_sym(b) else z3.ZeroExt(W - 8, b - 48)
        else:
            k = ex.choose([in_range(b, 48, 57), in_range(b, 97, 102), in_range(b, 65, 70),
                           znot(zor([in_range(b, 48, 57), in_range(b, 97, 102), in_range(b, 65, 70)]))]) if is_sym(b) else \
                (0 if 48 <= b <= 57 else (1 if 97 <= b <= 102 else (2 if 65 <= b <= 70 else 3)))
            if k == 3: return E()
            off = (48, 87, 55)[k]
            d = (b - off) if not is_sym(b) else z3.ZeroExt(W - 8, b - off)
        if is_sym(acc) or is_sym(d):
            acc = b2z(acc, W) * radix + b2z(d, W)
            lim = (1 << (bits - 1)) if sg else (1 << bits) - 1
            over = z3.UGT(acc, lim + (0 if (sg and neg) or not sg else -1))
            if ex.branch(over): return E()
        else:
            acc = acc * radix + d
            lim = ((1 << (bits - 1)) if neg else (1 << (bits - 1)) - 1) if sg else (1 << bits) - 1
            if acc > lim: return E()
    if is_sym(acc):
        r = z3.Extract(bits - 1, 0, acc)
        return ok(z3.simplify(-r if neg else r))
    return ok(-acc if neg else acc)


@model(rx(r'^(u8|u16|u32|u64|usize|i8|i16|i32|i64|isize)::from_str_radix$'))
def m_from_str_radix(ex, site, a):
    return parse_int(ex, items_of(ex, a[0]), site.self_short, a[1])


@model(rx(r'^<(u8|u16|u32|u64|usize|i8|i16|i32|i64|isize) as FromStr>::from_str$'))
def m_int_from_str(ex, site, a):
    return parse_int(ex, items_of(ex, a[0]), site.self_short, 10)


# --------------------------------------------------------------------------- f64 methods
def fp(x): return x if is_sym(x) else z3.FPVal(x, F64)


@model('f64::is_nan')
def m_is_nan(ex, site, a):
    x = a[0]; return z3.fpIsNaN(x) if is_sym(x) else x != x
@model('f64::is_infinite')
def m_is_infinite(ex, site, a):
    x = a[0]; return z3.fpIsInf(x) if is_sym(x) else math.isinf(x)
@model('f64::is_finite')
def m_is_finite(ex, site, a):
    x = a[0]; return z3.Not(z3.Or(z3.fpIsInf(x), z3.fpIsNaN(x))) if is_sym(x) else math.isfinite(x)
@model('f64::is_sign_negative')
def m_is_sign_negative(ex, site, a):
    x = a[0]; return z3.fpIsNegative(x) if is_sym(x) else math.copysign(1, x) < 0
@model('f64::is_sign_positive')
def m_is_sign_positive(ex, site, a):
    x = a[0]; return z3.fpIsPositive(x) if is_sym(x) else math.copysign(1, x) > 0


@model('f64::abs')
def m_abs(ex, site, a):
    x = a[0]; return z3.fpAbs(x) if is_sym(x) else abs(x)


@model('f64::trunc', 'f64::floor', 'f64::ceil', 'f64::round')
def m_round(ex, site, a):
    x = a[0]
    if not is_sym(x):
        if x != x or math.isinf(x): return x
        r = {'trunc': math.trunc, 'floor': math.floor, 'ceil': math.ceil}.get(site.method)
        if r: return math.copysign(float(r(x)), x)
        return math.copysign(float(math.floor(abs(x) + 0.5)), x)
    rm = {'trunc': z3.RTZ(), 'floor': z3.RTN(), 'ceil': z3.RTP(), 'round': z3.RNA()}[site.method]
    return z3.fpRoundToIntegral(rm, x)


@model('f64::fract')
def m_fract(ex, site, a):
    x = a[0]
    if not is_sym(x):
        if x != x or math.isinf(x): return float('nan')
        return x - math.trunc(x)
    return z3.fpSub(RNE, x, z3.fpRoundToIntegral(z3.RTZ(), x))


@model('f64::total_cmp')
def m_total_cmp(ex, site, a):
    """IEEE 754 totalOrder, as core implements it: the bit patterns compared as sign-magnitude integers (-0 < +0, NaNs at the
    ends); NaN payloads are not distinguished here (canonical NaN)"""
    from .models import ordering
    def key(v):
        v = deref(ex, v)
        if not is_sym(v):
            b = struct.unpack('<q', struct.pack('<d', float(v)))[0]
            return b ^ (((b >> 63) & 0xFFFFFFFFFFFFFFFF) >> 1)
        b = z3.fpToIEEEBV(v)
        return b ^ z3.LShR(b >> 63, 1)
    x, y = key(a[0]), key(a[1])
    if not is_sym(x) and not is_sym(y): return ordering(0 if x < y else (1 if x == y else 2))
    xs = x if is_sym(x) else z3.BitVecVal(x, 64); ys = y if is_sym(y) else z3.BitVecVal(y, 64)
    k = ex.choose([xs < ys, xs == ys, xs > ys])
    return ordering(k)


@model('f64::min', 'f64::max')
def m_minmax(ex, site, a):
    x, y = a[0], a[1]
    if not is_sym(x) and not is_sym(y):
        if x != x: return y
        if y != y: return x
        return min(x, y) if site.method == 'min' else max(x, y)
    return (z3.fpMin if site.method == 'min' else z3.fpMax)(fp(x), fp(y))


@model('f64::to_bits')
def m_to_bits(ex, site, a):
    x = deref(ex, a[0])
    if not is_sym(x):
        if not isinstance(x, (int, float)): raise Unsupported('to_bits of %r' % (x,))
        return struct.unpack('<Q', struct.pack('<d', float(x)))[0]
    cache = ex.side.setdefault('to_bits', {})
    hit = cache.get(x.get_id())
    if hit is not None: return hit
    b = ex.fresh('bits', 64)
    ex.solver.add(z3.fpBVToFP(b, F64) == x)
    # NaN payloads: only the canonical quiet NaN is considered (stated assumption)
    ex.solver.add(z3.Implies(z3.fpIsNaN(x), b == z3.BitVecVal(0x7ff8000000000000, 64)))
    cache[x.get_id()] = b
    return b


@model('f64::from_bits')
def m_from_bits(ex, site, a):
    x = a[0]
    if not is_sym(x): return struct.unpack('<d', struct.pack('<Q', x))[0]
    return z3.fpBVToFP(x, F64)


@model('f64::powi', 'f64::powf', 'f64::sqrt', 'f64::ln', 'f64::log10', 'f64::exp')
def m_transcend(ex, site, a):
    if any(is_sym(x) for x in a): raise Unsupported('f64::%s on symbolic operand' % site.method)
    x = a[0]
    try:
        if site.method in ('powi', 'powf'): return float(x) ** a[1]
        return {'sqrt': math.sqrt, 'ln': math.log, 'log10': math.log10, 'exp': math.exp}[site.method](x)
    except (ValueError, OverflowError, ZeroDivisionError):
        return float('nan')


@model('f64::signum')
def m_signum(ex, site, a):
    x = a[0]
    if not is_sym(x): return x if x != x else math.copysign(1.0, x)
    return z3.If(z3.fpIsNaN(x), x, z3.If(z3.fpIsNegative(x), z3.FPVal(-1.0, F64), z3.FPVal(1.0, F64)))


@model('f64::clamp')
def m_clamp(ex, site, a): raise Unsupported('f64::clamp')


@model(rx(r'^(u8|u16|u32|u64|usize|i8|i16|i32|i64|isize)::(checked_add|checked_sub|checked_mul)$'))
def m_checked(ex, site, a):
    op = {'checked_add': 'AddWithOverflow', 'checked_sub': 'SubWithOverflow', 'checked_mul': 'MulWithOverflow'}[site.method]
    r = ex.binop(op, a[0], a[1], site.self_short)
    return none() if ex.branch(r.fields[1]) else some(r.fields[0])


@model(rx(r'^(u8|u16|u32|u64|usize|i8|i16|i32|i64|isize)::(wrapping_add|wrapping_sub|wrapping_mul)$'))
def m_wrapping(ex, site, a):
    op = {'wrapping_add': 'Add', 'wrapping_sub': 'Sub', 'wrapping_mul': 'Mul'}[site.method]
    return ex.binop(op, a[0], a[1], site.self_short)


@model(rx(r'^(u8|u16|u32|u64|usize|i8|i16|i32|i64|isize)::(saturating_sub|saturating_add)$'))
def m_saturating(ex, site, a):
    op = 'SubWithOverflow' if site.method == 'saturating_sub' else 'AddWithOverflow'
    r = ex.binop(op, a[0], a[1], site.self_short)
    bits, sg = INT_TY[site.self_short]
    if ex.branch(r.fields[1]):
        if sg: raise Unsupported('signed saturating op')
        return 0 if site.method == 'saturating_sub' else (1 << bits) - 1
    return r.fields[0]


@model(rx(r'^(u8|u16|u32|u64|usize|i8|i16|i32|i64|isize)::(abs|unsigned_abs)$'))
def m_int_abs(ex, site, a):
    x = a[0]
    if not is_sym(x): return abs(x)
    return z3.If(x < 0, -x, x)


@model(rx(r'^(u8|u16|u32|u64|usize|i8|i16|i32|i64|isize)::(min|max)$'), rx(r'^cmp::(min|max)$'), rx(r'^<.* as Ord>::(min|max)$'))
def m_int_minmax(ex, site, a):
    from .models import values_cmp
    c = values_cmp(ex, a[0], a[1])
    if site.method == 'min': return a[0] if c <= 0 else a[1]
    return a[1] if c <= 0 else a[0]


@model(rx(r'^(u8|u16|u32|u64|usize|i8|i16|i32|i64|isize)::pow$'))
def m_int_pow(ex, site, a):
    if is_sym(a[0]) or is_sym(a[1]): raise Unsupported('pow symbolic')
    bits, sg = INT_TY[site.self_short]
    return wrap_int(a[0] ** a[1], bits, sg)
