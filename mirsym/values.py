"""Value domain of the MIR symbolic executor."""
import z3


class Unsupported(Exception):
    pass


class Panic(Exception):
    def __init__(s, kind, msg='', where=None):
        Exception.__init__(s, kind, msg)
        s.kind = kind; s.msg = msg; s.where = where


class Infeasible(Exception):
    pass


class BoundExceeded(Exception):
    def __init__(s, what, where=None):
        Exception.__init__(s, what)
        s.what = what; s.where = where


class Cell:
    """a memory location: a local, a heap box, a static"""
    __slots__ = ('v', 'alloc')

    def __init__(s, v=None, alloc=None):
        s.v = v; s.alloc = alloc


class Alloc:
    """object-granular heap record (C API model)"""
    __slots__ = ('kind', 'state', 'id', 'origin')

    def __init__(s, kind, id, origin=None):
        s.kind = kind; s.state = 'live'; s.id = id; s.origin = origin


class Agg:
    """struct / enum / tuple / closure value.  `variant` is the variant *index* for enums."""
    __slots__ = ('ty', 'variant', 'fields')

    def __init__(s, ty, variant, fields):
        s.ty = ty; s.variant = variant; s.fields = fields

    def __repr__(s):
        return '%s#%s%r' % (s.ty, s.variant, s.fields)


UNIT_TY = '()'


def unit():
    return Agg(UNIT_TY, 0, [])


def tup(*xs):
    return Agg(UNIT_TY, 0, list(xs))


class VecV:
    """growable sequence: Vec<T>, String (bytes), arrays, string/byte literals"""
    __slots__ = ('items', 'kind')

    def __init__(s, items, kind='vec'):
        s.items = items; s.kind = kind

    def __repr__(s):
        if s.kind in ('string', 'str') and all(isinstance(i, int) for i in s.items):
            return '%s(%r)' % (s.kind, bytes(s.items).decode('utf-8', 'replace'))
        return '%s%r' % (s.kind, s.items)


class Ptr:
    """thin pointer / reference / Box: a cell plus a projection path (field indices, ('i', n))"""
    __slots__ = ('cell', 'path')

    def __init__(s, cell, path=()):
        s.cell = cell; s.path = path

    def __repr__(s):
        return '&%r' % (s.path,)


class SliceRef:
    """fat pointer &[T] / &str / &mut [T]: window into a VecV object"""
    __slots__ = ('vec', 'lo', 'hi', 'kind')

    def __init__(s, vec, lo, hi, kind='slice'):
        s.vec = vec; s.lo = lo; s.hi = hi; s.kind = kind

    def items(s):
        return s.vec.items[s.lo:s.hi]

    def __len__(s):
        return s.hi - s.lo

    def __repr__(s):
        it = s.items()
        if s.kind == 'str' and all(isinstance(i, int) for i in it):
            return '&str(%r)' % bytes(it).decode('utf-8', 'replace')
        return '&%s%r' % (s.kind, it)


class NullPtr:
    __slots__ = ()

    def __repr__(s):
        return 'NULL'


NULL = NullPtr()


class FnRef:
    __slots__ = ('name',)

    def __init__(s, name):
        s.name = name

    def __repr__(s):
        return 'fn(%s)' % s.name


class Opaque:
    """value whose content no property reads (error payloads, fmt::Arguments for messages ...)"""
    __slots__ = ('tag', 'data')

    def __init__(s, tag, data=None):
        s.tag = tag; s.data = data

    def __repr__(s):
        return '<%s%s>' % (s.tag, '' if s.data is None else ':%r' % (s.data,))


class Moved:
    __slots__ = ()

    def __repr__(s):
        return '<moved>'


def is_sym(v):
    return isinstance(v, z3.ExprRef)


def deep_copy(v):
    """copy semantics for `copy` operands and Clone of plain data (pointers stay shared)"""
    if isinstance(v, Agg):
        return Agg(v.ty, v.variant, [deep_copy(f) for f in v.fields])
    if isinstance(v, VecV):
        return VecV([deep_copy(i) for i in v.items], v.kind)
    return v


INT_TY = {'u8': (8, False), 'u16': (16, False), 'u32': (32, False), 'u64': (64, False), 'u128': (128, False),
          'usize': (64, False), 'i8': (8, True), 'i16': (16, True), 'i32': (32, True), 'i64': (64, True),
          'i128': (128, True), 'isize': (64, True), 'char': (32, False)}


def wrap_int(v, bits, signed):
    v &= (1 << bits) - 1
    if signed and v >= (1 << (bits - 1)):
        v -= (1 << bits)
    return v
