"""Builders for libhaystack values inside the symbolic executor (Agg layouts follow the crate's declarations)."""
import z3
from .values import *
from .models import some, none, string_of, str_ref, tup
from . import models_chrono as ch


class HV:
    def __init__(s, ex):
        s.ex = ex; s.prog = ex.prog
        s._ty = {}

    def ty(s, name):
        t = s._ty.get(name)
        if t is None:
            cands = [td for td in s.prog.src.types.get(name, []) if td.module.startswith('haystack::val')]
            if len(cands) != 1: raise Unsupported('type %s: %d candidates' % (name, len(cands)))
            t = cands[0].full; s._ty[name] = t
        return t

    def val(s, variant, payload=None):
        vt = s.ty('Value')
        vi = s.prog.variant_index(vt, variant)
        return Agg(vt, vi, [] if payload is None else [payload])

    def S(s, items): return string_of(list(items))
    def null(s): return s.val('Null')
    def marker(s): return s.val('Marker')
    def remove(s): return s.val('Remove')
    def na(s): return s.val('Na')
    def bool_(s, b): return s.val('Bool', Agg(s.ty('Bool'), 0, [b]))
    def str_(s, items): return s.val('Str', Agg(s.ty('Str'), 0, [s.S(items)]))
    def uri(s, items): return s.val('Uri', Agg(s.ty('Uri'), 0, [s.S(items)]))
    def sym(s, items): return s.val('Symbol', Agg(s.ty('Symbol'), 0, [s.S(items)]))
    def ref_payload(s, items, dis=None): return Agg(s.ty('Ref'), 0, [s.S(items), none() if dis is None else some(s.S(dis))])
    def ref(s, items, dis=None): return s.val('Ref', s.ref_payload(items, dis))
    def xstr(s, ty, v): return s.val('XStr', Agg(s.ty('XStr'), 0, [s.S(ty), s.S(v)]))
    def coord(s, lat, lng): return s.val('Coord', Agg(s.ty('Coord'), 0, [lat, lng]))

    def unit(s, name):
        """&'static Unit from the crate's own database (evaluated through the MIR of get_unit)"""
        b = s.prog.find_fn(['units', 'get_unit'])
        r = s.ex.call_body(b, [str_ref(list(name.encode('utf-8')))])
        if r.variant == 0: raise Unsupported('unit %s not in the database' % name)
        return r.fields[0]

    def num_payload(s, f, unit=None):
        return Agg(s.ty('Number'), 0, [f, none() if unit is None else some(s.unit(unit) if isinstance(unit, str) else unit)])

    def num(s, f, unit=None): return s.val('Number', s.num_payload(f, unit))
    def date(s, y, m, d): return s.val('Date', Agg(s.ty('Date'), 0, [ch.nd(y, m, d)]))
    def time(s, h, mi, sec, ns=0): return s.val('Time', Agg(s.ty('Time'), 0, [ch.nt(h, mi, sec, ns)]))

    def dt(s, y, m, d, h, mi, sec, ns, off, tz):
        c = ch.cdt(ch.ndt(ch.nd(y, m, d), ch.nt(h, mi, sec, ns)), off, ch.tz_value(tz))
        if ch.tz_fixed_offset(tz) is None:
            # a legal DateTime of a named zone: its offset is what the zone's rule gives at its instant
            i = ch.utc_secs(c); i = i if is_sym(i) else z3.BitVecVal(i, ch.W)
            o = off if is_sym(off) else z3.BitVecVal(off, 32)
            s.ex.solver.add(ch.tz_rule(tz)(i) == o); s.ex.pc.append(ch.tz_rule(tz)(i) == o)
        return s.val('DateTime', Agg(s.ty('DateTime'), 0, [c]))

    def list_(s, xs): return s.val('List', VecV(list(xs), 'vec'))

    def dict_payload(s, pairs):
        """pairs: [(key bytes (concrete), value)] -> Dict (BTreeMap kept sorted by key)"""
        ps = sorted(pairs, key=lambda kv: bytes(kv[0]))
        m = Agg('BTreeMap', 0, [VecV([tup(s.S(k), v) for k, v in ps], 'vec')])
        return Agg(s.ty('Dict'), 0, [m])

    def dict_(s, pairs): return s.val('Dict', s.dict_payload(pairs))

    def grid_payload(s, meta, cols, rows, ver=b'3.0'):
        """meta: pairs or None; cols: [(name bytes, meta pairs or None)]; rows: [pairs]"""
        cs = [Agg(s.ty('Column'), 0, [s.S(n), none() if m is None else some(s.dict_payload(m))]) for n, m in cols]
        return Agg(s.ty('Grid'), 0, [none() if meta is None else some(s.dict_payload(meta)), VecV(cs, 'vec'),
                                     VecV([s.dict_payload(r) for r in rows], 'vec'), s.S(ver)])

    def grid(s, meta, cols, rows, ver=b'3.0'): return s.val('Grid', s.grid_payload(meta, cols, rows, ver))


def sym_eq(ex, a, b):
    """structural equality of two mirsym values as a formula (lengths/tags are concrete per path)"""
    from .models import zand, deref
    a = deref(ex, a); b = deref(ex, b)
    if isinstance(a, Agg) and a.ty == 'Cow': a = deref(ex, a.fields[0])
    if isinstance(b, Agg) and b.ty == 'Cow': b = deref(ex, b.fields[0])
    if isinstance(a, (VecV, SliceRef)) and isinstance(b, (VecV, SliceRef)):
        x = a.items() if isinstance(a, SliceRef) else a.items
        y = b.items() if isinstance(b, SliceRef) else b.items
        if len(x) != len(y): return False
        return zand(sym_eq(ex, p, q) for p, q in zip(x, y))
    if isinstance(a, Agg) and isinstance(b, Agg):
        if a.ty != b.ty or a.variant != b.variant or len(a.fields) != len(b.fields): return False
        if a.ty.endswith('units::unit::Unit'): return a is b or sym_eq(ex, a.fields[1], b.fields[1])
        if a.ty.endswith('val::grid::Grid') and len(a.fields) == 4:
            # an absent grid meta and an empty grid meta are the same thing (C02's wording; Zinc cannot tell them apart either)
            def meta_entries(o):
                o = deref(ex, o)
                if o.variant == 0: return []
                d = deref(ex, o.fields[0]); m = deref(ex, d.fields[0])
                return list(deref(ex, m.fields[0]).items) if isinstance(m, Agg) else None
            ma, mb = meta_entries(a.fields[0]), meta_entries(b.fields[0])
            if ma is not None and mb is not None and (not ma or not mb):
                if ma or mb: return False
                return zand(sym_eq(ex, p, q) for p, q in zip(a.fields[1:], b.fields[1:]))
        if a.ty == 'chrono::DateTime':
            from .models_chrono import utc_secs, tz_fixed_offset
            za, zb = a.fields[2], b.fields[2]
            if za.ty != zb.ty or (za.ty == 'Tz' and za.fields[0] != zb.fields[0]): return False
            inst = zand([sym_eq(ex, utc_secs(a), utc_secs(b)), sym_eq(ex, a.fields[0].fields[1].fields[3], b.fields[0].fields[1].fields[3])])
            if za.ty == 'Tz' and tz_fixed_offset(za.fields[0]) is None:
                # named zone: the offset is the zone's rule (an uninterpreted function) at the instant; the local fields
                # follow from instant + offset
                return zand([inst, sym_eq(ex, a.fields[1], b.fields[1])])
            return zand([inst, sym_eq(ex, a.fields[0], b.fields[0]), sym_eq(ex, a.fields[1], b.fields[1])])
        return zand(sym_eq(ex, p, q) for p, q in zip(a.fields, b.fields))
    if isinstance(a, str) or isinstance(b, str): return a == b
    if isinstance(a, (Agg, VecV, SliceRef)) or isinstance(b, (Agg, VecV, SliceRef)): return False
    if a is None or b is None: return a is b
    if isinstance(a, float) or isinstance(b, float) or (is_sym(a) and z3.is_fp(a)) or (is_sym(b) and z3.is_fp(b)):
        from .engine import F64
        fa = a if is_sym(a) else z3.FPVal(a, F64); fb = b if is_sym(b) else z3.FPVal(b, F64)
        if not is_sym(a) and not is_sym(b):
            import struct
            return a == b or (a != a and b != b)
        # numeric equality (+0 == -0, as Value's own == has it) or both NaN
        return z3.Or(z3.fpEQ(fa, fb), z3.And(z3.fpIsNaN(fa), z3.fpIsNaN(fb)))
    if is_sym(a) or is_sym(b):
        if isinstance(a, bool): a = z3.BoolVal(a)
        if isinstance(b, bool): b = z3.BoolVal(b)
        if is_sym(a) and is_sym(b) and not z3.is_bool(a) and a.size() != b.size():
            w = max(a.size(), b.size())
            a = z3.ZeroExt(w - a.size(), a) if a.size() < w else a
            b = z3.ZeroExt(w - b.size(), b) if b.size() < w else b
        return a == b
    return a == b
