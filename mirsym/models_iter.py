"""Iterator models: lazy python-side iterator values; adapters call MIR closures."""
import re
import z3
from .values import *
from .models import (rx, some, none, ok, err, deref, items_of, string_of, zand, zor, znot, eq_scalar, site_generic, clone_value,
                     values_eq, values_cmp, default_of, tup, ordering)
from .engine import HostObj
from .mirparse import split_top
from .program import short_type, strip_lifetimes

REG = []


def model(*keys):
    def deco(fn):
        for k in keys: REG.append((k, fn))
        return fn
    return deco


class IterV:
    """iterator value. `src` is a list (consumed from `pos`) or a python callable next(ex) -> value | None"""
    __slots__ = ('src', 'pos', 'end', 'fn', 'tag', 'peeked', 'aux')

    def __init__(s, src=None, fn=None, tag=None):
        s.src = src; s.pos = 0; s.end = len(src) if src is not None else 0; s.fn = fn; s.tag = tag; s.peeked = None; s.aux = None

    def next(s, ex):
        if s.peeked is not None:
            v = s.peeked[0]; s.peeked = None; return v
        if s.src is not None:
            if s.pos < s.end:
                v = s.src[s.pos]; s.pos += 1; return v
            return None
        return s.fn(ex)

    def next_back(s, ex):
        if s.src is None: raise Unsupported('next_back on lazy iterator')
        if s.pos < s.end:
            s.end -= 1; return s.src[s.end]
        return None

    def __repr__(s):
        return '<iter %s>' % (s.tag or ('list' if s.src is not None else 'lazy'))


def range_iter(ex, r):
    lo, hi = r.fields[0], r.fields[1]
    incl = r.ty == 'RangeInclusive'
    if is_sym(lo) or is_sym(hi):
        # trip counts are concrete per path
        from .models_coll import conc_index
        lo = conc_index(ex, lo, 64, 'range') if is_sym(lo) else lo
        hi = conc_index(ex, hi, 64, 'range') if is_sym(hi) else hi
    if hi - lo > 100000:
        st = [lo]
        def nx(ex):
            if st[0] < hi + (1 if incl else 0):
                v = st[0]; st[0] += 1; return v
            return None
        return IterV(fn=nx, tag='range')
    return IterV(list(range(lo, hi + 1 if incl else hi)), tag='range')


def to_iter(ex, v):
    """IntoIterator::into_iter on a runtime value"""
    if isinstance(v, IterV): return v
    if isinstance(v, Agg) and v.ty == 'CaseIter': return IterV(src=list(v.fields[0]), tag='case-iter')      # char::to_uppercase()
    if isinstance(v, Ptr):
        inner = ex.load(v)
        if isinstance(inner, IterV): return inner
        if isinstance(inner, VecV):
            return IterV([Ptr(v.cell, v.path + (('i', k),)) for k in range(len(inner.items))])
        if isinstance(inner, SliceRef):
            c = Cell(inner.vec); return IterV([Ptr(c, (('i', inner.lo + k),)) for k in range(len(inner))])
        if isinstance(inner, Agg) and inner.ty in ('BTreeMap', 'HashMap'):
            ex.note_unordered(inner.ty)
            return IterV([tup(Ptr(Cell(kv), (0,)), Ptr(Cell(kv), (1,))) for kv in inner.fields[0].items])
        if isinstance(inner, Agg) and inner.ty in ('BTreeSet', 'HashSet'):
            ex.note_unordered(inner.ty)
            return IterV([Ptr(Cell(kv), (0,)) for kv in inner.fields[0].items])
        if isinstance(inner, Agg) and inner.ty == 'Option':
            return IterV([Ptr(v.cell, v.path + (0,))] if inner.variant == 1 else [])
        if isinstance(inner, Ptr): return to_iter(ex, inner)
        if isinstance(inner, Agg): return crate_iter(ex, v, inner)
    if isinstance(v, VecV): return IterV(list(v.items))
    if isinstance(v, SliceRef):
        c = Cell(v.vec); return IterV([Ptr(c, (('i', v.lo + k),)) for k in range(len(v))])
    if isinstance(v, Agg):
        if v.ty in ('Range', 'RangeInclusive'): return range_iter(ex, v)
        if v.ty in ('BTreeMap', 'HashMap'):
            ex.note_unordered(v.ty); return IterV([tup(kv.fields[0], kv.fields[1]) for kv in v.fields[0].items])
        if v.ty in ('BTreeSet', 'HashSet'):
            ex.note_unordered(v.ty); return IterV([kv.fields[0] for kv in v.fields[0].items])
        if v.ty == 'Option': return IterV([v.fields[0]] if v.variant == 1 else [])
        if v.ty == 'Result': return IterV([v.fields[0]] if v.variant == 0 else [])
        return crate_iter(ex, None, v)
    raise Unsupported('into_iter of %r' % (v,))


def crate_iter(ex, ptr, agg):
    """a crate type: IntoIterator impl if there is one, else it is an Iterator itself"""
    b = ex.prog.find_method(agg.ty, 'IntoIterator', 'into_iter')
    if b is not None and ptr is None:
        return to_iter(ex, ex.call_body(b, [agg]))
    nb = ex.prog.find_method(agg.ty, 'Iterator', 'next')
    if nb is not None:
        cell = ptr if ptr is not None else Ptr(Cell(agg))
        def nx(ex):
            r = ex.call_body(nb, [cell])
            return r.fields[0] if r.variant == 1 else None
        return IterV(fn=nx, tag=agg.ty)
    raise Unsupported('into_iter of ' + agg.ty)


def iter_of_arg(ex, p):
    """`&mut I` / `I` -> IterV"""
    v = p
    while isinstance(v, Ptr):
        nv = ex.load(v)
        if isinstance(nv, IterV): return nv
        if isinstance(nv, Agg) and ex.prog.typedef(nv.ty) is not None: return crate_iter(ex, v, nv)
        v = nv
    return to_iter(ex, v)


def iter_next(ex, it):
    return it.next(ex)


@model(rx(r'^<.* as IntoIterator>::into_iter$'))
def m_into_iter(ex, site, a):
    v = a[0]
    if isinstance(v, Agg) and ex.prog.typedef(v.ty) is not None and ex.prog.find_method(v.ty, 'IntoIterator', 'into_iter') is None:
        return v    # a crate Iterator: blanket impl is the identity
    return to_iter(ex, v)


@model(rx(r'^<.* as Iterator>::next$'), rx(r'^<.* as DoubleEndedIterator>::next_back$'))
def m_next(ex, site, a):
    it = iter_of_arg(ex, a[0])
    v = it.next(ex) if site.method == 'next' else it.next_back(ex)
    return none() if v is None else some(v)


def lazy(fn, tag): return IterV(fn=fn, tag=tag)


@model(rx(r'^<.* as Iterator>::map$'))
def m_map(ex, site, a):
    it = to_iter(ex, a[0]); f = a[1]
    def nx(ex):
        v = it.next(ex)
        return None if v is None else ex.call_value(f, [v])
    return lazy(nx, 'map')


@model(rx(r'^<.* as Iterator>::(filter|skip_while|take_while)$'))
def m_filter(ex, site, a):
    it = to_iter(ex, a[0]); f = a[1]; me = site.method; st = {'done': False}
    def nx(ex):
        while True:
            v = it.next(ex)
            if v is None: return None
            if me == 'filter':
                if ex.branch(ex.call_value(f, [Ptr(Cell(v))])): return v
            elif me == 'skip_while':
                if st['done'] or not ex.branch(ex.call_value(f, [Ptr(Cell(v))])):
                    st['done'] = True; return v
            else:
                if st['done']: return None
                if ex.branch(ex.call_value(f, [Ptr(Cell(v))])): return v
                st['done'] = True; return None
    return lazy(nx, me)


@model(rx(r'^<.* as Iterator>::filter_map$'))
def m_filter_map(ex, site, a):
    it = to_iter(ex, a[0]); f = a[1]
    def nx(ex):
        while True:
            v = it.next(ex)
            if v is None: return None
            r = ex.call_value(f, [v])
            if r.variant == 1: return r.fields[0]
    return lazy(nx, 'filter_map')


@model(rx(r'^<.* as Iterator>::map_while$'))
def m_map_while(ex, site, a):
    it = to_iter(ex, a[0]); f = a[1]; st = {'done': False}
    def nx(ex):
        if st['done']: return None
        v = it.next(ex)
        if v is None: return None
        r = ex.call_value(f, [v])
        if r.variant == 1: return r.fields[0]
        st['done'] = True; return None
    return lazy(nx, 'map_while')


@model(rx(r'^<.* as Iterator>::(flat_map|flatten)$'))
def m_flat_map(ex, site, a):
    it = to_iter(ex, a[0]); f = a[1] if site.method == 'flat_map' else None; cur = [None]
    def nx(ex):
        while True:
            if cur[0] is not None:
                v = cur[0].next(ex)
                if v is not None: return v
                cur[0] = None
            o = it.next(ex)
            if o is None: return None
            cur[0] = to_iter(ex, ex.call_value(f, [o]) if f is not None else o)
    return lazy(nx, site.method)


@model(rx(r'^<.* as Iterator>::enumerate$'))
def m_enumerate(ex, site, a):
    it = to_iter(ex, a[0]); n = [0]
    def nx(ex):
        v = it.next(ex)
        if v is None: return None
        i = n[0]; n[0] += 1; return tup(i, v)
    return lazy(nx, 'enumerate')


@model(rx(r'^<.* as Iterator>::(cloned|copied)$'))
def m_cloned(ex, site, a):
    it = to_iter(ex, a[0])
    def nx(ex):
        v = it.next(ex)
        return None if v is None else clone_value(ex, v, deref_first=True)
    return lazy(nx, 'cloned')


def materialize(ex, it, limit=100000):
    out = []
    while True:
        v = it.next(ex)
        if v is None: return out
        out.append(v)
        if len(out) > limit: raise BoundExceeded('iterator longer than %d' % limit)


@model(rx(r'^<.* as (Iterator|DoubleEndedIterator)>::rev$'))
def m_rev(ex, site, a):
    it = to_iter(ex, a[0])
    if it.src is not None:
        return IterV(list(reversed(it.src[it.pos:it.end])))
    return IterV(list(reversed(materialize(ex, it))))


@model(rx(r'^<.* as Iterator>::(take|skip|step_by)$'))
def m_take(ex, site, a):
    from .models_coll import conc_index
    it = to_iter(ex, a[0]); n = conc_index(ex, a[1], 1 << 20, site.method) if is_sym(a[1]) else a[1]
    cnt = [0]
    def nx(ex):
        if site.method == 'take':
            if cnt[0] >= n: return None
            cnt[0] += 1; return it.next(ex)
        if site.method == 'skip':
            while cnt[0] < n:
                cnt[0] += 1
                if it.next(ex) is None: return None
            return it.next(ex)
        v = it.next(ex)
        for _ in range(n - 1):
            if it.next(ex) is None: break
        return v
    return lazy(nx, site.method)


@model(rx(r'^<.* as Iterator>::(chain|zip)$'))
def m_chain(ex, site, a):
    x = to_iter(ex, a[0]); y = to_iter(ex, a[1])
    def nx(ex):
        if site.method == 'chain':
            v = x.next(ex)
            return v if v is not None else y.next(ex)
        p = x.next(ex)
        if p is None: return None
        q = y.next(ex)
        return None if q is None else tup(p, q)
    return lazy(nx, site.method)


@model(rx(r'^<.* as Iterator>::peekable$'), rx(r'^<.* as Iterator>::(fuse|by_ref|into_iter)$'))
def m_peekable(ex, site, a):
    if site.method == 'by_ref': return a[0]
    return to_iter(ex, a[0])


@model('Peekable::peek', 'Peekable::peek_mut')
def m_peek(ex, site, a):
    it = iter_of_arg(ex, a[0])
    if it.peeked is None:
        it.peeked = (it.next(ex),)
    v = it.peeked[0]
    if v is None:
        it.peeked = None; return none()
    c = Cell(v); it.peeked = (v,)
    return some(Ptr(c))


@model('Peekable::next_if', 'Peekable::next_if_eq')
def m_next_if(ex, site, a):
    it = iter_of_arg(ex, a[0])
    v = it.next(ex)
    if v is None: return none()
    okk = ex.call_value(a[1], [Ptr(Cell(v))]) if site.method == 'next_if' else values_eq(ex, v, a[1])
    if ex.branch(okk): return some(v)
    it.peeked = (v,); return none()


@model(rx(r'^<.* as Iterator>::(inspect|for_each)$'))
def m_for_each(ex, site, a):
    it = to_iter(ex, a[0]); f = a[1]
    if site.method == 'inspect':
        def nx(ex):
            v = it.next(ex)
            if v is not None: ex.call_value(f, [Ptr(Cell(v))])
            return v
        return lazy(nx, 'inspect')
    while True:
        v = it.next(ex)
        if v is None: return unit()
        ex.call_value(f, [v])


@model(rx(r'^<.* as Iterator>::(any|all)$'))
def m_any(ex, site, a):
    it = iter_of_arg(ex, a[0]); f = a[1]
    while True:
        v = it.next(ex)
        if v is None: return site.method == 'all'
        r = ex.branch(ex.call_value(f, [v]))
        if r and site.method == 'any': return True
        if not r and site.method == 'all': return False


@model(rx(r'^<.* as Iterator>::(find|position|rposition)$'), rx(r'^<.* as DoubleEndedIterator>::rfind$'))
def m_find(ex, site, a):
    it = iter_of_arg(ex, a[0]); f = a[1]; i = 0
    if site.method in ('rfind', 'rposition'):
        xs = materialize(ex, it)
        for k in range(len(xs) - 1, -1, -1):
            arg = Ptr(Cell(xs[k])) if site.method == 'rfind' else xs[k]
            if ex.branch(ex.call_value(f, [arg])): return some(xs[k] if site.method == 'rfind' else k)
        return none()
    while True:
        v = it.next(ex)
        if v is None: return none()
        if site.method == 'find':
            if ex.branch(ex.call_value(f, [Ptr(Cell(v))])): return some(v)
        else:
            if ex.branch(ex.call_value(f, [v])): return some(i)
        i += 1


@model(rx(r'^<.* as Iterator>::find_map$'))
def m_find_map(ex, site, a):
    it = iter_of_arg(ex, a[0]); f = a[1]
    while True:
        v = it.next(ex)
        if v is None: return none()
        r = ex.call_value(f, [v])
        if r.variant == 1: return r


@model(rx(r'^<.* as Iterator>::(fold|try_fold)$'))
def m_fold(ex, site, a):
    it = iter_of_arg(ex, a[0]); acc = a[1]; f = a[2]
    while True:
        v = it.next(ex)
        if v is None: break
        acc = ex.call_value(f, [acc, v])
        if site.method == 'try_fold':
            if acc.ty == 'Result':
                if acc.variant == 1: return acc
                acc = acc.fields[0]
            elif acc.ty == 'Option':
                if acc.variant == 0: return acc
                acc = acc.fields[0]
            elif acc.ty == 'ControlFlow':
                if acc.variant == 1: return acc
                acc = acc.fields[0]
    if site.method == 'try_fold':
        rt = site_generic(site, 1) if len(site.generics) > 1 else ''
        s = short_type(rt)
        return ok(acc) if s == 'Result' else (some(acc) if s == 'Option' else Agg('ControlFlow', 0, [acc]))
    return acc


@model(rx(r'^<.* as Iterator>::try_for_each$'))
def m_try_for_each(ex, site, a):
    it = iter_of_arg(ex, a[0]); f = a[1]
    rt = site_generic(site, 1) if len(site.generics) > 1 else 'Result'
    s_ = short_type(rt)
    while True:
        v = it.next(ex)
        if v is None: break
        r = ex.call_value(f, [v])
        if r.ty == 'Result' and r.variant == 1: return r
        if r.ty == 'Option' and r.variant == 0: return r
        if r.ty == 'ControlFlow' and r.variant == 1: return r
    return ok(unit()) if s_ == 'Result' else (some(unit()) if s_ == 'Option' else Agg('ControlFlow', 0, [unit()]))


@model(rx(r'^<.* as Iterator>::reduce$'))
def m_reduce(ex, site, a):
    it = to_iter(ex, a[0]); acc = it.next(ex)
    if acc is None: return none()
    while True:
        v = it.next(ex)
        if v is None: return some(acc)
        acc = ex.call_value(a[1], [acc, v])


@model(rx(r'^<.* as Iterator>::(count|last|nth)$'))
def m_count(ex, site, a):
    it = iter_of_arg(ex, a[0])
    if site.method == 'nth':
        for _ in range(a[1]):
            if it.next(ex) is None: return none()
        v = it.next(ex); return none() if v is None else some(v)
    xs = materialize(ex, it)
    if site.method == 'count': return len(xs)
    return some(xs[-1]) if xs else none()


@model(rx(r'^<.* as Iterator>::(max|min|max_by|min_by|max_by_key|min_by_key)$'))
def m_max(ex, site, a):
    it = to_iter(ex, a[0]); xs = materialize(ex, it); me = site.method
    if not xs: return none()
    def c(p, q):
        if me in ('max', 'min'): return values_cmp(ex, p, q)
        if me.endswith('_by'): return ex.call_value(a[1], [Ptr(Cell(p)), Ptr(Cell(q))]).variant - 1
        return values_cmp(ex, ex.call_value(a[1], [Ptr(Cell(p))]), ex.call_value(a[1], [Ptr(Cell(q))]))
    best = xs[0]
    for x in xs[1:]:
        r = c(best, x)
        if me.startswith('max'):
            if r <= 0: best = x
        else:
            if r > 0: best = x
    return some(best)


@model(rx(r'^<.* as Iterator>::(sum|product)$'))
def m_sum(ex, site, a):
    it = to_iter(ex, a[0]); t = site_generic(site)
    acc = (0.0 if site.method == 'sum' else 1.0) if t == 'f64' else (0 if site.method == 'sum' else 1)
    while True:
        v = it.next(ex)
        if v is None: return acc
        v = deref(ex, v)
        acc = ex.binop('Add' if site.method == 'sum' else 'Mul', acc, v, t)


@model(rx(r'^<.* as Iterator>::(eq|ne)$'))
def m_iter_eq(ex, site, a):
    x = materialize(ex, to_iter(ex, a[0])); y = materialize(ex, to_iter(ex, a[1]))
    r = False if len(x) != len(y) else zand(values_eq(ex, p, q) for p, q in zip(x, y))
    return r if site.method == 'eq' else znot(r)


@model(rx(r'^<.* as Iterator>::(unzip)$'))
def m_unzip(ex, site, a):
    xs = materialize(ex, to_iter(ex, a[0]))
    return tup(VecV([deref(ex, x).fields[0] for x in xs], 'vec'), VecV([deref(ex, x).fields[1] for x in xs], 'vec'))


@model(rx(r'^<.* as Iterator>::(partition)$'))
def m_partition(ex, site, a):
    xs = materialize(ex, to_iter(ex, a[0])); l = []; r = []
    for x in xs:
        (l if ex.branch(ex.call_value(a[1], [Ptr(Cell(x))])) else r).append(x)
    return tup(VecV(l, 'vec'), VecV(r, 'vec'))


@model(rx(r'^<.* as Iterator>::size_hint$'), rx(r'^<.* as ExactSizeIterator>::len$'))
def m_size_hint(ex, site, a):
    it = iter_of_arg(ex, a[0])
    if it.src is not None:
        n = it.end - it.pos
        return n if site.method == 'len' else tup(n, some(n))
    if site.method == 'len': raise Unsupported('len of lazy iterator')
    return tup(0, none())


def collect_into(ex, xs, target):
    """xs: list of items; target: printed type"""
    t = strip_lifetimes(target).strip(); s = short_type(t)
    if s in ('Vec', 'VecDeque', 'Box'): return VecV(xs, 'vec')
    if s == 'String':
        from .models_coll import encode_utf8
        out = []
        for x in xs:
            v = deref(ex, x)
            if isinstance(v, (VecV, SliceRef)) or (isinstance(v, Agg) and v.ty == 'Cow'): out += items_of(ex, v)
            else: out += encode_utf8(ex, v)
        return string_of(out)
    if s in ('BTreeMap', 'HashMap', 'BTreeSet', 'HashSet'):
        from .models_coll import map_find
        items = []
        fast = fast_map(ex, xs, s)
        if fast is not None: return Agg(s, 0, [VecV(fast, 'vec')])
        for x in xs:
            if s.endswith('Set'): k, v = x, unit()
            else:
                xv = deref(ex, x); k, v = xv.fields[0], xv.fields[1]
            i, found = map_find(ex, items, k, s.startswith('BTree'))
            if found: items[i] = tup(k, v) if s.endswith('Map') else items[i]
            else: items.insert(i, tup(k, v))
        return Agg(s, 0, [VecV(items, 'vec')])
    if s in ('Result', 'Option'):
        m = re.match(r'^[\w:]*(?:Result|Option)<(.*)>$', t)
        inner = split_top(m.group(1))[0] if m else 'Vec<_>'
        good = []
        for x in xs:
            if s == 'Result':
                if x.variant == 1: return x
            elif x.variant == 0: return x
            good.append(x.fields[0])
        r = collect_into(ex, good, inner)
        return ok(r) if s == 'Result' else some(r)
    if s == '()': return unit()
    # crate type implementing FromIterator
    tyc = ex.prog.canon_type(re.sub(r'<.*$', '', t))
    b = ex.prog.find_method(tyc, 'FromIterator', 'from_iter')
    if b is not None: return ex.call_body(b, [IterV(xs)])
    raise Unsupported('collect into ' + target)


def fast_map(ex, xs, s):
    """all keys concrete byte strings: dedup/sort with python dicts instead of forking comparisons"""
    from .models import conc_bytes
    d = {}
    for x in xs:
        if s.endswith('Set'): k, v = x, unit()
        else:
            xv = deref(ex, x)
            if not isinstance(xv, Agg) or len(xv.fields) != 2: return None
            k, v = xv.fields[0], xv.fields[1]
        try: kb = conc_bytes(items_of(ex, k))
        except Unsupported: return None
        if kb is None: return None
        d[kb] = tup(k, v)
    keys = sorted(d) if s.startswith('BTree') else list(d)
    return [d[k] for k in keys]


@model(rx(r'^<.* as Iterator>::collect$'), rx(r'^<.* as FromIterator>::from_iter$'))
def m_collect(ex, site, a):
    it = iter_of_arg(ex, a[0]) if site.method == 'collect' else to_iter(ex, a[0])
    target = site_generic(site) if site.method == 'collect' else site.self_ty
    s = short_type(strip_lifetimes(target).strip())
    if s in ('Result', 'Option'):
        # short-circuit: stop pulling at the first Err/None
        xs = []
        while True:
            v = it.next(ex)
            if v is None: break
            xs.append(v)
            if (s == 'Result' and v.variant == 1) or (s == 'Option' and v.variant == 0): break
        return collect_into(ex, xs, target)
    return collect_into(ex, materialize(ex, it), target)


@model('iter::once', 'iter::empty', 'iter::repeat_n')
def m_once(ex, site, a):
    if site.method == 'once': return IterV([a[0]])
    if site.method == 'empty': return IterV([])
    return IterV([clone_value(ex, a[0]) for _ in range(a[1])])


@model('Vec::into_iter', 'Vec::into_boxed_slice_iter')
def m_vec_into_iter(ex, site, a): return to_iter(ex, a[0])


@model('Chars::as_str')
def m_chars_as_str(ex, site, a):
    it = iter_of_arg(ex, a[0])
    if it.aux is None: raise Unsupported('Chars::as_str')
    sl, offs = it.aux
    start = offs[it.pos] if it.pos < len(offs) else len(sl)
    return SliceRef(sl.vec, sl.lo + start, sl.hi, 'str')
