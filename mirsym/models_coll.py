"""Models: Vec, String, str, slices, BTreeMap/HashMap/HashSet (sequential), char/u8 classification."""
import re
import z3
from .values import *
from .models import (model, rx, some, none, ok, err, deref, items_of, string_of, str_ref, pystr, conc_bytes, b2z, zand, zor,
                     znot, eq_scalar, eq_items, in_range, cmp_items, vec_cell, site_generic, clone_value, values_eq,
                     values_cmp, default_of, cow_inner, ordering, tup)
from .engine import HostObj

REG = []
_model = model


def model(*keys):   # register into this module's REG
    def deco(fn):
        for k in keys: REG.append((k, fn))
        return fn
    return deco


def the_vec(ex, p):
    v = deref(ex, p)
    if isinstance(v, Agg) and v.ty == 'Cow': v = deref(ex, v.fields[0])
    if not isinstance(v, (VecV, SliceRef)): raise Unsupported('expected vec, got %r' % (v,))
    return v


def as_slice(ex, p, kind=None):
    v = the_vec(ex, p)
    if isinstance(v, SliceRef): return v
    return SliceRef(v, 0, len(v.items), kind or ('str' if v.kind in ('string', 'str') else 'slice'))


# --------------------------------------------------------------------------- Vec
@model('Vec::new', 'String::new', 'Vec::with_capacity', 'String::with_capacity')
def m_vec_new(ex, site, a):
    return VecV([], 'string' if site.self_short == 'String' else 'vec')


@model('Vec::push', 'VecDeque::push_back')
def m_vec_push(ex, site, a):
    the_vec(ex, a[0]).items.append(a[1]); return unit()


@model('Vec::pop', 'VecDeque::pop_back')
def m_vec_pop(ex, site, a):
    v = the_vec(ex, a[0])
    return some(v.items.pop()) if v.items else none()


@model('VecDeque::pop_front')
def m_vd_pop_front(ex, site, a):
    v = the_vec(ex, a[0])
    return some(v.items.pop(0)) if v.items else none()


@model('Vec::len', 'String::len', 'str::len', '[T]::len', 'VecDeque::len')
def m_len(ex, site, a):
    return len(as_slice(ex, a[0]))


@model('Vec::is_empty', 'String::is_empty', 'str::is_empty', '[T]::is_empty', 'VecDeque::is_empty')
def m_is_empty(ex, site, a):
    return len(as_slice(ex, a[0])) == 0


def conc_index(ex, i, n, what):
    """indices are concrete per path: a symbolic index forks over 0..n (bounded by the concrete length)"""
    if not is_sym(i): return i
    conds = [i == k for k in range(n + 1)] + [z3.UGT(i, n)]
    k = ex.choose(conds)
    return k if k <= n else n + 1


@model('Vec::remove')
def m_vec_remove(ex, site, a):
    v = the_vec(ex, a[0]); i = conc_index(ex, a[1], len(v.items), 'remove')
    if i >= len(v.items):
        raise Panic('index', 'removal index (is %d) should be < len (is %d)' % (i, len(v.items)), ex.where())
    return v.items.pop(i)


@model('Vec::insert')
def m_vec_insert(ex, site, a):
    v = the_vec(ex, a[0]); i = conc_index(ex, a[1], len(v.items), 'insert')
    if i > len(v.items):
        raise Panic('index', 'insertion index (is %d) should be <= len (is %d)' % (i, len(v.items)), ex.where())
    v.items.insert(i, a[2]); return unit()


@model('Vec::swap_remove')
def m_vec_swap_remove(ex, site, a):
    v = the_vec(ex, a[0]); i = conc_index(ex, a[1], len(v.items), 'swap_remove')
    if i >= len(v.items):
        raise Panic('index', 'swap_remove index (is %d) should be < len (is %d)' % (i, len(v.items)), ex.where())
    x = v.items[i]; last = v.items.pop()
    if i < len(v.items): v.items[i] = last
    return x


@model('Vec::clear', 'String::clear')
def m_vec_clear(ex, site, a):
    del the_vec(ex, a[0]).items[:]; return unit()


@model('Vec::truncate', 'String::truncate')
def m_vec_truncate(ex, site, a):
    v = the_vec(ex, a[0]); n = conc_index(ex, a[1], len(v.items), 'truncate')
    if n < len(v.items): del v.items[n:]
    return unit()


@model('Vec::resize')
def m_vec_resize(ex, site, a):
    v = the_vec(ex, a[0]); n = conc_index(ex, a[1], 1 << 40, 'resize')
    if n > 1 << 20: raise Unsupported('Vec::resize to %d elements' % n)
    if n < len(v.items): del v.items[n:]
    else: v.items.extend([a[2]] * (n - len(v.items)))
    return unit()


@model('Vec::split_off')
def m_vec_split_off(ex, site, a):
    v = the_vec(ex, a[0]); n = conc_index(ex, a[1], len(v.items), 'split_off')
    if n > len(v.items): raise Panic('index', '`at` split index (is %d) should be <= len (is %d)' % (n, len(v.items)), ex.where())
    tail = v.items[n:]; del v.items[n:]
    return VecV(tail, v.kind)


@model('Vec::extend_from_slice', 'String::push_str')
def m_extend_from_slice(ex, site, a):
    the_vec(ex, a[0]).items.extend(items_of(ex, a[1])); return unit()


@model('Vec::append')
def m_vec_append(ex, site, a):
    o = the_vec(ex, a[1]); the_vec(ex, a[0]).items.extend(o.items); del o.items[:]; return unit()


@model('Vec::reserve', 'String::reserve', 'Vec::shrink_to_fit', 'String::shrink_to_fit', 'Vec::reserve_exact')
def m_noop(ex, site, a): return unit()


@model('Vec::as_slice', 'Vec::as_mut_slice', 'String::as_str', 'String::as_bytes', 'str::as_bytes', 'String::as_mut_str',
       'str::as_ptr', 'Vec::as_ptr', 'String::into_bytes', 'str::as_str', '[T]::as_ptr', 'Vec::as_mut_ptr', 'String::into_boxed_str',
       'Vec::into_boxed_slice', 'str::trim_matches_noop')
def m_as_slice(ex, site, a):
    v = the_vec(ex, a[0])
    if site.method == 'into_bytes': return VecV(v.items, 'vec')
    kind = 'str' if site.method in ('as_str', 'as_mut_str', 'into_boxed_str') else ('slice' if site.method in ('as_bytes', 'as_slice', 'as_mut_slice') else None)
    if isinstance(v, SliceRef): return SliceRef(v.vec, v.lo, v.hi, kind or v.kind)
    return SliceRef(v, 0, len(v.items), kind or ('str' if v.kind == 'string' else 'slice'))


@model('String::push')
def m_string_push(ex, site, a):
    the_vec(ex, a[0]).items.extend(encode_utf8(ex, a[1])); return unit()


@model('String::pop')
def m_string_pop(ex, site, a):
    v = the_vec(ex, a[0])
    if not v.items: return none()
    # last char: walk back over continuation bytes
    k = len(v.items) - 1
    while k > 0 and ex.branch(in_range(v.items[k], 0x80, 0xBF)): k -= 1
    ch = decode_utf8_char(ex, v.items[k:]); del v.items[k:]
    return some(ch)


@model('String::from_utf8_lossy')
def m_from_utf8_lossy(ex, site, a):
    src = as_slice(ex, a[0]); items = src.items()
    out, changed = utf8_lossy(ex, items)
    if not changed: return Agg('Cow', 0, [SliceRef(src.vec, src.lo, src.hi, 'str')])
    return Agg('Cow', 1, [string_of(out)])


@model('String::from_utf8', 'str::from_utf8')
def m_from_utf8(ex, site, a):
    v = deref(ex, a[0]); items = items_of(ex, v)
    out, changed = utf8_lossy(ex, items)
    if changed: return err(Agg('Utf8Error', 0, []))
    if site.self_short == 'String': return ok(string_of(items))
    s = as_slice(ex, a[0]); return ok(SliceRef(s.vec, s.lo, s.hi, 'str'))


@model('String::from_utf8_unchecked', 'str::from_utf8_unchecked')
def m_from_utf8_unchecked(ex, site, a):
    v = deref(ex, a[0])
    if isinstance(v, VecV): return VecV(v.items, 'string')
    return SliceRef(v.vec, v.lo, v.hi, 'str')


def utf8_lossy(ex, items):
    """exact model of core::str::Utf8Chunks + U+FFFD substitution; forks on the validity class of each byte"""
    out = []; i = 0; n = len(items); changed = False
    REPL = [0xEF, 0xBF, 0xBD]
    while i < n:
        b = items[i]
        if ex.branch(in_range(b, 0, 0x7F)):
            out.append(b); i += 1; continue
        classes = [in_range(b, 0xC2, 0xDF), eq_scalar(b, 0xE0), zor([in_range(b, 0xE1, 0xEC), in_range(b, 0xEE, 0xEF)]),
                   eq_scalar(b, 0xED), eq_scalar(b, 0xF0), in_range(b, 0xF1, 0xF3), eq_scalar(b, 0xF4)]
        inv = zand([znot(c) for c in classes])
        k = ex.choose(classes + [inv])
        if k == 7:
            out += REPL; changed = True; i += 1; continue
        need = [1, 2, 2, 2, 3, 3, 3][k]
        second = [(0x80, 0xBF), (0xA0, 0xBF), (0x80, 0xBF), (0x80, 0x9F), (0x90, 0xBF), (0x80, 0xBF), (0x80, 0x8F)][k]
        good = 1; okk = True
        for j in range(1, need + 1):
            if i + j >= n: okk = False; break
            lo, hi = second if j == 1 else (0x80, 0xBF)
            if not ex.branch(in_range(items[i + j], lo, hi)): okk = False; break
            good += 1
        if okk:
            out += items[i:i + need + 1]; i += need + 1
        else:
            out += REPL; changed = True; i += good
    return out, changed


def encode_utf8(ex, c):
    """char -> utf-8 bytes (forks on the length class when symbolic)"""
    if not is_sym(c):
        return list(chr(c).encode('utf-8', 'surrogatepass'))
    k = ex.choose([z3.ULT(c, 0x80), z3.And(z3.UGE(c, 0x80), z3.ULT(c, 0x800)), z3.And(z3.UGE(c, 0x800), z3.ULT(c, 0x10000)),
                   z3.UGE(c, 0x10000)])
    ex8 = lambda e: z3.simplify(z3.Extract(7, 0, e))
    if k == 0: return [ex8(c)]
    if k == 1: return [ex8(0xC0 | z3.LShR(c, 6)), ex8(0x80 | (c & 0x3F))]
    if k == 2: return [ex8(0xE0 | z3.LShR(c, 12)), ex8(0x80 | (z3.LShR(c, 6) & 0x3F)), ex8(0x80 | (c & 0x3F))]
    return [ex8(0xF0 | z3.LShR(c, 18)), ex8(0x80 | (z3.LShR(c, 12) & 0x3F)), ex8(0x80 | (z3.LShR(c, 6) & 0x3F)), ex8(0x80 | (c & 0x3F))]


def utf8_width(ex, b):
    """width of the char starting at lead byte b (string is valid UTF-8 by construction)"""
    if not is_sym(b):
        return 1 if b < 0x80 else (2 if b < 0xE0 else (3 if b < 0xF0 else 4))
    k = ex.choose([z3.ULT(b, 0x80), z3.And(z3.UGE(b, 0x80), z3.ULT(b, 0xE0)), z3.And(z3.UGE(b, 0xE0), z3.ULT(b, 0xF0)), z3.UGE(b, 0xF0)])
    return k + 1


def decode_utf8_char(ex, bs):
    """first char of a valid UTF-8 byte list -> (code point)"""
    w = utf8_width(ex, bs[0])
    if w > len(bs): raise Unsupported('truncated utf-8 in str')
    z = lambda x: z3.ZeroExt(24, b2z(x)) if is_sym(x) else x
    if all(not is_sym(x) for x in bs[:w]):
        return ord(bytes(bs[:w]).decode('utf-8', 'replace')[0])
    if w == 1: return z3.simplify(z(bs[0]))
    if w == 2: return z3.simplify(((z(bs[0]) & 0x1F) << 6) | (z(bs[1]) & 0x3F))
    if w == 3: return z3.simplify(((z(bs[0]) & 0x0F) << 12) | ((z(bs[1]) & 0x3F) << 6) | (z(bs[2]) & 0x3F))
    return z3.simplify(((z(bs[0]) & 0x07) << 18) | ((z(bs[1]) & 0x3F) << 12) | ((z(bs[2]) & 0x3F) << 6) | (z(bs[3]) & 0x3F))


def chars_of(ex, items):
    """valid UTF-8 byte list -> list of (code point, byte offset, width)"""
    out = []; i = 0
    while i < len(items):
        w = utf8_width(ex, items[i])
        out.append((decode_utf8_char(ex, items[i:i + w]), i, w)); i += w
    return out


@model('String::from_utf16_lossy', 'String::from_utf16')
def m_from_utf16_lossy(ex, site, a):
    us = items_of(ex, a[0]); out = []; i = 0
    while i < len(us):
        u = us[i]
        z = b2z(u, 16)
        if ex.branch(zor([z3.ULT(z, 0xD800), z3.UGT(z, 0xDFFF)]) if is_sym(u) else (u < 0xD800 or u > 0xDFFF)):
            out += encode_utf8(ex, z3.ZeroExt(16, z) if is_sym(u) else u); i += 1; continue
        # surrogates: high followed by low forms a pair; anything else is U+FFFD
        hi = in_range(u, 0xD800, 0xDBFF)
        if ex.branch(hi) and i + 1 < len(us) and ex.branch(in_range(us[i + 1], 0xDC00, 0xDFFF)):
            lo = us[i + 1]
            c = 0x10000 + (((z3.ZeroExt(16, b2z(u, 16)) - 0xD800) << 10) | (z3.ZeroExt(16, b2z(lo, 16)) - 0xDC00)) \
                if (is_sym(u) or is_sym(lo)) else 0x10000 + (((u - 0xD800) << 10) | (lo - 0xDC00))
            out += encode_utf8(ex, c); i += 2; continue
        if site.method == 'from_utf16': return err(Agg('FromUtf16Error', 0, []))
        out += [0xEF, 0xBF, 0xBD]; i += 1
    return string_of(out) if site.method == 'from_utf16_lossy' else ok(string_of(out))


# --------------------------------------------------------------------------- str
@model(rx(r'^<.* as ToString>::to_string$'))
def m_to_string(ex, site, a):
    v = deref(ex, a[0])
    if isinstance(v, Agg) and v.ty == 'Cow': v = deref(ex, v.fields[0])
    if isinstance(v, (VecV, SliceRef)): return string_of(items_of(ex, v))
    from .models_fmt import display_bytes, FmtErr, FMT_PANIC_TO_STRING
    try:
        return string_of(display_bytes(ex, v, site.self_ty))
    except FmtErr:
        raise Panic('display', FMT_PANIC_TO_STRING, ex.where())


@model('str::to_string', 'str::to_owned', 'String::from_str', 'str::into_string', 'Cow::into_owned', 'Cow::to_string')
def m_str_to_string(ex, site, a):
    return string_of(items_of(ex, a[0]))


@model('<String as FromStr>::from_str')
def m_string_from_str(ex, site, a): return ok(string_of(items_of(ex, a[0])))


def bounds_str(ex, s, lo, hi):
    n = len(s)
    if lo > hi: raise Panic('slice', 'slice index starts at %d but ends at %d' % (lo, hi), ex.where())
    if hi > n: raise Panic('slice', 'range end index %d out of range for slice of length %d' % (hi, n), ex.where())
    if s.kind == 'str':
        items = s.items()
        for b in (lo, hi):
            if 0 < b < n:
                if ex.branch(in_range(items[b], 0x80, 0xBF)):
                    raise Panic('slice', 'byte index %d is not a char boundary' % b, ex.where())
    return SliceRef(s.vec, s.lo + lo, s.lo + hi, s.kind)


def range_bounds(ex, r, n):
    r = deref(ex, r)
    t = r.ty
    f = r.fields
    c = lambda x: conc_index(ex, x, n, 'range')
    if t == 'Range': return c(f[0]), c(f[1])
    if t == 'RangeFrom': return c(f[0]), n
    if t == 'RangeTo': return 0, c(f[0])
    if t == 'RangeFull': return 0, n
    if t == 'RangeInclusive': return c(f[0]), c(f[1]) + 1
    if t == 'RangeToInclusive': return 0, c(f[0]) + 1
    raise Unsupported('range type ' + t)


@model(rx(r'^<(str|String|\[T\]|Vec|\[T; N\]) as (Index|IndexMut)>::(index|index_mut)$'))
def m_index(ex, site, a):
    targ = site.trait_args or ''
    if 'Range' in targ:
        s = as_slice(ex, a[0])
        lo, hi = range_bounds(ex, a[1], len(s))
        return bounds_str(ex, s, lo, hi)
    # usize index -> reference to element
    cellp = a[0]
    v = deref(ex, cellp)
    if isinstance(v, SliceRef):
        i = conc_index(ex, a[1], len(v), 'index')
        if i >= len(v): raise Panic('index', 'index out of bounds: the len is %d but the index is %d' % (len(v), i), ex.where())
        return Ptr(Cell(v.vec), (('i', v.lo + i),))
    n = len(v.items); i = conc_index(ex, a[1], n, 'index')
    if i >= n: raise Panic('index', 'index out of bounds: the len is %d but the index is %d' % (n, i), ex.where())
    c, p, _ = vec_cell(ex, cellp)
    return Ptr(c, p + (('i', i),))


@model('str::get', '[T]::get', 'Vec::get', '[T]::get_mut', 'Vec::get_mut', 'str::get_mut')
def m_get(ex, site, a):
    g = site_generic(site)
    v = deref(ex, a[0])
    if 'Range' in g:
        s = as_slice(ex, a[0]); lo, hi = range_bounds(ex, a[1], len(s))
        try: return some(bounds_str(ex, s, lo, hi))
        except Panic: return none()
    if isinstance(v, SliceRef):
        i = conc_index(ex, a[1], len(v), 'get')
        return some(Ptr(Cell(v.vec), (('i', v.lo + i),))) if i < len(v) else none()
    i = conc_index(ex, a[1], len(v.items), 'get')
    if i >= len(v.items): return none()
    c, p, _ = vec_cell(ex, a[0])
    return some(Ptr(c, p + (('i', i),)))


@model('[T]::first', 'Vec::first', '[T]::last', 'Vec::last', '[T]::first_mut', '[T]::last_mut')
def m_first_last(ex, site, a):
    v = deref(ex, a[0]); n = len(v) if isinstance(v, SliceRef) else len(v.items)
    if n == 0: return none()
    i = 0 if site.method.startswith('first') else n - 1
    if isinstance(v, SliceRef): return some(Ptr(Cell(v.vec), (('i', v.lo + i),)))
    c, p, _ = vec_cell(ex, a[0])
    return some(Ptr(c, p + (('i', i),)))


@model('[T]::split_first', '[T]::split_last')
def m_split_first(ex, site, a):
    s = as_slice(ex, a[0])
    if len(s) == 0: return none()
    if site.method == 'split_first':
        return some(tup(Ptr(Cell(s.vec), (('i', s.lo),)), SliceRef(s.vec, s.lo + 1, s.hi, s.kind)))
    return some(tup(Ptr(Cell(s.vec), (('i', s.hi - 1),)), SliceRef(s.vec, s.lo, s.hi - 1, s.kind)))


@model('[T]::contains', 'Vec::contains', 'VecDeque::contains')
def m_contains(ex, site, a):
    items = items_of(ex, a[0]); x = deref(ex, a[1])
    return zor(values_eq(ex, i, x) for i in items)


@model('str::contains', 'str::starts_with', 'str::ends_with', 'str::find', 'str::rfind', 'str::strip_prefix', 'str::strip_suffix',
       '[T]::starts_with', '[T]::ends_with')
def m_str_search(ex, site, a):
    s = as_slice(ex, a[0]); hay = s.items()
    pat = a[1]
    g = site_generic(site)
    # pattern: char, &str, &String, closure
    if isinstance(pat, (int,)) or (is_sym(pat) and not z3.is_bool(pat)):
        needle = encode_utf8(ex, pat)
    elif isinstance(deref(ex, pat), (VecV, SliceRef)) or (isinstance(deref(ex, pat), Agg) and deref(ex, pat).ty == 'Cow'):
        needle = items_of(ex, pat)
    else:
        return str_search_pred(ex, site, s, pat)
    n = len(needle); h = len(hay)
    me = site.method
    def at(i): return eq_items(hay[i:i + n], needle) if i + n <= h else False
    if me == 'starts_with': return at(0)
    if me == 'ends_with': return at(h - n) if h >= n else False
    if me == 'contains': return zor(at(i) for i in range(0, h - n + 1))
    if me == 'strip_prefix':
        return some(SliceRef(s.vec, s.lo + n, s.hi, s.kind)) if ex.branch(at(0)) else none()
    if me == 'strip_suffix':
        return some(SliceRef(s.vec, s.lo, s.hi - n, s.kind)) if h >= n and ex.branch(at(h - n)) else none()
    rng = range(0, h - n + 1) if me == 'find' else range(h - n, -1, -1)
    for i in rng:
        if ex.branch(at(i)): return some(i)
    return none()


def str_search_pred(ex, site, s, f):
    chars = chars_of(ex, s.items()); me = site.method
    seq = chars if me != 'rfind' else list(reversed(chars))
    if me in ('find', 'rfind', 'contains'):
        for c, off, w in seq:
            if ex.branch(ex.call_value(f, [c])):
                return some(off) if me != 'contains' else True
        return none() if me != 'contains' else False
    if me == 'starts_with': return bool(chars) and ex.branch(ex.call_value(f, [chars[0][0]]))
    if me == 'ends_with': return bool(chars) and ex.branch(ex.call_value(f, [chars[-1][0]]))
    raise Unsupported('str::%s with predicate' % me)


WS = (9, 10, 11, 12, 13, 32)


def is_ws_byte(b):
    if is_sym(b): return z3.Or([b == w for w in WS])
    return b in WS


@model('str::trim', 'str::trim_start', 'str::trim_end')
def m_trim(ex, site, a):
    s = as_slice(ex, a[0]); items = s.items(); lo = 0; hi = len(items)
    # ASCII white space exactly; U+0085/U+00A0/U+2000.. are multi-byte: handled for concrete bytes only
    def ws_at(i):
        b = items[i]
        if not is_sym(b) and b >= 0x80:
            try:
                w = utf8_width(ex, b); ch = bytes(items[i:i + w]).decode('utf-8')
                return ch.isspace() and w
            except Exception:
                return 0
        return 1 if ex.branch(is_ws_byte(b)) else 0
    if site.method in ('trim', 'trim_start'):
        while lo < hi:
            w = ws_at(lo)
            if not w: break
            lo += w
    if site.method in ('trim', 'trim_end'):
        while hi > lo:
            b = items[hi - 1]
            if (is_sym(b) or b < 0x80):
                if ex.branch(is_ws_byte(b)): hi -= 1; continue
            break
    return SliceRef(s.vec, s.lo + lo, s.lo + hi, 'str')


@model('str::trim_matches', 'str::trim_start_matches', 'str::trim_end_matches')
def m_trim_matches(ex, site, a):
    s = as_slice(ex, a[0]); items = s.items(); lo = 0; hi = len(items); pat = a[1]
    def m(b):
        if isinstance(pat, int) or is_sym(pat): return eq_scalar(b if not is_sym(pat) or not is_sym(b) else b, pat if not is_sym(pat) else z3.Extract(7, 0, pat))
        return ex.call_value(pat, [z3.ZeroExt(24, b) if is_sym(b) else b])
    if site.method in ('trim_matches', 'trim_start_matches'):
        while lo < hi and ex.branch(m(items[lo])): lo += 1
    if site.method in ('trim_matches', 'trim_end_matches'):
        while hi > lo and ex.branch(m(items[hi - 1])): hi -= 1
    return SliceRef(s.vec, s.lo + lo, s.lo + hi, 'str')


def map_ascii(items, fn_conc, lo, hi, delta):
    out = []
    for x in items:
        if is_sym(x): out.append(z3.If(z3.And(z3.UGE(x, lo), z3.ULE(x, hi)), x + delta, x))
        else: out.append(x + delta if lo <= x <= hi else x)
    return out


@model('str::to_ascii_uppercase', 'str::to_ascii_lowercase', '[T]::to_ascii_uppercase', '[T]::to_ascii_lowercase')
def m_to_ascii_case(ex, site, a):
    items = items_of(ex, a[0])
    up = site.method.endswith('uppercase')
    out = map_ascii(items, None, 97 if up else 65, 122 if up else 90, -32 if up else 32)
    return string_of(out) if site.self_short == 'str' else VecV(out, 'vec')


@model('str::to_uppercase', 'str::to_lowercase')
def m_to_case(ex, site, a):
    items = items_of(ex, a[0])
    up = site.method == 'to_uppercase'
    bs = conc_bytes(items)
    if bs is not None:
        t = bs.decode('utf-8', 'replace'); t = t.upper() if up else t.lower()
        return pystr(t)
    for x in items:
        if is_sym(x):
            if not ex.branch(z3.ULT(x, 0x80)):
                # Unicode case tables are not encoded: the text is fixed to the solver's choice on this path (a stated
                # sampling step, recorded in the decision trace) and std's own mapping is applied
                bs2 = bytes((ex.concretize(b) if is_sym(b) else b) & 0xff for b in items)
                ex.side['concretized_case_char'] = True
                t = bs2.decode('utf-8', 'replace'); t = t.upper() if up else t.lower()
                return pystr(t)
        elif x >= 0x80:
            bs2 = bytes((ex.concretize(b) if is_sym(b) else b) & 0xff for b in items)
            ex.side['concretized_case_char'] = True
            t = bs2.decode('utf-8', 'replace'); t = t.upper() if up else t.lower()
            return pystr(t)
    return string_of(map_ascii(items, None, 97 if up else 65, 122 if up else 90, -32 if up else 32))


@model('str::eq_ignore_ascii_case')
def m_eq_ignore_case(ex, site, a):
    x = map_ascii(items_of(ex, a[0]), None, 65, 90, 32); y = map_ascii(items_of(ex, a[1]), None, 65, 90, 32)
    return eq_items(x, y)


@model('str::is_char_boundary')
def m_is_char_boundary(ex, site, a):
    items = items_of(ex, a[0]); i = conc_index(ex, a[1], len(items), 'is_char_boundary')
    if i == 0 or i == len(items): return True
    if i > len(items): return False
    return znot(in_range(items[i], 0x80, 0xBF))


@model('str::repeat')
def m_repeat(ex, site, a):
    n = conc_index(ex, a[1], 64, 'repeat')
    return string_of(list(items_of(ex, a[0])) * n)


@model('str::replace')
def m_str_replace(ex, site, a):
    hay = items_of(ex, a[0]); pat = a[1]
    needle = encode_utf8(ex, pat) if (isinstance(pat, int) or is_sym(pat)) else items_of(ex, pat)
    rep = items_of(ex, a[2]); out = []; i = 0; n = len(needle)
    if n == 0: raise Unsupported('replace with empty pattern')
    while i < len(hay):
        if i + n <= len(hay) and ex.branch(eq_items(hay[i:i + n], needle)):
            out += rep; i += n
        else:
            out.append(hay[i]); i += 1
    return string_of(out)


@model('[T]::concat', '[T]::join', 'Vec::join', 'Vec::concat', 'str::join')
def m_join(ex, site, a):
    parts = items_of(ex, a[0]); sep = items_of(ex, a[1]) if len(a) > 1 else []
    out = []
    for k, p in enumerate(parts):
        if k: out += sep
        out += items_of(ex, p)
    return string_of(out)


@model('String::insert_str', 'String::insert')
def m_string_insert(ex, site, a):
    v = the_vec(ex, a[0]); i = conc_index(ex, a[1], len(v.items), 'insert')
    ins = items_of(ex, a[2]) if site.method == 'insert_str' else encode_utf8(ex, a[2])
    if i > len(v.items): raise Panic('slice', 'insertion index out of bounds', ex.where())
    v.items[i:i] = ins; return unit()


@model('String::remove')
def m_string_remove(ex, site, a):
    v = the_vec(ex, a[0]); i = conc_index(ex, a[1], len(v.items), 'remove')
    if i >= len(v.items): raise Panic('slice', 'cannot remove a char from the end of a string', ex.where())
    w = utf8_width(ex, v.items[i]); ch = decode_utf8_char(ex, v.items[i:i + w]); del v.items[i:i + w]
    return ch


@model('<String as Add>::add')
def m_string_add(ex, site, a):
    v = a[0]; v.items.extend(items_of(ex, a[1])); return v


@model('<String as AddAssign>::add_assign')
def m_string_add_assign(ex, site, a):
    the_vec(ex, a[0]).items.extend(items_of(ex, a[1])); return unit()


@model('<String as Extend>::extend', '<Vec as Extend>::extend')
def m_extend(ex, site, a):
    from .models_iter import to_iter, iter_next
    v = the_vec(ex, a[0]); it = to_iter(ex, a[1])
    while True:
        x = iter_next(ex, it)
        if x is None: break
        if v.kind == 'string':
            xv = deref(ex, x)
            if isinstance(xv, (VecV, SliceRef)): v.items.extend(items_of(ex, xv))
            else: v.items.extend(encode_utf8(ex, xv))
        else:
            v.items.append(x)
    return unit()


# --------------------------------------------------------------------------- u8 / char classification
def cls(x, ranges):
    if is_sym(x): return z3.Or([z3.And(z3.UGE(x, lo), z3.ULE(x, hi)) if lo != hi else x == lo for lo, hi in ranges])
    return any(lo <= x <= hi for lo, hi in ranges)


CLASSES = {
    'is_ascii_digit': [(48, 57)], 'is_ascii_hexdigit': [(48, 57), (65, 70), (97, 102)], 'is_ascii_uppercase': [(65, 90)],
    'is_ascii_lowercase': [(97, 122)], 'is_ascii_alphabetic': [(65, 90), (97, 122)], 'is_ascii_alphanumeric': [(48, 57), (65, 90), (97, 122)],
    'is_ascii_whitespace': [(9, 10), (12, 13), (32, 32)], 'is_ascii': [(0, 127)], 'is_ascii_control': [(0, 31), (127, 127)],
    'is_ascii_punctuation': [(33, 47), (58, 64), (91, 96), (123, 126)], 'is_ascii_graphic': [(33, 126)],
}


@model(rx(r'^(u8|char)::is_ascii\w*$'))
def m_is_ascii_x(ex, site, a):
    x = deref(ex, a[0])
    return cls(x, CLASSES[site.method])


@model('char::is_control')
def m_char_is_control(ex, site, a):
    return cls(a[0], [(0, 31), (127, 159)])


@model('char::is_whitespace')
def m_char_is_whitespace(ex, site, a):
    return cls(a[0], [(9, 13), (32, 32), (0x85, 0x85), (0xA0, 0xA0), (0x1680, 0x1680), (0x2000, 0x200A), (0x2028, 0x2029),
                      (0x202F, 0x202F), (0x205F, 0x205F), (0x3000, 0x3000)])


def _uni(ex, c, pyfn, name):
    if not is_sym(c): return pyfn(chr(c))
    if ex.branch(z3.ULT(c, 0x80)):
        rs = []; s = None
        for i in range(0x80):
            if pyfn(chr(i)):
                if s is None: s = i
            elif s is not None: rs.append((s, i - 1)); s = None
        if s is not None: rs.append((s, 0x7f))
        return cls(c, rs) if rs else False
    raise Unsupported('%s of symbolic non-ASCII char' % name)


@model('char::is_alphabetic', 'unicode_data::alphabetic::lookup')
def m_char_is_alpha(ex, site, a): return _uni(ex, a[0], str.isalpha, 'is_alphabetic')
@model('char::is_alphanumeric')
def m_char_is_alnum(ex, site, a): return _uni(ex, a[0], str.isalnum, 'is_alphanumeric')
@model('char::is_numeric')
def m_char_is_numeric(ex, site, a): return _uni(ex, a[0], str.isnumeric, 'is_numeric')
@model('char::is_uppercase')
def m_char_is_upper(ex, site, a): return _uni(ex, a[0], str.isupper, 'is_uppercase')
@model('char::is_lowercase')
def m_char_is_lower(ex, site, a): return _uni(ex, a[0], str.islower, 'is_lowercase')


@model('u8::to_ascii_uppercase', 'char::to_ascii_uppercase', 'u8::to_ascii_lowercase', 'char::to_ascii_lowercase')
def m_to_ascii_x(ex, site, a):
    x = deref(ex, a[0]); up = site.method.endswith('uppercase')
    return map_ascii([x], None, 97 if up else 65, 122 if up else 90, -32 if up else 32)[0]


@model('char::is_digit')
def m_char_is_digit(ex, site, a):
    c = a[0]; radix = a[1]
    if radix == 10: return cls(c, [(48, 57)])
    if radix == 16: return cls(c, [(48, 57), (65, 70), (97, 102)])
    raise Unsupported('is_digit radix')


@model('char::to_digit')
def m_char_to_digit(ex, site, a):
    c = a[0]; radix = a[1]
    if not is_sym(c):
        try: return some(int(chr(c), radix))
        except ValueError: return none()
    if radix == 10:
        if ex.branch(cls(c, [(48, 57)])): return some(c - 48)
        return none()
    if isinstance(radix, int) and 11 <= radix <= 36:
        k = ex.choose([cls(c, [(48, 57)]), cls(c, [(97, 97 + radix - 11)]), cls(c, [(65, 65 + radix - 11)]),
                       z3.Not(z3.Or(cls(c, [(48, 57)]), cls(c, [(97, 97 + radix - 11)]), cls(c, [(65, 65 + radix - 11)])))])
        if k == 0: return some(c - 48)
        if k == 1: return some(c - 87)
        if k == 2: return some(c - 55)
        return none()
    raise Unsupported('to_digit radix')


@model('char::len_utf8')
def m_len_utf8(ex, site, a): return len(encode_utf8(ex, a[0]))


@model('char::encode_utf8')
def m_encode_utf8(ex, site, a):
    """writes the char into the caller's buffer and returns the written prefix; panics when the buffer is too small"""
    bs = encode_utf8(ex, a[0])
    try:
        buf = as_slice(ex, a[1])
    except Unsupported:
        return str_ref(bs)
    if len(bs) > len(buf):
        raise Panic('encode_utf8', 'encode_utf8: need %d bytes to encode the char but buffer has just %d' % (len(bs), len(buf)), ex.where())
    buf.vec.items[buf.lo:buf.lo + len(bs)] = bs
    return SliceRef(buf.vec, buf.lo, buf.lo + len(bs), 'str')


@model('char::from_u32')
def m_char_from_u32(ex, site, a):
    c = a[0]
    good = zand([zor([in_range(c, 0, 0xD7FF), in_range(c, 0xE000, 0x10FFFF)])])
    return some(c) if ex.branch(good) else none()


@model('char::from_digit')
def m_char_from_digit(ex, site, a):
    d = a[0]; r = a[1]
    if is_sym(d): raise Unsupported('from_digit symbolic')
    if d >= r: return none()
    return some(ord('0123456789abcdefghijklmnopqrstuvwxyz'[d]))


@model('<char as From>::from', '<u32 as From>::from', '<char as Into>::into')
def m_char_from(ex, site, a):
    v = a[0]
    if is_sym(v) and v.size() < 32: return z3.ZeroExt(32 - v.size(), v)
    return v


@model('<u8 as TryFrom>::try_from', '<char as TryFrom>::try_from', '<u32 as TryFrom>::try_from', '<usize as TryFrom>::try_from',
       '<i64 as TryFrom>::try_from', '<u16 as TryFrom>::try_from', '<i32 as TryFrom>::try_from', '<u64 as TryFrom>::try_from')
def m_int_try_from(ex, site, a):
    v = a[0]; t = site.self_short
    if t == 'char':
        good = zor([in_range(v, 0, 0xD7FF), in_range(v, 0xE000, 0x10FFFF)])
        return ok(v) if ex.branch(good) else err(Agg('CharTryFromError', 0, []))
    bits, sg = INT_TY[t]
    src = (site.trait_args or '').strip()
    sbits, ssg = INT_TY.get(src, (64, False))
    lo, hi = (-(1 << (bits - 1)), (1 << (bits - 1)) - 1) if sg else (0, (1 << bits) - 1)
    if not is_sym(v):
        return ok(v) if lo <= v <= hi else err(Agg('TryFromIntError', 0, []))
    if ssg: good = z3.And(v >= max(lo, -(1 << (sbits - 1))), v <= min(hi, (1 << (sbits - 1)) - 1))
    else: good = z3.ULE(v, min(hi, (1 << sbits) - 1))
    if ex.branch(good):
        if bits < sbits: return ok(z3.Extract(bits - 1, 0, v))
        if bits > sbits: return ok(z3.SignExt(bits - sbits, v) if ssg else z3.ZeroExt(bits - sbits, v))
        return ok(v)
    return err(Agg('TryFromIntError', 0, []))


@model('RangeInclusive::contains', 'Range::contains')
def m_range_contains(ex, site, a):
    r = deref(ex, a[0]); x = deref(ex, a[1]); lo, hi = r.fields[0], r.fields[1]
    sg = 'i' == (site_generic(site) or 'u')[:1]
    isfp = lambda v: isinstance(v, float) or (is_sym(v) and z3.is_fp(v))
    if isfp(lo) or isfp(hi) or isfp(x):
        from .engine import F64
        f = lambda v: v if is_sym(v) else z3.FPVal(float(v), F64)
        if not any(is_sym(v) for v in (lo, hi, x)):
            return lo <= x and (x <= hi if r.ty == 'RangeInclusive' else x < hi)
        return z3.And(z3.fpLEQ(f(lo), f(x)), z3.fpLEQ(f(x), f(hi)) if r.ty == 'RangeInclusive' else z3.fpLT(f(x), f(hi)))
    def le(p, q):
        if not is_sym(p) and not is_sym(q): return p <= q
        bits = p.size() if is_sym(p) else q.size()
        return (b2z(p, bits) <= b2z(q, bits)) if sg else z3.ULE(b2z(p, bits), b2z(q, bits))
    def lt(p, q):
        if not is_sym(p) and not is_sym(q): return p < q
        bits = p.size() if is_sym(p) else q.size()
        return (b2z(p, bits) < b2z(q, bits)) if sg else z3.ULT(b2z(p, bits), b2z(q, bits))
    return zand([le(lo, x), le(x, hi) if r.ty == 'RangeInclusive' else lt(x, hi)])


@model('RangeInclusive::new')
def m_range_incl_new(ex, site, a): return Agg('RangeInclusive', 0, [a[0], a[1], False])


# --------------------------------------------------------------------------- maps and sets (sequential models)
def map_items(ex, m):
    m = deref(ex, m)
    if isinstance(m, Agg) and m.ty in ('BTreeMap', 'HashMap', 'HashSet', 'BTreeSet', 'DashMap'):
        return m.fields[0].items, m.ty
    raise Unsupported('expected a map, got %r' % (m,))


def key_bytes(ex, k):
    k = deref(ex, k)
    if isinstance(k, Agg) and k.ty == 'Cow': k = deref(ex, k.fields[0])
    return k


def key_eq(ex, a, b):
    return values_eq(ex, a, b)


def map_find(ex, items, key, ordered):
    """-> (index, found) ; forks on key comparisons"""
    if ordered:
        for i, kv in enumerate(items):
            c = values_cmp(ex, key, kv.fields[0])
            if c == 0: return i, True
            if c < 0: return i, False
        return len(items), False
    kb = None
    try: kb = items_of(ex, key)
    except Unsupported: pass
    if kb is not None and len(items) > 8:
        # hashed containers of byte strings: narrow to candidates that can match on length and concrete bytes
        cand = []
        for i, kv in enumerate(items):
            try: ib = items_of(ex, kv.fields[0])
            except Unsupported: cand = None; break
            if len(ib) != len(kb): continue
            if any((not is_sym(x)) and (not is_sym(y)) and x != y for x, y in zip(kb, ib)): continue
            cand.append((i, ib))
        if cand is not None:
            if not cand: return len(items), False
            conds = [eq_items(kb, ib) for i, ib in cand]
            if any(c is True for c in conds): return cand[[c is True for c in conds].index(True)][0], True
            conds.append(zand([znot(c) for c in conds]))
            k = ex.choose(conds)
            return (cand[k][0], True) if k < len(cand) else (len(items), False)
    for i, kv in enumerate(items):
        if ex.branch(key_eq(ex, key, kv.fields[0])): return i, True
    return len(items), False


@model(rx(r'^(BTreeMap|HashMap|HashSet|BTreeSet|DashMap)::(new|default|with_capacity)$'))
def m_map_new(ex, site, a):
    return Agg(site.self_short, 0, [VecV([], 'vec')])


@model(rx(r'^(BTreeMap|HashMap|DashMap)::insert$'))
def m_map_insert(ex, site, a):
    items, ty = map_items(ex, a[0])
    if ty == 'DashMap': dash_write(ex, items, 'insert')
    i, found = map_find(ex, items, a[1], ty == 'BTreeMap')
    if found:
        old = items[i].fields[1]; items[i].fields[1] = a[2]; return some(old)
    items.insert(i, tup(a[1], a[2])); return none()


def dash_write(ex, items, what):
    """dashmap: a write (insert / remove / get_mut) takes the shard's write lock; doing so while this thread still holds a read
    guard (a `Ref` from get) of the same map deadlocks whenever both keys live in the same shard - which the hash decides, so
    it is treated as possible"""
    g = ex.side.get('dash_guards')
    if g is None: return
    live = [k for k, m in g.items() if m is items]
    if live:
        raise Panic('deadlock', 'DashMap::%s while a read guard of the same map is alive (self-deadlock when the keys share a shard)' % what, ex.where())


def dash_guard(ex, items, guard):
    g = ex.side.get('dash_guards')
    if g is not None: g[id(guard)] = items; ex.side.setdefault('dash_keep', []).append(guard)


def dash_release(ex, v):
    g = ex.side.get('dash_guards')
    if g is not None and isinstance(v, Agg):
        if v.ty == 'dashmap::Ref': g.pop(id(v), None)
        elif v.ty == 'Option' and v.variant == 1: dash_release(ex, v.fields[0])


@model(rx(r'^(BTreeSet|HashSet)::insert$'))
def m_set_insert(ex, site, a):
    items, ty = map_items(ex, a[0])
    i, found = map_find(ex, items, a[1], ty == 'BTreeSet')
    if found: return False
    items.insert(i, tup(a[1], unit())); return True


@model(rx(r'^(BTreeMap|HashMap|DashMap)::(get|get_mut|contains_key|remove|get_key_value)$'), rx(r'^(BTreeSet|HashSet)::(contains|remove|get)$'))
def m_map_get(ex, site, a):
    cellp = a[0]
    items, ty = map_items(ex, a[0])
    i, found = map_find(ex, items, a[1], ty.startswith('BTree'))
    me = site.method
    if me in ('contains_key', 'contains'): return found
    if ty == 'DashMap' and me in ('remove', 'get_mut'): dash_write(ex, items, me)
    if me == 'remove':
        if not found: return none() if 'Map' in ty else False
        kv = items.pop(i); return some(kv.fields[1]) if 'Map' in ty else True
    if not found: return none()
    if ty == 'DashMap':
        gd = Agg('dashmap::Ref', 0, [items[i].fields[0], items[i].fields[1]]); dash_guard(ex, items, gd)
        return some(gd)
    return some(Ptr(Cell(items[i]), (1 if 'Map' in ty else 0,)))


@model(rx(r'^(BTreeMap|HashMap|HashSet|BTreeSet|DashMap)::len$'))
def m_map_len(ex, site, a): return len(map_items(ex, a[0])[0])
@model(rx(r'^(BTreeMap|HashMap|HashSet|BTreeSet|DashMap)::is_empty$'))
def m_map_is_empty(ex, site, a): return len(map_items(ex, a[0])[0]) == 0
@model(rx(r'^(BTreeMap|HashMap|HashSet|BTreeSet|DashMap)::clear$'))
def m_map_clear(ex, site, a):
    del map_items(ex, a[0])[0][:]; return unit()


@model(rx(r'^(BTreeMap|HashMap)::entry$'))
def m_map_entry(ex, site, a):
    items, ty = map_items(ex, a[0])
    i, found = map_find(ex, items, a[1], ty == 'BTreeMap')
    return Agg('Entry', 1 if found else 0, [a[0], a[1], i])


@model('Entry::or_insert', 'Entry::or_insert_with', 'Entry::or_default')
def m_entry_or_insert(ex, site, a):
    e = a[0]; items, ty = map_items(ex, e.fields[0]); i = e.fields[2]
    if e.variant == 0:
        if site.method == 'or_insert': v = a[1]
        elif site.method == 'or_insert_with': v = ex.call_value(a[1], [])
        else: v = default_of(ex, (site.self_ty or '').split(',')[-1].rstrip('>').strip() if ',' in (site.self_ty or '') else 'Vec')
        items.insert(i, tup(e.fields[1], v))
    return Ptr(Cell(items[i]), (1,))


@model('Entry::and_modify')
def m_entry_and_modify(ex, site, a):
    e = a[0]
    if e.variant == 1:
        items, ty = map_items(ex, e.fields[0]); ex.call_value(a[1], [Ptr(Cell(items[e.fields[2]]), (1,))])
    return e


@model(rx(r'^(BTreeMap|HashMap)::(keys|values|iter|values_mut|iter_mut|into_keys|into_values)$'), rx(r'^(BTreeSet|HashSet)::iter$'))
def m_map_iter(ex, site, a):
    from .models_iter import IterV
    items, ty = map_items(ex, a[0]); me = site.method
    ex.note_unordered(ty)
    if me in ('keys',) or ty.endswith('Set'): return IterV([Ptr(Cell(kv), (0,)) for kv in items])
    if me in ('values', 'values_mut'): return IterV([Ptr(Cell(kv), (1,)) for kv in items])
    if me == 'into_keys': return IterV([kv.fields[0] for kv in items])
    if me == 'into_values': return IterV([kv.fields[1] for kv in items])
    return IterV([tup(Ptr(Cell(kv), (0,)), Ptr(Cell(kv), (1,))) for kv in items])


@model(rx(r'^(BTreeMap)::(first_key_value|last_key_value)$'))
def m_map_first(ex, site, a):
    items, ty = map_items(ex, a[0])
    if not items: return none()
    kv = items[0 if site.method.startswith('first') else -1]
    return some(tup(Ptr(Cell(kv), (0,)), Ptr(Cell(kv), (1,))))


@model(rx(r'^(BTreeMap|HashMap|HashSet|BTreeSet)::(extend|append)$'), rx(r'^<(BTreeMap|HashMap|HashSet|BTreeSet) as Extend>::extend$'))
def m_map_extend(ex, site, a):
    from .models_iter import to_iter, iter_next
    items, ty = map_items(ex, a[0]); it = to_iter(ex, a[1])
    while True:
        x = iter_next(ex, it)
        if x is None: break
        if ty.endswith('Set'): k, v = x, unit()
        else: x = deref(ex, x); k, v = x.fields[0], x.fields[1]
        i, found = map_find(ex, items, k, ty.startswith('BTree'))
        if found: items[i].fields[1] = v
        else: items.insert(i, tup(k, v))
    return unit()


@model(rx(r'^(BTreeMap|HashMap|DashMap)::retain$'))
def m_map_retain(ex, site, a):
    items, ty = map_items(ex, a[0]); keep = []
    if ty == 'DashMap': dash_write(ex, items, 'retain')
    for kv in items:
        if ex.branch(ex.call_value(a[1], [Ptr(Cell(kv), (0,)), Ptr(Cell(kv), (1,))])): keep.append(kv)
    items[:] = keep; return unit()


@model('Vec::retain')
def m_vec_retain(ex, site, a):
    v = the_vec(ex, a[0]); keep = []
    for k, x in enumerate(v.items):
        if ex.branch(ex.call_value(a[1], [Ptr(Cell(v), (('i', k),))])): keep.append(x)
    v.items[:] = keep; return unit()


@model('Vec::dedup')
def m_vec_dedup(ex, site, a):
    v = the_vec(ex, a[0]); out = []
    for x in v.items:
        if out and ex.branch(values_eq(ex, out[-1], x)): continue
        out.append(x)
    v.items[:] = out; return unit()


@model('Vec::dedup_by', 'Vec::dedup_by_key')
def m_vec_dedup_by(ex, site, a):
    v = the_vec(ex, a[0]); out = []; f = a[1]
    for x in v.items:
        if out:
            if site.method == 'dedup_by': same = ex.call_value(f, [Ptr(Cell(x)), Ptr(Cell(out[-1]))])     # same_bucket(current, previous kept)
            else: same = values_eq(ex, ex.call_value(f, [Ptr(Cell(x))]), ex.call_value(f, [Ptr(Cell(out[-1]))]))
            if (same if isinstance(same, bool) else ex.branch(same)): continue
        out.append(x)
    v.items[:] = out; return unit()


def sort_items(ex, items, cmpf):
    """insertion sort with forking comparisons (stable)"""
    out = []
    for x in items:
        k = len(out)
        while k > 0 and cmpf(out[k - 1], x) > 0: k -= 1
        out.insert(k, x)
    return out


@model('[T]::sort', 'Vec::sort', '[T]::sort_unstable', 'Vec::sort_unstable')
def m_sort(ex, site, a):
    s = as_slice(ex, a[0])
    v = s.vec; seg = sort_items(ex, s.items(), lambda p, q: values_cmp(ex, p, q))
    v.items[s.lo:s.hi] = seg; return unit()


@model('[T]::sort_by', 'Vec::sort_by', '[T]::sort_unstable_by')
def m_sort_by(ex, site, a):
    s = as_slice(ex, a[0]); f = a[1]
    def c(p, q): return ex.call_value(f, [Ptr(Cell(p)), Ptr(Cell(q))]).variant - 1
    s.vec.items[s.lo:s.hi] = sort_items(ex, s.items(), c); return unit()


@model('[T]::sort_by_key', 'Vec::sort_by_key', '[T]::sort_unstable_by_key')
def m_sort_by_key(ex, site, a):
    s = as_slice(ex, a[0]); f = a[1]
    def c(p, q): return values_cmp(ex, ex.call_value(f, [Ptr(Cell(p))]), ex.call_value(f, [Ptr(Cell(q))]))
    s.vec.items[s.lo:s.hi] = sort_items(ex, s.items(), c); return unit()


@model('[T]::reverse', 'Vec::reverse')
def m_reverse(ex, site, a):
    s = as_slice(ex, a[0]); s.vec.items[s.lo:s.hi] = list(reversed(s.items())); return unit()


@model('[T]::swap', 'Vec::swap')
def m_slice_swap(ex, site, a):
    s = as_slice(ex, a[0]); i = conc_index(ex, a[1], len(s), 'swap'); j = conc_index(ex, a[2], len(s), 'swap')
    if i >= len(s) or j >= len(s): raise Panic('index', 'swap index out of bounds', ex.where())
    it = s.vec.items; it[s.lo + i], it[s.lo + j] = it[s.lo + j], it[s.lo + i]; return unit()


@model('[T]::split_at', 'str::split_at')
def m_split_at(ex, site, a):
    s = as_slice(ex, a[0]); i = conc_index(ex, a[1], len(s), 'split_at')
    if i > len(s): raise Panic('slice', 'mid > len', ex.where())
    return tup(bounds_str(ex, s, 0, i), bounds_str(ex, s, i, len(s)))


@model('[T]::copy_from_slice', '[T]::clone_from_slice')
def m_copy_from_slice(ex, site, a):
    d = as_slice(ex, a[0]); s = as_slice(ex, a[1])
    if len(d) != len(s): raise Panic('slice', 'source slice length does not match destination', ex.where())
    d.vec.items[d.lo:d.hi] = s.items(); return unit()


@model('[T]::fill')
def m_fill(ex, site, a):
    d = as_slice(ex, a[0]); d.vec.items[d.lo:d.hi] = [a[1]] * len(d); return unit()


@model('[T]::into_vec', '[T]::to_vec', '<[T] as ToOwned>::to_owned')
def m_into_vec(ex, site, a):
    return VecV([clone_value(ex, x) for x in items_of(ex, a[0])], 'vec')


@model('slice::from_raw_parts', 'slice::from_raw_parts_mut')
def m_from_raw_parts(ex, site, a):
    p = a[0]
    if isinstance(p, SliceRef):
        n = conc_index(ex, a[1], len(p), 'from_raw_parts'); return SliceRef(p.vec, p.lo, p.lo + n, p.kind)
    raise Unsupported('from_raw_parts')


@model('str::chars', 'String::chars')
def m_chars(ex, site, a):
    from .models_iter import IterV
    sl = as_slice(ex, a[0])
    cs = chars_of(ex, sl.items())
    it = IterV([c for c, off, w in cs], tag='chars')
    it.aux = (sl, [off for c, off, w in cs])
    return it


@model('str::char_indices')
def m_char_indices(ex, site, a):
    from .models_iter import IterV
    return IterV([tup(off, c) for c, off, w in chars_of(ex, items_of(ex, a[0]))])


@model('str::bytes')
def m_bytes(ex, site, a):
    from .models_iter import IterV
    return IterV(list(items_of(ex, a[0])))


@model('[T]::iter', 'Vec::iter', '[T]::iter_mut', 'Vec::iter_mut', 'VecDeque::iter')
def m_slice_iter(ex, site, a):
    from .models_iter import IterV
    s = as_slice(ex, a[0]); c = Cell(s.vec)
    return IterV([Ptr(c, (('i', s.lo + k),)) for k in range(len(s))])


@model('Vec::drain', 'String::drain')
def m_drain(ex, site, a):
    from .models_iter import IterV
    v = the_vec(ex, a[0]); lo, hi = range_bounds(ex, a[1], len(v.items))
    if lo > hi or hi > len(v.items): raise Panic('slice', 'drain range out of bounds', ex.where())
    out = v.items[lo:hi]; del v.items[lo:hi]
    if v.kind == 'string': return IterV([c for c, o, w in chars_of(ex, out)])
    return IterV(out)


@model('[T]::windows', '[T]::chunks')
def m_windows(ex, site, a):
    from .models_iter import IterV
    s = as_slice(ex, a[0]); n = conc_index(ex, a[1], len(s) + 1, 'windows')
    if n == 0: raise Panic('explicit', 'window/chunk size must be non-zero', ex.where())
    if site.method == 'windows':
        return IterV([SliceRef(s.vec, s.lo + i, s.lo + i + n, s.kind) for i in range(0, len(s) - n + 1)])
    return IterV([SliceRef(s.vec, s.lo + i, min(s.hi, s.lo + i + n), s.kind) for i in range(0, len(s), n)])


@model('str::split', 'str::splitn', 'str::rsplit', 'str::split_terminator', 'str::rsplitn', 'str::split_once', 'str::rsplit_once',
       'str::split_whitespace', 'str::lines', 'str::split_inclusive')
def m_split(ex, site, a):
    from .models_iter import IterV
    s = as_slice(ex, a[0]); hay = s.items(); me = site.method
    if me in ('split_whitespace', 'lines'):
        pieces = []; start = None if me == 'split_whitespace' else 0
        for i, b in enumerate(hay):
            sep = ex.branch(is_ws_byte(b)) if me == 'split_whitespace' else ex.branch(eq_scalar(b, 10))
            if me == 'split_whitespace':
                if sep:
                    if start is not None: pieces.append((start, i)); start = None
                elif start is None: start = i
            else:
                if sep:
                    e = i
                    if e > start and ex.branch(eq_scalar(hay[e - 1], 13)): e -= 1
                    pieces.append((start, e)); start = i + 1
        if me == 'split_whitespace':
            if start is not None: pieces.append((start, len(hay)))
        elif start < len(hay): pieces.append((start, len(hay)))
        return IterV([SliceRef(s.vec, s.lo + p, s.lo + q, 'str') for p, q in pieces])
    limit = None; pat = a[1]
    if me in ('splitn', 'rsplitn'):
        limit = conc_index(ex, a[1], 64, 'splitn'); pat = a[2]
    if isinstance(pat, int) or (is_sym(pat) and not z3.is_bool(pat)):
        needle = encode_utf8(ex, pat); pred = None
    elif isinstance(deref(ex, pat), (VecV, SliceRef)):
        needle = items_of(ex, pat); pred = None
    else:
        needle = None; pred = pat
    # positions of matches, left to right, non-overlapping
    matches = []; i = 0; h = len(hay)
    if needle is not None:
        n = len(needle)
        if n == 0: raise Unsupported('split with empty pattern')
        while i + n <= h:
            if ex.branch(eq_items(hay[i:i + n], needle)): matches.append((i, i + n)); i += n
            else: i += 1
    else:
        for c, off, w in chars_of(ex, hay):
            if ex.branch(ex.call_value(pred, [c])): matches.append((off, off + w))
    if me in ('split_once', 'rsplit_once'):
        if not matches: return none()
        p, q = matches[0] if me == 'split_once' else matches[-1]
        return some(tup(SliceRef(s.vec, s.lo, s.lo + p, 'str'), SliceRef(s.vec, s.lo + q, s.hi, 'str')))
    pieces = []
    if me in ('rsplit', 'rsplitn'):
        end = h
        for p, q in reversed(matches):
            if limit is not None and len(pieces) + 1 >= limit: break
            pieces.append((q, end)); end = p
        if limit is None or limit > 0: pieces.append((0, end))
    else:
        start = 0
        for p, q in matches:
            if limit is not None and len(pieces) + 1 >= limit: break
            pieces.append((start, q if me == 'split_inclusive' else p)); start = q
        if limit is None or limit > 0:
            if not (me in ('split_terminator', 'split_inclusive') and start == h): pieces.append((start, h))
    return IterV([SliceRef(s.vec, s.lo + p, s.lo + q, 'str') for p, q in pieces])


@model('str::matches')
def m_matches(ex, site, a):
    raise Unsupported('str::matches')


@model('str::char_count', 'Chars::count')
def m_char_count(ex, site, a): raise Unsupported('char count')


@model('CStr::from_ptr')
def m_cstr_from_ptr(ex, site, a):
    p = a[0]
    if p is NULL or isinstance(p, NullPtr): raise Panic('null-deref', 'CStr::from_ptr(NULL)', ex.where())
    v = deref(ex, p)
    hook = ex.side.get('cstr_hook')
    if hook is not None: hook(ex, p)
    if isinstance(v, VecV): return SliceRef(v, 0, len(v.items), 'cstr')
    if isinstance(v, SliceRef): return SliceRef(v.vec, v.lo, v.hi, 'cstr')
    raise Unsupported('CStr::from_ptr of %r' % (v,))


@model('CStr::to_str')
def m_cstr_to_str(ex, site, a):
    s = as_slice(ex, a[0]); out, changed = utf8_lossy(ex, s.items())
    if changed: return err(Agg('Utf8Error', 0, []))
    return ok(SliceRef(s.vec, s.lo, s.hi, 'str'))


@model('CStr::to_string_lossy')
def m_cstr_to_string_lossy(ex, site, a):
    s = as_slice(ex, a[0]); out, changed = utf8_lossy(ex, s.items())
    if not changed: return Agg('Cow', 0, [SliceRef(s.vec, s.lo, s.hi, 'str')])
    return Agg('Cow', 1, [string_of(out)])


@model('CStr::to_bytes')
def m_cstr_to_bytes(ex, site, a):
    s = as_slice(ex, a[0]); return SliceRef(s.vec, s.lo, s.hi, 'slice')


@model('CString::new')
def m_cstring_new(ex, site, a):
    items = list(items_of(ex, a[0]))
    for i, b in enumerate(items):
        if ex.branch(eq_scalar(b, 0)): return err(Agg('NulError', 0, [i]))
    return ok(Agg('CString', 0, [VecV(items, 'cstring')]))


@model('CString::into_raw')
def m_cstring_into_raw(ex, site, a):
    c = Cell(a[0].fields[0])
    hook = ex.side.get('alloc_hook')
    if hook is not None: hook(ex, c, 'CString')
    return Ptr(c)


@model('CString::from_raw')
def m_cstring_from_raw(ex, site, a):
    p = a[0]
    if p is NULL or isinstance(p, NullPtr): raise Panic('null-deref', 'CString::from_raw(NULL)', ex.where())
    v = ex.load(p)
    hook = ex.side.get('from_raw_hook')
    if hook is not None: hook(ex, p, 'CString')
    return Agg('CString', 0, [v])


@model('CString::as_ptr', 'CStr::as_ptr')
def m_cstring_as_ptr(ex, site, a):
    v = deref(ex, a[0])
    if isinstance(v, Agg): return Ptr(Cell(v.fields[0]))
    return a[0]


@model('char::to_uppercase', 'char::to_lowercase')
def m_char_to_case(ex, site, a):
    c = a[0]; up = site.method == 'to_uppercase'
    if not is_sym(c):
        t = chr(c).upper() if up else chr(c).lower()
        return Agg('CaseIter', 0, [[ord(x) for x in t]])
    if ex.branch(z3.ULT(c, 0x80)):
        lo, hi, d = (97, 122, -32) if up else (65, 90, 32)
        return Agg('CaseIter', 0, [[z3.If(z3.And(z3.UGE(c, lo), z3.ULE(c, hi)), c + d, c)]])
    # Unicode case tables are not encoded: a non-ASCII symbolic char is fixed to the solver's choice on this path (stated)
    cc = ex.concretize(c)
    ex.side['concretized_case_char'] = True
    t = chr(cc).upper() if up else chr(cc).lower()
    return Agg('CaseIter', 0, [[ord(x) for x in t]])


@model('display:CaseIter')
def d_case_iter(ex, v, opts):
    out = []
    for c in v.fields[0]: out += encode_utf8(ex, c)
    return out
