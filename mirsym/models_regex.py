"""regex crate: Regex::new on a constant pattern, Regex::replace_all with a crate Replacer.  The match placement
(leftmost-first, non-overlapping) is computed by Python's `re` on CONCRETE haystacks - a model of the regex engine, stated as
trusted; haystacks with symbolic bytes are supported only when no byte can be '$' (then there is no match: obligation checked
separately as a regular-language query on the real pattern constant)."""
import re
import z3
from .values import *
from .models import rx, some, none, deref, items_of, string_of, str_ref, conc_bytes, unit
from .engine import HostObj

REG = []


def model(*keys):
    def deco(fn):
        for k in keys: REG.append((k, fn))
        return fn
    return deco


@model('Regex::new')
def m_regex_new(ex, site, a):
    pat = conc_bytes(items_of(ex, a[0]))
    if pat is None: raise Unsupported('Regex::new on a symbolic pattern')
    ex.side.setdefault('regex_patterns', []).append(pat.decode('utf-8'))
    return Agg('Result', 0, [Agg('Regex', 0, [pat.decode('utf-8')])])


@model('OnceLock::new')
def m_oncelock_new(ex, site, a): return Agg('OnceLock', 0, [None])


@model('OnceLock::get_or_init')
def m_oncelock_get_or_init(ex, site, a):
    p = a[0]; o = ex.load(p)
    if not o.fields: o.fields.append(None)
    if o.fields[0] is None: o.fields[0] = ex.call_value(a[1], [])
    return Ptr(p.cell, p.path + (0,))


@model('OnceLock::get')
def m_oncelock_get(ex, site, a):
    p = a[0]; o = ex.load(p)
    return none() if o.fields[0] is None else some(Ptr(p.cell, p.path + (0,)))


class ByteMatch:
    """a match on decoded text, reporting byte offsets"""
    def __init__(s, m, offs): s.m = m; s.offs = offs
    def span(s, i=0):
        a, b = s.m.span(i)
        return (-1, -1) if a < 0 else (s.offs[a], s.offs[b])
    def start(s): return s.span(0)[0]
    def end(s): return s.span(0)[1]


class Caps(HostObj):
    host_type = 'Captures'

    def __init__(s, hay, m): s.hay = hay; s.m = m


@model('Captures::get')
def m_caps_get(ex, site, a):
    c = deref(ex, a[0]); i = a[1]
    sp = c.m.span(i)
    if sp[0] < 0: return none()
    return some(Agg('regex::Match', 0, [SliceRef(c.hay.vec, c.hay.lo + sp[0], c.hay.lo + sp[1], 'str')]))


@model('Match::as_str')
def m_match_as_str(ex, site, a): return deref(ex, a[0]).fields[0]


@model('Regex::replace_all')
def m_replace_all(ex, site, a):
    rgx = deref(ex, a[0]); hay = a[1]; rep = a[2]
    from .models_coll import as_slice
    hs = as_slice(ex, hay)
    items = hs.items()
    pat = rgx.fields[0]
    if any(is_sym(b) for b in items):
        for b in items:
            if is_sym(b) and ex.sat(b == 36) is not None: raise Unsupported('regex replace_all on text with a symbolic byte that can be $')
            if not is_sym(b) and b == 36: raise Unsupported('regex replace_all on partly symbolic text containing $')
        ex.side['regex_no_dollar'] = True
        return Agg('Cow', 0, [hs])
    text = bytes(items)
    # the regex crate matches on `str` with Unicode-aware classes (\w, \d, \s, case folding): match on the decoded text and
    # convert character offsets back to byte offsets
    try:
        ustr = text.decode('utf-8')
    except UnicodeDecodeError:
        raise Unsupported('regex on text that is not valid UTF-8')
    offs = [0]
    for ch in ustr: offs.append(offs[-1] + len(ch.encode('utf-8')))
    ms = [ByteMatch(m, offs) for m in re.finditer(pat, ustr)]
    if not ms: return Agg('Cow', 0, [hs])
    dst = string_of([]); dcell = Cell(dst)
    repv = deref(ex, rep)
    b = ex.prog.find_method(repv.ty, 'Replacer', 'replace_append')
    if b is None: raise Unsupported('Replacer impl of ' + repv.ty)
    rcell = Cell(repv); last = 0
    for m in ms:
        dst.items.extend(text[last:m.start()])
        ex.call_body(b, [Ptr(rcell), Ptr(Cell(Caps(hs, m))), Ptr(dcell)])
        last = m.end()
    dst.items.extend(text[last:])
    return Agg('Cow', 1, [dst])
