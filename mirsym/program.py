"""Program: MIR bodies + indexes linking call sites to bodies; statement compiler."""
import re, os
from .mirparse import split_top, Body
from .srcindex import SrcIndex, STD_ENUMS, TypeDef
from .values import *

LIFETIME_RE = re.compile(r"'(?:_|[a-z]\w*)\b(?!')")


def strip_lifetimes(t):
    t = LIFETIME_RE.sub('', t)
    t = re.sub(r'<\s*,\s*', '<', t)
    t = re.sub(r',\s*,', ',', t)
    t = re.sub(r'\bfor<>\s*', '', t)
    t = re.sub(r'&\s+(?=\w|\[|\(|&|\*)', '&', t)
    t = t.replace('::<>', '')
    return t


def strip_generics(t):
    """remove every <...> group (but keep leading `<X as Y>` qualified-self brackets untouched by caller)"""
    out = []; d = 0; i = 0; n = len(t)
    while i < n:
        c = t[i]
        if c == '<':
            d += 1
        elif c == '>' and i > 0 and t[i - 1] != '-':
            d -= 1
            i += 1
            continue
        if d == 0:
            out.append(c)
        i += 1
    return ''.join(out).replace('::::', '::').rstrip(':')


def match_angle(t, i):
    """t[i] == '<' -> index of matching '>'"""
    d = 0; n = len(t)
    while i < n:
        c = t[i]
        if c == '<': d += 1
        elif c == '>' and t[i - 1] != '-':
            d -= 1
            if d == 0: return i
        i += 1
    return -1


def split_path(t):
    """split on :: at angle/paren depth 0"""
    out = []; d = 0; cur = []; i = 0; n = len(t)
    while i < n:
        c = t[i]
        if c in '<([{': d += 1
        elif c in ')]}': d -= 1
        elif c == '>' and t[i - 1] != '-': d -= 1
        if d == 0 and t.startswith('::', i):
            out.append(''.join(cur)); cur = []; i += 2; continue
        cur.append(c); i += 1
    out.append(''.join(cur))
    return out


def last_seg(t):
    return strip_generics(t).split('::')[-1]


def short_type(t):
    """`std::result::Result<u8, std::io::Error>` -> `Result`; `&mut [u8]` -> `&mut [T]`"""
    t = t.strip()
    pre = ''
    while True:
        m = re.match(r'^(&mut |&|\*const |\*mut )', t)
        if not m: break
        pre += m.group(1); t = t[m.end():].strip()
    if t.startswith('['):
        return pre + ('[T]' if ';' not in t else '[T; N]')
    if t.startswith('('):
        return pre + ('()' if t == '()' else '(..)')
    if t.startswith('dyn '):
        return pre + 'dyn ' + last_seg(t[4:].split('+')[0].strip())
    if t.startswith('<'):
        return pre + t  # projection
    if t.startswith('{closure@'):
        return pre + '{closure}'
    return pre + last_seg(t)


class CallSite:
    __slots__ = ('raw', 'kind', 'self_ty', 'trait', 'trait_args', 'method', 'path', 'generics', 'key', 'resolved', 'self_short', 'tparam')

    def __repr__(s):
        return '<call %s>' % s.key


GENERIC_PARAM_RE = re.compile(r'^(?:[A-Z]\d?|__H|Self)$')


def parse_callee(raw):
    c = strip_lifetimes(raw.strip())
    cs = CallSite(); cs.raw = c; cs.resolved = None; cs.trait = None; cs.trait_args = None; cs.self_ty = None
    cs.generics = []; cs.path = None; cs.tparam = False
    if c.startswith('<'):
        j = match_angle(c, 0)
        inner = c[1:j]; rest = c[j + 1:]
        # split `Self as Trait` at depth 0
        d = 0; k = -1
        for i, ch in enumerate(inner):
            if ch in '<([': d += 1
            elif ch in ')]' or (ch == '>' and inner[i - 1] != '-'): d -= 1
            elif d == 0 and inner.startswith(' as ', i): k = i; break
        if k >= 0:
            cs.kind = 'trait'
            cs.self_ty = inner[:k].strip(); tr = inner[k + 4:].strip()
            cs.trait = last_seg(tr)
            if '<' in tr:
                a = tr.index('<'); cs.trait_args = tr[a + 1:match_angle(tr, a)]
            segs = split_path(rest.lstrip(':'))
            cs.method = strip_generics(segs[0])
            for sg in segs:
                if '<' in sg: cs.generics.append(sg[sg.index('<') + 1: sg.rindex('>')])
            cs.self_short = short_type(cs.self_ty)
            st = cs.self_ty
            cs.tparam = bool(GENERIC_PARAM_RE.match(st)) or st.startswith('<') or bool(re.match(r'^&(mut )?[A-Z]\d?$', st))
            cs.key = '<%s as %s>::%s' % (cs.self_short, cs.trait, cs.method)
            return cs
        # `<Type>::method` (inherent on complex type)
        cs.kind = 'path'
        segs = [inner] + split_path(rest.lstrip(':'))
    else:
        cs.kind = 'path'
        segs = split_path(c)
    names = []
    for sg in segs:
        m = re.match(r'^<impl (.*)>$', sg)
        if m:
            names.append(short_type(m.group(1))); continue
        if sg.startswith('<') and sg.endswith('>'):
            cs.generics.append(sg[1:-1]); continue
        if '<' in sg and not sg.startswith('{'):
            a = sg.index('<'); cs.generics.append(sg[a + 1: match_angle(sg, a)]); sg = sg[:a]
        names.append(sg)
    cs.path = names
    cs.method = names[-1]
    if len(names) >= 2:
        cs.self_ty = '::'.join(names[:-1]); cs.self_short = names[-2]
        cs.key = '%s::%s' % (names[-2], names[-1])
    else:
        cs.self_short = None
        cs.key = names[-1]
    return cs


class Program:
    def alloc_statics(s):
        """alloc id -> name of the static it backs (from the allocation footers of the MIR dump)"""
        if getattr(s, '_alloc_statics', None) is None:
            d = {}
            try:
                with open(s.mir_path, errors='replace') as f:
                    for line in f:
                        if line.startswith('alloc'):
                            m = re.match(r'^alloc(\d+) \(static: (.+?), size: \d+', line)
                            if m: d[int(m.group(1))] = strip_lifetimes(m.group(2))
            except (OSError, AttributeError):
                pass
            s._alloc_statics = d
        return s._alloc_statics

    def __init__(s, bodies, repo):
        s.repo = repo
        s.src = SrcIndex(repo)
        s.bodies = bodies
        s.by_name = {}          # body name (generics/lifetimes stripped) -> [Body]
        s.impl_methods = {}     # (type_full, trait_short or None, method) -> [(Body, trait_args)]
        s.closures = {}         # closure span -> Body
        s.ctor = {}
        s.type_cache = {}
        s.aliases = {}
        for rel, src in s.src.files.items():
            for m in re.finditer(r'(?m)^(?:pub(?:\([^)]*\))?\s+)?type\s+(\w+)\s*=\s*([^;]+);', src):
                if '<' not in m.group(1) and m.group(1) not in ('Result',): s.aliases.setdefault(m.group(1), m.group(2).strip())
            for m in re.finditer(r'\b([A-Z]\w*)\s+as\s+([A-Z]\w*)\b', ' '.join(re.findall(r'(?m)^\s*(?:pub\s+)?use\s+[^;]+;', src))):
                if m.group(1) != m.group(2): s.aliases.setdefault(m.group(2), m.group(1))
        for b in bodies:
            nm = strip_lifetimes(b.name)
            s.by_name.setdefault(nm, []).append(b)
            if b.args and '{closure@' in b.args[0][1]:
                m = re.search(r'\{closure@([^}]+)\}', b.args[0][1])
                if m and '{closure#' in b.name.split('::')[-1]:
                    s.closures.setdefault(m.group(1), b)
            m = re.search(r'<impl at ([^:>]+):(\d+):(\d+): \d+:\d+>::(\w+)$', b.name)
            if m and m.group(1).startswith('src/'):
                info = s.src.impl_at(m.group(1), int(m.group(2)), int(m.group(3)))
                if info:
                    td, tr, trargs, tytext = info
                    if not isinstance(td, TypeDef) and td in s.src.alias_targets:
                        td = s.src.alias_targets[td]
                    if not isinstance(td, TypeDef) and td in s.aliases:
                        t2 = s.src.find_type(s.aliases[td])
                        if t2 is not None: td = t2
                    tyk = td.full if isinstance(td, TypeDef) else short_type(strip_lifetimes(td))
                    s.impl_methods.setdefault((tyk, tr, m.group(4)), []).append((b, trargs, tytext))
                    b.impl_span = (tyk, tr)
        s.static_cache = {}
    def norm(s, t):
        """normalised type text for matching impl headers against call sites (aliases expanded)"""
        t = norm_args(t)
        for _ in range(3):
            t2 = re.sub(r'\b(\w+)\b', lambda m: norm_args(s.aliases[m.group(1)]) if m.group(1) in s.aliases and m.group(1) not in ('Result',) else m.group(1), t)
            if t2 == t: break
            t = t2
        return t

    def src_aliases(s):
        a = getattr(s, '_src_aliases', None)
        if a is None:
            a = {}
            for rel, src in s.src.files.items():
                for m in re.finditer(r'(?m)^(?:pub(?:\([^)]*\))?\s+)?type\s+(\w+)\s*=\s*([^;]+);', src):
                    if '<' not in m.group(1): a.setdefault(m.group(1), m.group(2).strip())
            s._src_aliases = a
        return a

    # ---------- type names
    def canon_type(s, printed, from_file=None):
        """printed ADT path (generics already stripped) -> canonical name: full module path for crate
        types, last segment for foreign types"""
        k = printed
        r = s.type_cache.get(k)
        if r is None:
            td = s.src.find_type(printed)
            r = td.full if td else printed.split('::')[-1]
            s.type_cache[k] = r
        return r

    def typedef(s, canon):
        nm = canon.split('::')[-1]
        for td in s.src.types.get(nm, []):
            if td.full == canon: return td
        return None

    def variant_index(s, canon, vname):
        td = s.typedef(canon)
        if td and td.variants:
            for i, (n, d) in enumerate(td.variants):
                if n == vname: return i
        vs = STD_ENUMS.get(canon.split('::')[-1])
        if vs:
            for i, (n, d) in enumerate(vs):
                if n == vname: return i
        return None

    def variants(s, canon):
        td = s.typedef(canon)
        if td and td.variants: return td.variants
        return STD_ENUMS.get(canon.split('::')[-1])

    # ---------- lookup of bodies
    def find_fn(s, path_names):
        """free function / variant constructor by (possibly trimmed) path"""
        want = '::'.join(path_names)
        bs = s.by_name.get(want)
        if bs: return bs[0]
        # suffix match on :: boundary
        hits = []
        for nm, lst in s.by_name.items():
            if nm.endswith('::' + want) or want.endswith('::' + nm):
                hits.extend(lst)
        if len(hits) == 1: return hits[0]
        if hits:
            # prefer exact tail
            ex = [h for h in hits if strip_lifetimes(h.name).split('::')[-len(path_names):] == path_names]
            if len(ex) == 1: return ex[0]
        return None

    def find_method(s, type_canon, trait, method, trait_args=None):
        lst = s.impl_methods.get((type_canon, trait, method))
        if not lst: return None
        if len(lst) == 1 or trait_args is None: return lst[0][0]
        want = s.norm(trait_args)
        for b, ta, _ in lst:
            if ta is not None and s.norm(ta) == want: return b
        for b, ta, _ in lst:
            if ta is not None and (s.norm(ta).endswith(want) or want.endswith(s.norm(ta))): return b
        return None

    def find_trait_default(s, trait, method):
        for nm, lst in s.by_name.items():
            sg = nm.split('::')
            if len(sg) >= 2 and sg[-1] == method and sg[-2] == trait and '<impl at' not in nm:
                return lst[0]
        return None


def norm_args(t):
    t = strip_lifetimes(t)
    t = re.sub(r'\s+', '', t)
    t = re.sub(r'(\w+::)+', '', t)
    return t
