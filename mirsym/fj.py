"""filter AST (mirsym values under a model) -> canonical JSON shared with the replay binary (apis2.rs)."""
from .values import *
from .vj import Concretizer

OPS = ['Eq', 'NotEq', 'LessThan', 'LessThanEq', 'GreatThan', 'GreatThanEq']


class FilterDump(Concretizer):
    def path(s, p):
        p = s.de(p)
        return [s.hexs(s.de(seg).fields[0]) for seg in s.de(p.fields[0]).items]

    def or_(s, o):
        o = s.de(o)
        return {'or': [s.and_(a) for a in s.de(o.fields[0]).items]}

    def and_(s, a):
        a = s.de(a)
        return {'and': [s.term(t) for t in s.de(a.fields[0]).items]}

    def refv(s, r):
        r = s.de(r); d = s.opt(r.fields[1])
        return {'t': 'ref', 'v': s.hexs(r.fields[0]), 'dis': None if d is None else s.hexs(d)}

    def term(s, t):
        t = s.de(t)
        name = s.ex.prog.variants(t.ty)[t.variant][0]
        p = s.de(t.fields[0])
        if name == 'Parens': return {'parens': s.or_(p.fields[0])}
        if name == 'Has': return {'has': s.path(p.fields[0])}
        if name == 'Missing': return {'missing': s.path(p.fields[0])}
        if name == 'IsA': return {'isa': s.hexs(s.de(p.fields[0]).fields[0])}
        if name == 'WildcardEq': return {'weq': {'id': s.path(p.fields[0]), 'ref': s.refv(p.fields[1])}}
        if name == 'Relation':
            term = s.opt(p.fields[1]); ref = s.opt(p.fields[2])
            return {'rel': {'rel': s.hexs(s.de(p.fields[0]).fields[0]), 'term': None if term is None else s.hexs(s.de(term).fields[0]),
                            'ref': None if ref is None else s.refv(ref)}}
        if name == 'Cmp':
            op = s.de(p.fields[1])
            return {'cmp': {'path': s.path(p.fields[0]), 'op': OPS[op.variant], 'v': s.value(p.fields[2])}}
        raise Unsupported('term ' + name)
