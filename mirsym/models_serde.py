"""serde data-model level: a Serializer that builds a JSON tree with symbolic leaves and a Deserializer that walks such a
tree calling the crate's Visitor, the way serde_json does (non-negative integers -> visit_u64, negative -> visit_i64,
other numbers -> visit_f64, non-finite f64 written as null).  JSON *text* (serde_json's writer/reader) is outside the model."""
import re
import z3
from .values import *
from .models import rx, some, none, ok, err, deref, items_of, string_of, unit, tup, site_generic
from .engine import HostObj, F64
from .mirparse import split_top
from .program import short_type, strip_lifetimes, strip_generics

REG = []


def model(*keys):
    def deco(fn):
        for k in keys: REG.append((k, fn))
        return fn
    return deco


class J:
    """JSON tree node: kind in null/bool/i64/u64/f64/str/seq/map"""
    __slots__ = ('kind', 'v')

    def __init__(s, kind, v=None): s.kind = kind; s.v = v

    def __repr__(s): return 'J(%s %r)' % (s.kind, s.v)


def serde_err(msg=None): return Agg('serde::Error', 0, [msg])


# --------------------------------------------------------------------------- serializer
class TreeSer(HostObj):
    host_type = 'TreeSerializer'

    def call(s, ex, site, argv):
        me = site.method
        if me in ('serialize_map', 'serialize_struct'): return ok(MapSer())
        if me in ('serialize_seq', 'serialize_tuple'): return ok(SeqSer())
        if me in ('serialize_i64', 'serialize_i32', 'serialize_i16', 'serialize_i8'): return ok(J('i64', argv[1]))
        if me in ('serialize_u64', 'serialize_u32', 'serialize_u16', 'serialize_u8'): return ok(J('u64', argv[1]))
        if me in ('serialize_f64', 'serialize_f32'):
            x = argv[1]
            if is_sym(x):
                if ex.branch(z3.Or(z3.fpIsNaN(x), z3.fpIsInf(x))): return ok(J('null'))
                return ok(J('f64', x))
            return ok(J('null') if (x != x or x in (float('inf'), float('-inf'))) else J('f64', x))
        if me == 'serialize_bool': return ok(J('bool', argv[1]))
        if me == 'serialize_str': return ok(J('str', list(items_of(ex, argv[1]))))
        if me == 'serialize_char':
            from .models_coll import encode_utf8
            return ok(J('str', encode_utf8(ex, argv[1])))
        if me in ('serialize_none', 'serialize_unit', 'serialize_unit_struct'): return ok(J('null'))
        if me == 'serialize_some': return ok(serialize_value(ex, argv[1], site_generic(site)))
        if me == 'collect_seq':
            from .models_iter import to_iter, materialize
            return ok(J('seq', [serialize_value(ex, x) for x in materialize(ex, to_iter(ex, argv[1]))]))
        if me == 'collect_map':
            from .models_iter import to_iter, materialize
            out = []
            for kv in materialize(ex, to_iter(ex, argv[1])):
                kv = deref(ex, kv); out.append((key_of(ex, kv.fields[0]), serialize_value(ex, kv.fields[1])))
            return ok(J('map', out))
        if me == 'collect_str':
            from .models_fmt import display_bytes
            return ok(J('str', display_bytes(ex, argv[1], site_generic(site))))
        raise Unsupported('Serializer::' + me)


class MapSer(HostObj):
    host_type = 'MapSerializer'

    def __init__(s): s.entries = []; s.pending = None

    def call(s, ex, site, argv):
        me = site.method
        if me in ('serialize_entry',):
            s.entries.append((key_of(ex, argv[1]), serialize_value(ex, argv[2]))); return ok(unit())
        if me == 'serialize_key': s.pending = key_of(ex, argv[1]); return ok(unit())
        if me == 'serialize_value': s.entries.append((s.pending, serialize_value(ex, argv[1]))); return ok(unit())
        if me == 'serialize_field': s.entries.append((key_of(ex, argv[1]), serialize_value(ex, argv[2]))); return ok(unit())
        if me == 'end': return ok(J('map', s.entries))
        raise Unsupported('SerializeMap::' + me)


class SeqSer(HostObj):
    host_type = 'SeqSerializer'

    def __init__(s): s.items = []

    def call(s, ex, site, argv):
        if site.method == 'serialize_element': s.items.append(serialize_value(ex, argv[1])); return ok(unit())
        if site.method == 'end': return ok(J('seq', s.items))
        raise Unsupported('SerializeSeq::' + site.method)


def key_of(ex, k):
    k = deref(ex, k)
    if isinstance(k, Agg) and k.ty == 'Cow': k = deref(ex, k.fields[0])
    if isinstance(k, (VecV, SliceRef)): return list(items_of(ex, k))
    raise Unsupported('JSON object key of %r' % (k,))


def serialize_value(ex, v, ty=''):
    """<T as Serialize>::serialize(&v, TreeSer) for whatever T the runtime value has"""
    v0 = v
    v = deref(ex, v)
    if isinstance(v, Agg) and v.ty == 'Cow': v = deref(ex, v.fields[0])
    if isinstance(v, J): return v
    if isinstance(v, (VecV, SliceRef)):
        kind = v.kind
        if kind in ('string', 'str'): return J('str', list(items_of(ex, v)))
        return J('seq', [serialize_value(ex, x) for x in items_of(ex, v)])
    if isinstance(v, bool) or (is_sym(v) and z3.is_bool(v)): return J('bool', v)
    if isinstance(v, float) or (is_sym(v) and z3.is_fp(v)):
        return TreeSer().call(ex, _site('serialize_f64'), [None, v]).fields[0]
    if isinstance(v, int) or is_sym(v): return J('i64', v)
    if isinstance(v, Agg):
        if v.ty == 'Option':
            return J('null') if v.variant == 0 else serialize_value(ex, v.fields[0])
        if v.ty in ('BTreeMap', 'HashMap'):
            return J('map', [(key_of(ex, kv.fields[0]), serialize_value(ex, kv.fields[1])) for kv in v.fields[0].items])
        if v.ty == UNIT_TY and not v.fields: return J('null')
        if v.ty == 'fmt::Arguments':
            # impl Serialize for fmt::Arguments: collect_str
            from .models_fmt import render_args
            return J('str', render_args(ex, v))
        if v.ty == 'DelayedFormat':
            from .models_fmt import display_bytes
            return J('str', display_bytes(ex, v, 'DelayedFormat'))
        if ex.prog.typedef(v.ty) is not None:
            b = ex.prog.find_method(v.ty, 'Serialize', 'serialize')
            if b is None: raise Unsupported('no Serialize for ' + v.ty)
            r = ex.call_body(b, [Ptr(Cell(v)), TreeSer()])
            if r.variant == 1: raise SerFailed(r.fields[0])
            return r.fields[0]
    raise Unsupported('Serialize of %r' % (v,))


class SerFailed(Exception):
    def __init__(s, e): s.e = e


class _S:
    def __init__(s, m): s.method = m; s.generics = []; s.key = m


def _site(m): return _S(m)


@model(rx(r'^<.* as Serialize>::serialize$'))
def m_serialize(ex, site, a):
    ser = deref(ex, a[1])
    try:
        node = serialize_value(ex, a[0])
    except SerFailed as f:
        return err(f.e)
    return ok(node)


@model(rx(r'^<.* as (Serializer|SerializeMap|SerializeSeq|SerializeStruct)>::\w+$'))
def m_ser_dispatch(ex, site, a):
    return deref(ex, a[0]).call(ex, site, a)


@model(rx(r'^<.* as (ser::|de::)?Error>::custom$'), 'Error::custom')
def m_error_custom(ex, site, a):
    try:
        from .models_fmt import display_bytes
        msg = display_bytes(ex, a[0], site_generic(site))
    except Exception:
        msg = None
    return serde_err(msg)


@model('display:serde::Error')
def d_serde_error(ex, v, opts):
    return list(v.fields[0]) if v.fields[0] else [ord(c) for c in '<serde error>']


# --------------------------------------------------------------------------- deserializer
class TreeDe(HostObj):
    host_type = 'TreeDeserializer'

    def __init__(s, node, order=None): s.node = node; s.order = order

    def call(s, ex, site, argv):
        me = site.method
        if not me.startswith('deserialize_'): raise Unsupported('Deserializer::' + me)
        return visit(ex, argv[1], s.node)


def visitor_body(ex, vis, method):
    v = deref(ex, vis)
    if not isinstance(v, Agg): raise Unsupported('visitor %r' % (v,))
    b = ex.prog.find_method(v.ty, 'Visitor', method)
    if b is None:
        raise Unsupported('visitor %s has no %s' % (v.ty, method))
    return b


def visit(ex, vis, node):
    k = node.kind
    if k == 'null': return ex.call_body(visitor_body(ex, vis, 'visit_unit'), [vis])
    if k == 'bool': return ex.call_body(visitor_body(ex, vis, 'visit_bool'), [vis, node.v])
    if k in ('i64', 'u64'):
        x = node.v
        if k == 'u64': return ex.call_body(visitor_body(ex, vis, 'visit_u64'), [vis, x])
        neg = ex.branch(x < 0) if is_sym(x) else x < 0
        if neg: return ex.call_body(visitor_body(ex, vis, 'visit_i64'), [vis, x])
        return ex.call_body(visitor_body(ex, vis, 'visit_u64'), [vis, x])
    if k == 'f64': return ex.call_body(visitor_body(ex, vis, 'visit_f64'), [vis, node.v])
    if k == 'str':
        from .models import str_ref
        return ex.call_body(visitor_body(ex, vis, 'visit_str'), [vis, str_ref(node.v)])
    if k == 'seq': return ex.call_body(visitor_body(ex, vis, 'visit_seq'), [vis, SeqAcc(node.v)])
    if k == 'map': return ex.call_body(visitor_body(ex, vis, 'visit_map'), [vis, MapAcc(node.v)])
    raise Unsupported('node ' + k)


def deserialize_as(ex, node, ty):
    """<T as Deserialize>::deserialize(TreeDe(node))"""
    t = strip_lifetimes(ty).strip()
    s = short_type(t)
    if s == 'String':
        if node.kind != 'str': return err(serde_err(None))
        return ok(string_of(node.v))
    tyc = ex.prog.canon_type(strip_generics(t))
    if tyc == 'HVal' or ex.prog.typedef(tyc) is None:
        tyc2 = ex.prog.aliases.get(tyc.split('::')[-1])
        if tyc2: tyc = ex.prog.canon_type(tyc2)
    b = ex.prog.find_method(tyc, 'Deserialize', 'deserialize')
    if b is None: raise Unsupported('Deserialize for ' + ty)
    return ex.call_body(b, [TreeDe(node)])


class SeqAcc(HostObj):
    host_type = 'SeqAccess'

    def __init__(s, items): s.items = items; s.i = 0

    def call(s, ex, site, argv):
        if site.method in ('next_element', 'next_element_seed'):
            if s.i >= len(s.items): return ok(none())
            n = s.items[s.i]; s.i += 1
            r = deserialize_as(ex, n, site_generic(site))
            return ok(some(r.fields[0])) if r.variant == 0 else r
        if site.method == 'size_hint': return none()
        raise Unsupported('SeqAccess::' + site.method)


class MapAcc(HostObj):
    host_type = 'MapAccess'

    def __init__(s, entries): s.entries = entries; s.i = 0

    def call(s, ex, site, argv):
        me = site.method
        if me == 'next_entry':
            if s.i >= len(s.entries): return ok(none())
            k, n = s.entries[s.i]; s.i += 1
            kt = site.generics[0] if site.generics else 'String'
            parts = split_top(kt) if ',' in kt else [kt]
            vt = parts[1] if len(parts) > 1 else (site.generics[1] if len(site.generics) > 1 else 'Value')
            r = deserialize_as(ex, n, vt)
            if r.variant == 1: return r
            return ok(some(tup(string_of(k), r.fields[0])))
        if me == 'next_key':
            if s.i >= len(s.entries): return ok(none())
            return ok(some(string_of(s.entries[s.i][0])))
        if me == 'next_value':
            k, n = s.entries[s.i]; s.i += 1
            return deserialize_as(ex, n, site_generic(site))
        if me == 'size_hint': return none()
        raise Unsupported('MapAccess::' + me)


@model(rx(r'^<.* as (Deserializer|SeqAccess|MapAccess)>::\w+$'))
def m_de_dispatch(ex, site, a):
    return deref(ex, a[0]).call(ex, site, a)


@model(rx(r'^<.* as Deserialize>::deserialize$'))
def m_deserialize(ex, site, a):
    d = deref(ex, a[0])
    if isinstance(d, TreeDe): return deserialize_as(ex, d.node, site.self_ty)
    raise Unsupported('Deserialize::deserialize on %r' % (d,))
