"""Static callee census: from entry bodies, which call sites resolve to crate bodies, models, or nothing.
usage: python3-vt -m mirsym.census <name-substring> [...]
"""
import sys, re, collections
from . import load
from .engine import Exec, CALL, Compiler
from .values import Unsupported


def census(ex, entries, verbose=True):
    prog = ex.prog
    seen = set(); work = list(entries); missing = collections.Counter(); dyn = collections.Counter(); bad = collections.Counter()
    models = collections.Counter()
    while work:
        b = work.pop()
        if id(b) in seen: continue
        seen.add(id(b))
        for bbn, raw in b.blocks.items():
            for st in raw:
                try:
                    c = ex.comp.stmt(b, st)
                except Unsupported as u:
                    bad[str(u)[:100]] += 1; continue
                if c[0] != CALL: continue
                site = c[2]
                if isinstance(site, tuple): continue
                try:
                    r = ex.resolve_site(site)
                except Exception as e:
                    bad['resolve %s: %s' % (site.raw[:60], e)] += 1; continue
                if r[0] in ('body', 'body_deref'): work.append(r[1])
                elif r[0] == 'dyn': dyn[site.key] += 1
                elif r[0] == 'model': models[site.key] += 1
                else: missing[site.raw[:150]] += 1
        # closures defined in this body
        for span, cb in prog.closures.items():
            if b.file and span.startswith(b.file) and id(cb) not in seen:
                # only closures lexically inside: cheap check by name prefix
                if cb.name.startswith(b.name.split('::{closure')[0]):
                    work.append(cb)
    return seen, missing, dyn, models, bad


if __name__ == '__main__':
    prog = load.program()
    ex = Exec(prog)
    try:
        from . import models
        models.install(ex)
    except ImportError:
        pass
    entries = []
    for pat in sys.argv[1:]:
        for b in prog.bodies:
            if pat in b.name: entries.append(b)
    print('entries:', [b.name for b in entries][:20])
    seen, missing, dyn, mods, bad = census(ex, entries)
    print('bodies reached', len(seen))
    print('--- missing (%d)' % len(missing))
    for k, n in sorted(missing.items()): print('%4d %s' % (n, k))
    print('--- dynamic (%d)' % len(dyn))
    for k, n in sorted(dyn.items()): print('%4d %s' % (n, k))
    print('--- compile problems')
    for k, n in bad.items(): print('%4d %s' % (n, k))
