"""Builders for filter AST values (layouts follow src/haystack/filter/nodes.rs, path.rs)."""
from .values import *
from .models import some, none, string_of
from .hv import HV


class HF:
    def __init__(s, ex):
        s.ex = ex; s.prog = ex.prog; s.h = HV(ex)
        t = lambda n, m: [td.full for td in s.prog.src.types.get(n, []) if m in td.module][0]
        s.T = {n: t(n, 'filter::nodes') for n in ('Or', 'And', 'Term', 'CmpOp', 'Cmp', 'Missing', 'Parens', 'Has', 'IsA', 'WildcardEq', 'Relation')}
        s.T['Path'] = t('Path', 'filter::path'); s.T['Id'] = t('Id', 'zinc::decode::id'); s.T['Filter'] = t('Filter', 'haystack::filter')

    def id(s, items): return Agg(s.T['Id'], 0, [string_of(list(items))])
    def path(s, segs): return Agg(s.T['Path'], 0, [VecV([s.id(x) for x in segs], 'vec')])
    def term(s, variant, payload): return Agg(s.T['Term'], s.prog.variant_index(s.T['Term'], variant), [payload])
    def has(s, segs): return s.term('Has', Agg(s.T['Has'], 0, [s.path(segs)]))
    def missing(s, segs): return s.term('Missing', Agg(s.T['Missing'], 0, [s.path(segs)]))
    def isa(s, sym): return s.term('IsA', Agg(s.T['IsA'], 0, [Agg(s.h.ty('Symbol'), 0, [string_of(list(sym))])]))
    def weq(s, segs, ref, dis=None): return s.term('WildcardEq', Agg(s.T['WildcardEq'], 0, [s.path(segs), s.h.ref_payload(ref, dis)]))

    def rel(s, rel, term=None, ref=None):
        S = lambda x: Agg(s.h.ty('Symbol'), 0, [string_of(list(x))])
        return s.term('Relation', Agg(s.T['Relation'], 0, [S(rel), none() if term is None else some(S(term)), none() if ref is None else some(s.h.ref_payload(ref))]))

    def cmp(s, segs, op, value):
        return s.term('Cmp', Agg(s.T['Cmp'], 0, [s.path(segs), Agg(s.T['CmpOp'], op, []), value]))

    def and_(s, terms): return Agg(s.T['And'], 0, [VecV(list(terms), 'vec')])
    def or_(s, ands): return Agg(s.T['Or'], 0, [VecV(list(ands), 'vec')])
    def parens(s, or_): return s.term('Parens', Agg(s.T['Parens'], 0, [or_]))
    def filter(s, or_): return Agg(s.T['Filter'], 0, [or_])
