"""Environment models needed by the C API layer (src/c_api): thread-local slot + RefCell, raw pointer helpers,
serde_json's text entry points (text layer of serde_json = trusted model, rendered / parsed on concrete data),
Display of the std error types that end up in LAST_ERROR."""
import json, re
import z3
from .values import *
from .models import rx, some, none, ok, err, deref, items_of, string_of, str_ref, conc_bytes, unit
from .engine import HostObj

REG = []


def model(*keys):
    def deco(fn):
        for k in keys: REG.append((k, fn))
        return fn
    return deco


# --------------------------------------------------------------------------- thread_local! / RefCell
def tls_cell(ex, key):
    t = ex.side.setdefault('tls', {})
    if key not in t:
        # LAST_ERROR: RefCell::new(None)
        t[key] = Cell(Agg('RefCell', 0, [none()]))
    return t[key]


@model('LocalKey::new')
def m_localkey_new(ex, site, a): return Agg('LocalKey', 0, [])


@model('LocalKey::with')
def m_localkey_with(ex, site, a):
    c = tls_cell(ex, site.generics[0] if site.generics else '?')
    return ex.call_value(a[1], [Ptr(c)])


@model('RefCell::new', 'Cell::new')
def m_refcell_new(ex, site, a): return Agg('RefCell', 0, [a[0]])


@model('RefCell::borrow_mut', 'RefCell::borrow')
def m_refcell_borrow(ex, site, a):
    p = a[0]
    while isinstance(ex.load(p), Ptr): p = ex.load(p)
    rc = ex.load(p)
    flag = getattr(rc, 'borrowed', 0)
    if site.method == 'borrow_mut' and flag: raise Panic('borrow', 'already borrowed: BorrowMutError', ex.where())
    return Agg('RefMut', 0, [Ptr(p.cell, p.path + (0,))])


@model('<RefMut as DerefMut>::deref_mut', '<RefMut as Deref>::deref', '<Ref as Deref>::deref')
def m_refmut_deref(ex, site, a):
    v = deref(ex, a[0])
    if v.ty == 'dashmap::Ref': return v.fields[1]       # the guard of a DashMap entry derefs to the value
    return v.fields[0]


# --------------------------------------------------------------------------- raw pointers
@model(rx(r'^\*(const|mut) \*(const|mut) \w+::(as_ref|as_mut)$'))
def m_pp_as_ref(ex, site, a):
    p = a[0]
    if p is NULL or isinstance(p, NullPtr): return none()
    if isinstance(p, Ptr): ex.check_live(p)
    return some(p)


@model(rx(r'^\*(const|mut) \*(const|mut) \w+::is_null$'), rx(r'^\*(const|mut) [\w:]+::is_null$'))
def m_pp_is_null(ex, site, a):
    return a[0] is NULL or isinstance(a[0], NullPtr)


@model('null', 'null_mut')
def m_null(ex, site, a): return NULL


# --------------------------------------------------------------------------- serde_json text entry points
def _concrete_tree(ex, n):
    """J tree -> python data, fixing symbolic leaves to the path model's value"""
    from .models_serde import J
    k = n.kind
    if k == 'null': return None
    if k == 'bool': return bool(ex.concretize(z3.If(n.v, z3.BitVecVal(1, 8), z3.BitVecVal(0, 8)))) if is_sym(n.v) else bool(n.v)
    if k in ('i64', 'u64'):
        v = ex.concretize(n.v) if is_sym(n.v) else n.v
        if k == 'i64' and v >= 1 << 63: v -= 1 << 64
        return ('int', v)
    if k == 'f64':
        v = n.v
        if is_sym(v):
            prov = ex.float_defs.get(v.get_id())
            if prov is None: raise Unsupported('symbolic float in JSON text')
            t = ('-' if prov.neg else '') + bytes(ex.concretize(d) for d in prov.ip).decode() + ('.' + bytes(ex.concretize(d) for d in prov.fp).decode() if prov.fp else '')
            v = float(t)
        return ('f64', v)
    if k == 'str': return bytes(ex.concretize(b) if is_sym(b) else b for b in n.v).decode('utf-8')
    if k == 'seq': return [_concrete_tree(ex, x) for x in n.v]
    if k == 'map': return {'$map': [(bytes(ex.concretize(b) if is_sym(b) else b for b in kk).decode('utf-8'), _concrete_tree(ex, vv)) for kk, vv in n.v]}
    raise Unsupported('tree node ' + k)


def _ryu(x):
    """shortest round-trip text the way serde_json (ryu) prints a finite f64"""
    r = repr(float(x))
    if 'e' in r or 'E' in r:
        m, e = r.lower().split('e'); e = int(e)
        return '%se%d' % (m, e)
    return r


def render_json(t):
    if t is None: return 'null'
    if t is True: return 'true'
    if t is False: return 'false'
    if isinstance(t, tuple): return str(t[1]) if t[0] == 'int' else _ryu(t[1])
    if isinstance(t, str):
        out = ['"']
        for ch in t:
            o = ord(ch)
            if ch == '"': out.append('\\"')
            elif ch == '\\': out.append('\\\\')
            elif o == 8: out.append('\\b')
            elif o == 12: out.append('\\f')
            elif o == 10: out.append('\\n')
            elif o == 13: out.append('\\r')
            elif o == 9: out.append('\\t')
            elif o < 0x20: out.append('\\u%04x' % o)
            else: out.append(ch)
        out.append('"'); return ''.join(out)
    if isinstance(t, list): return '[' + ','.join(render_json(x) for x in t) + ']'
    if isinstance(t, dict): return '{' + ','.join(render_json(k) + ':' + render_json(v) for k, v in t['$map']) + '}'
    raise Unsupported('render %r' % (t,))


@model('serde_json::to_string')
def m_json_to_string(ex, site, a):
    from .models_serde import serialize_value, SerFailed
    try:
        tree = serialize_value(ex, a[0])
    except SerFailed as f:
        return err(f.e)
    return ok(string_of(list(render_json(_concrete_tree(ex, tree)).encode('utf-8'))))


def _to_tree(x):
    from .models_serde import J
    if x is None: return J('null')
    if isinstance(x, bool): return J('bool', x)
    if isinstance(x, int): return J('u64', x) if x >= 0 else J('i64', x & ((1 << 64) - 1))
    if isinstance(x, float): return J('f64', x)
    if isinstance(x, str): return J('str', list(x.encode('utf-8')))
    if isinstance(x, list): return J('seq', [_to_tree(y) for y in x])
    if isinstance(x, _Pairs): return J('map', [(list(k.encode('utf-8')), _to_tree(v)) for k, v in x.items])
    raise Unsupported('json %r' % (x,))


class _Pairs:
    def __init__(s, items): s.items = items


def _reject(s): raise ValueError('serde_json has no literal ' + s)


@model('serde_json::from_str')
def m_json_from_str(ex, site, a):
    from .models_serde import deserialize_as, serde_err
    text = conc_bytes(items_of(ex, a[0]))
    if text is None: raise Unsupported('serde_json::from_str on symbolic text')
    try:
        data = json.loads(text.decode('utf-8'), object_pairs_hook=_Pairs, parse_constant=_reject)
    except (ValueError, UnicodeDecodeError):
        return err(serde_err(None))
    ex.side['json_text_parsed'] = True
    return deserialize_as(ex, _to_tree(data), site.generics[0] if site.generics else 'Value')


# --------------------------------------------------------------------------- Display of std errors kept in LAST_ERROR
@model('display:NulError')
def d_nul_error(ex, v, opts):
    i = v.fields[0]
    if is_sym(i): i = ex.concretize(i)
    return list(b'nul byte found in provided data at position: %d' % i)


@model('display:Utf8Error')
def d_utf8_error(ex, v, opts):
    raise_lossy()


@model('display:serde::Error')
def d_serde_error(ex, v, opts):
    raise_lossy()


def raise_lossy():
    from .models_fmt import Lossy
    raise Lossy()
