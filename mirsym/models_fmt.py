"""core::fmt / std::io::Write models.  Templates are decoded from the real bytes rustc emits
(layout: rust-src core/src/fmt/mod.rs, `fmt::Arguments`)."""
import re
import z3
from .values import *
from .models import (rx, some, none, ok, err, deref, items_of, string_of, str_ref, pystr, zand, zor, znot, eq_scalar, site_generic,
                     conc_bytes, b2z, in_range)
from .engine import HostObj
from .program import short_type, strip_lifetimes, strip_generics

REG = []


def model(*keys):
    def deco(fn):
        for k in keys: REG.append((k, fn))
        return fn
    return deco


class FormatterV(HostObj):
    host_type = 'Formatter'

    def __init__(s, sink, opts=None):
        s.sink = sink; s.opts = opts or {}


class Lossy(Exception):
    pass


class FmtErr(Exception):
    """a crate Display/LowerHex impl returned Err(fmt::Error)"""
    pass


FMT_PANIC_TO_STRING = 'a Display implementation returned an error unexpectedly'
FMT_PANIC_FORMAT = 'a formatting trait implementation returned an error when the underlying stream did not'


DBG = [ord(c) for c in '<debug>']


def parse_template(tpl):
    """-> list of ('lit', bytes) | ('arg', index or None, opts)"""
    out = []; i = 0
    while True:
        n = tpl[i]; i += 1
        if n == 0: break
        if n < 0x80:
            out.append(('lit', tpl[i:i + n])); i += n
        elif n == 0x80:
            ln = tpl[i] | (tpl[i + 1] << 8); i += 2
            out.append(('lit', tpl[i:i + ln])); i += ln
        else:
            opts = {}
            idx = None
            if n & 1: opts['flags'] = int.from_bytes(bytes(tpl[i:i + 4]), 'little'); i += 4
            if n & 2: opts['width'] = tpl[i] | (tpl[i + 1] << 8); i += 2
            if n & 4: opts['precision'] = tpl[i] | (tpl[i + 1] << 8); i += 2
            if n & 8: idx = tpl[i] | (tpl[i + 1] << 8); i += 2
            if n & 16: opts['width_arg'] = True
            if n & 32: opts['precision_arg'] = True
            out.append(('arg', idx, opts))
    return out


def render_args(ex, args, lossy=False):
    args = deref(ex, args)
    tpl = args.fields[0]; argv = args.fields[1]
    if tpl is None:   # Arguments::from_str
        return list(argv)
    out = []; nxt = 0
    for part in parse_template(tpl):
        if part[0] == 'lit':
            out += list(part[1]); continue
        idx = part[1] if part[1] is not None else nxt
        nxt = idx + 1
        opts = dict(part[2])
        if opts.get('width_arg'):
            opts['width'] = deref(ex, argv[opts['width']].fields[2])
        if opts.get('precision_arg'):
            opts['precision'] = deref(ex, argv[opts['precision']].fields[2])
        a = argv[idx]
        kind, ty, ref = a.fields
        if kind == 'debug':
            if not lossy: raise Lossy()
            out += DBG; continue
        try:
            out += display_bytes(ex, ref, ty, opts, kind)
        except Lossy:
            if not lossy: raise
            out += DBG
    return out


def pad(bs, opts, numeric=False):
    w = opts.get('width')
    if not w or len(bs) >= w: return bs
    flags = opts.get('flags', 0x20 | (3 << 29))
    fill = flags & 0x1FFFFF
    zero = bool(flags & (1 << 24))
    align = (flags >> 29) & 3
    n = w - len(bs)
    if zero and numeric:
        if bs and not is_sym(bs[0]) and bs[0] in (43, 45): return [bs[0]] + [48] * n + bs[1:]
        return [48] * n + bs
    f = list(chr(fill).encode('utf-8'))
    if align == 3: align = 1 if numeric else 0
    if align == 0: return bs + f * n
    if align == 1: return f * n + bs
    return f * (n // 2) + bs + f * (n - n // 2)


def hex_digits(ex, v, bits, upper=False):
    if not is_sym(v):
        s = ('%X' if upper else '%x') % (v & ((1 << bits) - 1)); return [ord(c) for c in s]
    # fork on the digit count
    nd = bits // 4
    conds = []
    for k in range(1, nd + 1):
        lo = 0 if k == 1 else (1 << (4 * (k - 1))); hi = (1 << (4 * k)) - 1
        conds.append(z3.And(z3.UGE(v, lo), z3.ULE(v, hi)))
    k = ex.choose(conds) + 1
    out = []
    a = 55 if upper else 87
    for j in range(k - 1, -1, -1):
        nib = z3.Extract(7, 0, z3.ZeroExt(8, z3.Extract(4 * j + 3, 4 * j, v))) if bits >= 8 else None
        nib = z3.ZeroExt(4, z3.Extract(4 * j + 3, 4 * j, v))
        out.append(z3.simplify(z3.If(z3.ULT(nib, 10), nib + 48, nib + a)))
    return out


def dec_digits(ex, v, bits, signed):
    if not is_sym(v):
        return [ord(c) for c in str(v)]
    neg = False
    if signed:
        if ex.branch(v < 0):
            neg = True; v = -v
    maxd = len(str((1 << bits) - 1))
    conds = []
    for k in range(1, maxd + 1):
        lo = 0 if k == 1 else 10 ** (k - 1); hi = min(10 ** k - 1, (1 << bits) - 1)
        conds.append(z3.And(z3.UGE(v, lo), z3.ULE(v, hi)))
    k = ex.choose(conds) + 1
    out = []
    for j in range(k - 1, -1, -1):
        d = z3.URem(z3.UDiv(v, z3.BitVecVal(10 ** j, bits)), z3.BitVecVal(10, bits))
        out.append(z3.simplify(z3.Extract(7, 0, d) + 48))
    return ([45] if neg else []) + out


def display_bytes(ex, ref, ty='', opts=None, kind='display'):
    opts = opts or {}
    v = deref(ex, ref)
    t = strip_lifetimes(ty or '').strip()
    while t.startswith('&'): t = t[1:].replace('mut ', '', 1).strip()
    if isinstance(v, Agg) and v.ty == 'Cow': v = deref(ex, v.fields[0])
    if isinstance(v, (VecV, SliceRef)):
        if isinstance(v, VecV) and v.kind not in ('string', 'str'): raise Lossy()
        bs = list(items_of(ex, v))
        if 'precision' in opts: bs = bs[:opts['precision']]
        return pad(bs, opts)
    if isinstance(v, bool) or (is_sym(v) and z3.is_bool(v)):
        r = ex.branch(v)
        return pad([ord(c) for c in ('true' if r else 'false')], opts)
    if isinstance(v, float) or (is_sym(v) and z3.is_fp(v)):
        from .models_num import f64_display
        return pad(f64_display(ex, v, opts), opts, True)
    if isinstance(v, int) or is_sym(v):
        st = short_type(t) if t else ''
        if st == 'char' and kind == 'display':
            from .models_coll import encode_utf8
            return pad(encode_utf8(ex, v), opts)
        bits, sg = INT_TY.get(st, (v.size() if is_sym(v) else 64, False))
        if kind == 'lower_hex': return pad(hex_digits(ex, v, bits), opts, True)
        if kind == 'upper_hex': return pad(hex_digits(ex, v, bits, True), opts, True)
        return pad(dec_digits(ex, v, bits, sg), opts, True)
    if isinstance(v, Agg):
        if v.ty == 'fmt::Arguments': return render_args(ex, v)
        td = ex.prog.typedef(v.ty)
        if td is not None:
            tr = {'display': 'Display', 'lower_hex': 'LowerHex'}.get(kind, 'Display')
            b = ex.prog.find_method(v.ty, tr, 'fmt')
            if b is not None:
                f = FormatterV([], opts)
                r = ex.call_body(b, [Ptr(Cell(v)), Ptr(Cell(f))])
                if isinstance(r, Agg) and r.variant == 1: raise FmtErr()
                return f.sink
        from .models import values_eq
        m = ex.find_model('display:' + v.ty) or ex.find_model('display:' + v.ty.split('::')[-1])
        if m is not None: return pad(m(ex, v, opts), opts)
    raise Lossy()


@model('Argument::new_display', 'Argument::new_debug', 'Argument::new_lower_hex', 'Argument::new_upper_hex', 'Argument::new_lower_exp',
       'Argument::from_usize')
def m_argument_new(ex, site, a):
    kind = site.method[4:] if site.method.startswith('new_') else 'usize'
    return Agg('fmt::Argument', 0, [kind, site_generic(site), a[0]])


@model('Arguments::new', 'Arguments::new_v1', 'Arguments::new_const')
def m_arguments_new(ex, site, a):
    tpl = items_of(ex, a[0])
    argv = items_of(ex, a[1]) if len(a) > 1 else []
    return Agg('fmt::Arguments', 0, [list(tpl), list(argv)])


@model('Arguments::from_str', 'Arguments::from_str_nonconst')
def m_arguments_from_str(ex, site, a):
    return Agg('fmt::Arguments', 0, [None, list(items_of(ex, a[0]))])


@model('Arguments::as_str')
def m_arguments_as_str(ex, site, a):
    v = deref(ex, a[0])
    return some(str_ref(v.fields[1])) if v.fields[0] is None else none()


@model('fmt::format', 'fmt::format::format_inner')
def m_format(ex, site, a):
    try:
        return string_of(render_args(ex, a[0], lossy=True))
    except FmtErr:
        raise Panic('fmt', FMT_PANIC_FORMAT, ex.where())


def sink_of(ex, w):
    v = w
    while isinstance(v, Ptr):
        nv = ex.load(v)
        if isinstance(nv, (VecV, HostObj)): return nv
        v = nv
    return v


def write_bytes(ex, w, bs):
    s = sink_of(ex, w)
    if isinstance(s, VecV): s.items.extend(bs); return ok(unit())
    if isinstance(s, FormatterV): s.sink.extend(bs); return ok(unit())
    if isinstance(s, HostObj) and hasattr(s, 'write_bytes'): return s.write_bytes(ex, bs)
    raise Unsupported('write to %r' % (s,))


@model(rx(r'^<.* as (io::)?Write>::write_fmt$'), 'Formatter::write_fmt', 'fmt::write', 'Write::write_fmt')
def m_write_fmt(ex, site, a):
    try:
        bs = render_args(ex, a[1])
    except Lossy:
        raise Unsupported('formatting a value without a Display model into observable output')
    except FmtErr:
        sk = sink_of(ex, a[0])
        if isinstance(sk, FormatterV) or 'io::' not in site.raw: return err(unit())
        return err(io_error('Other', string_of(list(b'formatter error'))))
    return write_bytes(ex, a[0], bs)


@model(rx(r'^<.* as (io::)?Write>::(write_all|write_str)$'), 'Formatter::write_str', 'Formatter::pad', 'Write::write_all', 'Write::write_str')
def m_write_all(ex, site, a):
    bs = list(items_of(ex, a[1]))
    if site.method == 'pad':
        f = sink_of(ex, a[0]); bs = pad(bs, f.opts)
    return write_bytes(ex, a[0], bs)


@model(rx(r'^<.* as (io::)?Write>::write$'))
def m_write(ex, site, a):
    bs = list(items_of(ex, a[1])); write_bytes(ex, a[0], bs); return ok(len(bs))


@model(rx(r'^<.* as (io::)?Write>::write_char$'), 'Formatter::write_char')
def m_write_char(ex, site, a):
    from .models_coll import encode_utf8
    return write_bytes(ex, a[0], encode_utf8(ex, a[1]))


@model(rx(r'^<.* as (io::)?Write>::flush$'))
def m_flush(ex, site, a): return ok(unit())


@model('Formatter::alternate', 'Formatter::sign_plus', 'Formatter::sign_minus', 'Formatter::sign_aware_zero_pad')
def m_fmt_flag(ex, site, a):
    f = sink_of(ex, a[0]); flags = f.opts.get('flags', 0)
    bit = {'alternate': 23, 'sign_plus': 21, 'sign_minus': 22, 'sign_aware_zero_pad': 24}[site.method]
    return bool(flags & (1 << bit))


@model('Formatter::width', 'Formatter::precision')
def m_fmt_width(ex, site, a):
    f = sink_of(ex, a[0]); v = f.opts.get(site.method)
    return none() if v is None else some(v)


@model(rx(r'^Formatter::debug_\w+$'), rx(r'^Debug\w+::\w+$'), rx(r'^Formatter::debug_\w+_field\d_finish$'))
def m_debug_builder(ex, site, a):
    raise Lossy()


@model(rx(r'^<.* as Display>::fmt$'), rx(r'^<.* as LowerHex>::fmt$'))
def m_display_fmt(ex, site, a):
    f = sink_of(ex, a[1])
    kind = 'lower_hex' if site.trait == 'LowerHex' else 'display'
    try:
        bs = display_bytes(ex, a[0], site.self_ty, f.opts, kind)
    except Lossy:
        raise Unsupported('Display of %s' % site.self_ty)
    except FmtErr:
        return err(unit())
    f.sink.extend(bs); return ok(unit())


@model(rx(r'^<.* as Debug>::fmt$'))
def m_debug_fmt(ex, site, a):
    f = sink_of(ex, a[1]); f.sink.extend(DBG); return ok(unit())


# --------------------------------------------------------------------------- std::io errors
def io_error(kind, payload=None):
    return Agg('io::Error', 0, [Agg(kind, 0, []), payload])


@model('Error::new', 'io::Error::new', 'Error::other')
def m_io_error_new(ex, site, a):
    if site.method == 'other': return io_error('Other', a[0])
    return io_error(deref(ex, a[0]).ty, a[1])


@model('Error::kind')
def m_io_error_kind(ex, site, a):
    e = deref(ex, a[0]); return e.fields[0]


@model('<ErrorKind as PartialEq>::eq')
def m_errorkind_eq(ex, site, a):
    return deref(ex, a[0]).ty == deref(ex, a[1]).ty


@model('<Error as From>::from', '<io::Error as From>::from')
def m_io_error_from(ex, site, a):
    v = a[0]
    if isinstance(v, Agg) and v.ty == 'io::Error': return v
    if isinstance(v, Agg) and len(v.fields) == 0: return io_error(v.ty, None)   # From<ErrorKind>
    return io_error('Other', v)


def error_text(ex, e):
    e = deref(ex, e)
    if len(e.fields) < 2: raise Lossy()
    p = e.fields[1]
    if isinstance(p, (VecV, SliceRef)): return list(items_of(ex, p))
    return [ord(c) for c in '<io error %s>' % e.fields[0].ty]


@model('display:io::Error', 'display:Error')
def d_io_error(ex, v, opts): return error_text(ex, v)


@model('<Error as ToString>::to_string', '<io::Error as ToString>::to_string')
def m_io_error_to_string(ex, site, a):
    return string_of(error_text(ex, a[0]))


class Cursor(HostObj):
    """std::io::Cursor<&[u8]> / a harness reader: bytes delivered one read_exact at a time;
    `fail_at` = offset at which read_exact returns a non-EOF error (fault schedules)"""
    host_type = 'Reader'

    def __init__(s, data, fail_at=None):
        s.data = list(data); s.pos = 0; s.fail_at = fail_at; s.reads = 0; s.max_req = 0; s.kinds_seen = set(); s.methods = set()

    def call(s, ex, site, argv):
        me = site.method if site is not None else 'read_exact'
        s.methods.add(me)
        if me == 'read_exact':
            buf = deref(ex, argv[1])
            n = len(buf)
            s.reads += 1; s.max_req = max(s.max_req, n)
            if s.fail_at is not None and s.pos >= s.fail_at:
                return err(io_error('Other', None))
            if s.pos + n > len(s.data):
                s.pos = len(s.data)
                return err(io_error('UnexpectedEof', None))
            seg = s.data[s.pos:s.pos + n]; s.pos += n
            if isinstance(buf, SliceRef): buf.vec.items[buf.lo:buf.hi] = seg
            else: buf.items[:] = seg
            return ok(unit())
        if me == 'read':
            buf = deref(ex, argv[1]); n = min(len(buf), len(s.data) - s.pos)
            s.reads += 1; s.max_req = max(s.max_req, len(buf))
            seg = s.data[s.pos:s.pos + n]; s.pos += n
            buf.vec.items[buf.lo:buf.lo + n] = seg
            return ok(n)
        raise Unsupported('Reader::' + me)


@model('Cursor::new')
def m_cursor_new(ex, site, a):
    return Cursor(items_of(ex, a[0]))


@model('<Cursor as Read>::read_exact', '<Cursor as Read>::read')
def m_cursor_read(ex, site, a):
    return deref(ex, a[0]).call(ex, site, a)
