"""Environment models for std / core / alloc callees (part of every claim; listed in the evidence)."""
import re, math
import z3
from .values import *
from .engine import HostObj, F64, RNE, conc_value
from .program import strip_generics, strip_lifetimes, short_type, split_path, norm_args
from .mirparse import split_top

REG = []


def model(*keys):
    def deco(fn):
        for k in keys: REG.append((k, fn))
        return fn
    return deco


def rx(p):
    return re.compile(p)


def install(ex):
    for k, fn in REG: ex.register(k, fn)
    from . import models_coll, models_iter, models_fmt, models_num, models_hash  # noqa
    for mod in (models_coll, models_iter, models_fmt, models_num, models_hash):
        for k, fn in mod.REG: ex.register(k, fn)
    try:
        from . import models_chrono
        for k, fn in models_chrono.REG: ex.register(k, fn)
    except ImportError:
        pass
    try:
        from . import models_regex
        for k, fn in models_regex.REG: ex.register(k, fn)
    except ImportError:
        pass
    try:
        from . import models_serde
        for k, fn in models_serde.REG: ex.register(k, fn)
    except ImportError:
        pass
    try:
        from . import models_capi
        for k, fn in models_capi.REG: ex.register(k, fn)
    except ImportError:
        pass
    from . import models_extra
    for k, fn in models_extra.REG:
        if not isinstance(k, str) or ex.find_model(k) is None: ex.register(k, fn)


# --------------------------------------------------------------------------- helpers
def some(v): return Agg('Option', 1, [v])
def none(): return Agg('Option', 0, [])
def ok(v): return Agg('Result', 0, [v])
def err(v): return Agg('Result', 1, [v])
def ordering(i): return Agg('Ordering', i, [])   # 0 Less 1 Equal 2 Greater (variant index)


def deref(ex, v):
    while isinstance(v, Ptr): v = ex.load(v)
    return v


def cow_inner(ex, v):
    v = deref(ex, v)
    if isinstance(v, Agg) and v.ty == 'Cow': return deref(ex, v.fields[0])
    return v


def items_of(ex, v):
    """byte / element list of anything string- or slice-like"""
    v = cow_inner(ex, v)
    if isinstance(v, SliceRef): return v.items()
    if isinstance(v, VecV): return v.items
    if isinstance(v, Agg) and len(v.fields) == 1:      # newtype around a String (Str, Uri, Symbol, Id ...)
        return items_of(ex, v.fields[0])
    raise Unsupported('items_of %r' % (v,))


def string_of(items):
    return VecV(list(items), 'string')


def str_ref(items):
    return SliceRef(VecV(list(items), 'str'), 0, len(items), 'str')


def pystr(b):
    return string_of(list(b.encode('utf-8') if isinstance(b, str) else b))


def conc_bytes(items):
    if all(isinstance(i, int) for i in items): return bytes(items)
    return None


def b2z(x, bits=8):
    return x if is_sym(x) else z3.BitVecVal(x, bits)


def zbool(x):
    return x if is_sym(x) else z3.BoolVal(bool(x))


def zand(cs):
    cs = list(cs)
    if any(c is False for c in cs): return False
    cs = [c for c in cs if c is not True]
    if not cs: return True
    return z3.And(cs) if len(cs) > 1 else cs[0]


def zor(cs):
    cs = list(cs)
    if any(c is True for c in cs): return True
    cs = [c for c in cs if c is not False]
    if not cs: return False
    return z3.Or(cs) if len(cs) > 1 else cs[0]


def znot(c):
    return (not c) if isinstance(c, bool) else z3.Not(c)


def eq_scalar(a, b):
    if isinstance(a, Opaque) or isinstance(b, Opaque): raise Unsupported('comparison with an opaque value')
    if is_sym(a) or is_sym(b):
        if isinstance(a, bool): a = z3.BoolVal(a)
        if isinstance(b, bool): b = z3.BoolVal(b)
        if isinstance(a, float): a = z3.FPVal(a, F64)
        if isinstance(b, float): b = z3.FPVal(b, F64)
        if (is_sym(a) and z3.is_fp(a)) or (is_sym(b) and z3.is_fp(b)): return z3.fpEQ(a, b)
        return a == b
    return a == b


def eq_items(a, b):
    if len(a) != len(b): return False
    return zand(eq_scalar(x, y) for x, y in zip(a, b))


def in_range(x, lo, hi):
    if is_sym(x): return z3.And(z3.UGE(x, lo), z3.ULE(x, hi))
    return lo <= x <= hi


def cmp_items(ex, a, b, signed=False):
    """lexicographic comparison with forking -> -1/0/1"""
    n = min(len(a), len(b))
    for i in range(n):
        x, y = a[i], b[i]
        if not is_sym(x) and not is_sym(y):
            if x != y: return -1 if x < y else 1
            continue
        if ex.branch(eq_scalar(x, y)): continue
        x = b2z(x, y.size() if is_sym(y) else 8); y = b2z(y, x.size())
        return -1 if ex.branch(z3.ULT(x, y)) else 1
    return (len(a) > len(b)) - (len(a) < len(b))


def elem_ptr(vecobj, i, holder=None):
    """pointer to element i of a VecV (holder: the cell that owns it, or a fresh one)"""
    c = holder if holder is not None else Cell(vecobj)
    return Ptr(c, (('i', i),))


def vec_cell(ex, p):
    """&Vec<T> / &mut Vec<T> / &String -> (cell, path, VecV)"""
    if isinstance(p, Ptr):
        v = ex.load(p)
        if isinstance(v, Ptr): return vec_cell(ex, v)
        return p.cell, p.path, v
    raise Unsupported('vec_cell %r' % (p,))


def site_generic(site, i=0):
    try: return site.generics[i]
    except (IndexError, TypeError): return ''


# --------------------------------------------------------------------------- Try / Option / Result
@model('<Result as Try>::branch')
def m_try_branch_res(ex, site, a):
    r = a[0]
    if r.variant == 0: return Agg('ControlFlow', 0, [r.fields[0]])
    return Agg('ControlFlow', 1, [err(r.fields[0])])


@model('<Option as Try>::branch')
def m_try_branch_opt(ex, site, a):
    r = a[0]
    if r.variant == 1: return Agg('ControlFlow', 0, [r.fields[0]])
    return Agg('ControlFlow', 1, [none()])


@model('<Result as FromResidual>::from_residual')
def m_from_residual(ex, site, a):
    e = a[0].fields[0]
    # `?` converts the error with From; crate-local From impls are looked up by the target error type
    tgt = site.self_ty or ''
    m = re.match(r'^(?:std::result::)?Result<(.*)>$', tgt)
    if m:
        parts = split_top(m.group(1))
        if len(parts) == 2:
            et = parts[1].strip()
            e = convert_into(ex, e, et, None)
    return err(e)


@model('<Option as FromResidual>::from_residual')
def m_from_residual_opt(ex, site, a):
    return none()


def rt_name(ex, v):
    v0 = deref(ex, v)
    if isinstance(v0, Agg): return v0.ty
    if isinstance(v0, VecV): return 'String' if v0.kind == 'string' else 'Vec'
    if isinstance(v0, SliceRef): return 'str' if v0.kind == 'str' else '[T]'
    return None


def convert_into(ex, v, target_ty, src_ty):
    """From/Into with crate impls looked up by target type; identity when nothing matches"""
    prog = ex.prog
    tshort = strip_generics(strip_lifetimes(target_ty)).strip()
    vt = rt_name(ex, v)
    tyc0 = prog.canon_type(tshort) if re.match(r'^[\w:]+$', tshort) else tshort
    if vt is not None and vt == tyc0: return v
    if vt is not None and prog.typedef(tyc0) is None and vt.split('::')[-1] == tshort.split('::')[-1]: return v
    last = tshort.split('::')[-1]
    if last == 'String':
        return string_of(items_of(ex, v))
    if last in ('f64', 'i64', 'u64', 'usize', 'u8', 'u32', 'i32', 'bool', 'char'):
        return v
    tyc = prog.canon_type(tshort) if re.match(r'^[\w:]+$', tshort) else tshort
    lst = prog.impl_methods.get((tyc, 'From', 'from'))
    if lst:
        want = norm_args(src_ty) if src_ty else None
        cand = None
        if want is not None:
            for b, ta, _ in lst:
                if ta is not None and prog.norm(ta) == prog.norm(src_ty): cand = b
        if cand is None and len(lst) == 1: cand = lst[0][0]
        if cand is None:
            # choose by runtime type of the value
            for b, ta, _ in lst:
                if ta is None: continue
                t = strip_generics(strip_lifetimes(ta)).strip().lstrip('&').split('::')[-1]
                if vt is not None and (vt.split('::')[-1] == t or (vt == 'str' and t == 'str') or (vt == 'String' and t == 'String')):
                    cand = b
                elif vt is None and t in ('f64', 'bool', 'i64', 'u8', 'i32', 'u32', 'usize', 'u64'):
                    if (isinstance(v, float) or (is_sym(v) and z3.is_fp(v))) == (t == 'f64') and \
                       (isinstance(v, bool) or (is_sym(v) and z3.is_bool(v))) == (t == 'bool'):
                        cand = cand or b
        if cand is not None: return ex.call_body(cand, [v])
        raise Unsupported('no From impl for %s from %r' % (target_ty, src_ty or vt))
    if last == 'Error' and isinstance(v, Agg) and v.ty == 'io::Error': return v
    return v


@model(rx(r'^<.* as Into>::into$'))
def m_into(ex, site, a):
    return convert_into(ex, a[0], site.trait_args or '', site.self_ty)


@model(rx(r'^<.* as From>::from$'))
def m_from(ex, site, a):
    t = short_type(site.self_ty or '')
    if t == 'String': return string_of(items_of(ex, a[0]))
    if t in ('Vec',):
        return VecV(list(items_of(ex, a[0])), 'vec')
    if t == 'Box' : return a[0]
    if t == 'Error' or (site.self_ty or '').endswith('io::Error'):
        return a[0]
    if t == 'Cow':
        v = deref(ex, a[0])
        return Agg('Cow', 0 if isinstance(v, SliceRef) else 1, [v])
    if t in ('f64', 'i64', 'u64', 'u32', 'i32', 'usize', 'u16', 'u8', 'char'):
        return ex.cast(a[0], None, t, 'IntToFloat' if t == 'f64' and not isinstance(a[0], float) and not (is_sym(a[0]) and z3.is_fp(a[0])) else ('IntToInt' if t != 'f64' else 'FloatToFloat'))
    return convert_into(ex, a[0], site.self_ty, site.trait_args)


@model('Option::is_some')
def m_is_some(ex, site, a): return deref(ex, a[0]).variant == 1
@model('Option::is_none')
def m_is_none(ex, site, a): return deref(ex, a[0]).variant == 0
@model('Result::is_ok')
def m_is_ok(ex, site, a): return deref(ex, a[0]).variant == 0
@model('Result::is_err')
def m_is_err(ex, site, a): return deref(ex, a[0]).variant == 1


@model('Option::xor')
def m_opt_xor(ex, site, a):
    x, y = a[0], a[1]
    if x.variant == 1 and y.variant == 0: return x
    if x.variant == 0 and y.variant == 1: return y
    return none()


@model('Option::flatten')
def m_opt_flatten(ex, site, a): return a[0].fields[0] if a[0].variant == 1 else none()


@model('Option::inspect', 'Result::inspect', 'Result::inspect_err')
def m_inspect(ex, site, a):
    v = a[0]
    hit = (v.variant == 1) if v.ty == 'Option' else (v.variant == (1 if site.method == 'inspect_err' else 0))
    if hit: ex.call_value(a[1], [Ptr(Cell(v.fields[0]))])
    return v


@model('Result::and', 'Option::and')
def m_and(ex, site, a):
    okv = 1 if a[0].ty == 'Option' else 0
    return a[1] if a[0].variant == okv else a[0]


@model('Result::or')
def m_res_or(ex, site, a): return a[0] if a[0].variant == 0 else a[1]


@model('Option::as_ref', 'Option::as_mut', 'Result::as_ref', 'Result::as_mut')
def m_as_ref(ex, site, a):
    p = a[0]; o = ex.load(p)
    if isinstance(o, Ptr): p = o; o = ex.load(p)
    return Agg(o.ty, o.variant, [Ptr(p.cell, p.path + (0,))] if o.fields else [])


@model('Option::as_deref', 'Option::as_deref_mut')
def m_as_deref(ex, site, a):
    p = a[0]; o = ex.load(p)
    if o.variant == 0: return none()
    inner = o.fields[0]
    if isinstance(inner, VecV):
        return some(SliceRef(inner, 0, len(inner.items), 'str' if inner.kind == 'string' else 'slice'))
    return some(Ptr(p.cell, p.path + (0,)))


@model('Option::unwrap', 'Option::expect')
def m_opt_unwrap(ex, site, a):
    o = a[0]
    if o.variant == 0: raise Panic('unwrap', 'called `Option::%s()` on a `None` value' % site.method, ex.where())
    return o.fields[0]


@model('Result::unwrap', 'Result::expect')
def m_res_unwrap(ex, site, a):
    o = a[0]
    if o.variant == 1: raise Panic('unwrap', 'called `Result::%s()` on an `Err` value' % site.method, ex.where())
    return o.fields[0]


@model('Result::unwrap_err', 'Result::expect_err')
def m_res_unwrap_err(ex, site, a):
    o = a[0]
    if o.variant == 0: raise Panic('unwrap', 'called `Result::unwrap_err()` on an `Ok` value', ex.where())
    return o.fields[0]


@model('Option::unwrap_or', 'Result::unwrap_or')
def m_unwrap_or(ex, site, a):
    o = a[0]; good = 1 if o.ty == 'Option' else 0
    return o.fields[0] if o.variant == good else a[1]


@model('Option::unwrap_or_default', 'Result::unwrap_or_default')
def m_unwrap_or_default(ex, site, a):
    o = a[0]; good = 1 if o.ty == 'Option' else 0
    if o.variant == good: return o.fields[0]
    return default_of(ex, site_generic(site) or '')


@model('Option::unwrap_or_else', 'Result::unwrap_or_else')
def m_unwrap_or_else(ex, site, a):
    o = a[0]; good = 1 if o.ty == 'Option' else 0
    if o.variant == good: return o.fields[0]
    return ex.call_value(a[1], [] if o.ty == 'Option' else [o.fields[0]])


@model('Option::map')
def m_opt_map(ex, site, a):
    o = a[0]
    return some(ex.call_value(a[1], [o.fields[0]])) if o.variant == 1 else none()


@model('Option::map_or')
def m_opt_map_or(ex, site, a):
    o = a[0]
    return ex.call_value(a[2], [o.fields[0]]) if o.variant == 1 else a[1]


@model('Option::map_or_else')
def m_opt_map_or_else(ex, site, a):
    o = a[0]
    return ex.call_value(a[2], [o.fields[0]]) if o.variant == 1 else ex.call_value(a[1], [])


@model('Option::and_then')
def m_opt_and_then(ex, site, a):
    o = a[0]
    return ex.call_value(a[1], [o.fields[0]]) if o.variant == 1 else none()


@model('Option::or_else')
def m_opt_or_else(ex, site, a):
    o = a[0]
    return o if o.variant == 1 else ex.call_value(a[1], [])


@model('Option::or')
def m_opt_or(ex, site, a):
    return a[0] if a[0].variant == 1 else a[1]


@model('Option::and')
def m_opt_and(ex, site, a):
    return a[1] if a[0].variant == 1 else none()


@model('Option::filter')
def m_opt_filter(ex, site, a):
    o = a[0]
    if o.variant == 0: return o
    keep = ex.call_value(a[1], [Ptr(Cell(o), (0,))])
    return o if ex.branch(keep) else none()


@model('Option::ok_or')
def m_ok_or(ex, site, a):
    return ok(a[0].fields[0]) if a[0].variant == 1 else err(a[1])


@model('Option::ok_or_else')
def m_ok_or_else(ex, site, a):
    return ok(a[0].fields[0]) if a[0].variant == 1 else err(ex.call_value(a[1], []))


@model('Option::copied', 'Option::cloned')
def m_opt_copied(ex, site, a):
    o = a[0]
    if o.variant == 0: return none()
    return some(clone_value(ex, o.fields[0], deref_first=True))


@model('Option::take')
def m_opt_take(ex, site, a):
    o = ex.load(a[0]); ex.store(a[0], none()); return o


@model('Option::replace')
def m_opt_replace(ex, site, a):
    o = ex.load(a[0]); ex.store(a[0], some(a[1])); return o


@model('Option::insert', 'Option::get_or_insert')
def m_opt_insert(ex, site, a):
    o = ex.load(a[0])
    if site.method == 'insert' or o.variant == 0: ex.store(a[0], some(a[1]))
    return Ptr(a[0].cell, a[0].path + (0,))


@model('Option::get_or_insert_with')
def m_opt_goiw(ex, site, a):
    o = ex.load(a[0])
    if o.variant == 0: ex.store(a[0], some(ex.call_value(a[1], [])))
    return Ptr(a[0].cell, a[0].path + (0,))


@model('Option::is_some_and')
def m_is_some_and(ex, site, a):
    o = a[0]
    return ex.call_value(a[1], [o.fields[0]]) if o.variant == 1 else False


@model('Option::is_none_or')
def m_is_none_or(ex, site, a):
    o = a[0]
    return ex.call_value(a[1], [o.fields[0]]) if o.variant == 1 else True


@model('Option::ok_or_default')
def m_dummy(ex, site, a): raise Unsupported('Option::ok_or_default')


@model('Option::zip')
def m_opt_zip(ex, site, a):
    if a[0].variant == 1 and a[1].variant == 1: return some(tup(a[0].fields[0], a[1].fields[0]))
    return none()


@model('Option::unwrap_unchecked')
def m_opt_unwrap_unchecked(ex, site, a): return a[0].fields[0]


@model('Result::ok')
def m_res_ok(ex, site, a):
    return some(a[0].fields[0]) if a[0].variant == 0 else none()


@model('Result::err')
def m_res_err(ex, site, a):
    return some(a[0].fields[0]) if a[0].variant == 1 else none()


@model('Result::map')
def m_res_map(ex, site, a):
    o = a[0]
    return ok(ex.call_value(a[1], [o.fields[0]])) if o.variant == 0 else o


@model('Result::map_err')
def m_res_map_err(ex, site, a):
    o = a[0]
    return err(ex.call_value(a[1], [o.fields[0]])) if o.variant == 1 else o


@model('Result::map_or')
def m_res_map_or(ex, site, a):
    o = a[0]
    return ex.call_value(a[2], [o.fields[0]]) if o.variant == 0 else a[1]


@model('Result::map_or_else')
def m_res_map_or_else(ex, site, a):
    o = a[0]
    return ex.call_value(a[2], [o.fields[0]]) if o.variant == 0 else ex.call_value(a[1], [o.fields[0]])


@model('Result::and_then')
def m_res_and_then(ex, site, a):
    o = a[0]
    return ex.call_value(a[1], [o.fields[0]]) if o.variant == 0 else o


@model('Result::or_else')
def m_res_or_else(ex, site, a):
    o = a[0]
    return ex.call_value(a[1], [o.fields[0]]) if o.variant == 1 else o


@model('Result::is_ok_and')
def m_is_ok_and(ex, site, a):
    o = a[0]
    return ex.call_value(a[1], [o.fields[0]]) if o.variant == 0 else False


# --------------------------------------------------------------------------- Clone / Default / PartialEq / Ord for std containers
def clone_value(ex, v, deref_first=False):
    if deref_first and isinstance(v, Ptr): v = ex.load(v)
    if isinstance(v, SliceRef) or isinstance(v, Ptr): return v
    if isinstance(v, Agg):
        return Agg(v.ty, v.variant, [clone_value(ex, f) for f in v.fields])
    if isinstance(v, VecV):
        return VecV([clone_value(ex, i) for i in v.items], v.kind)
    return v


@model(rx(r'^<.* as Clone>::clone$'))
def m_clone(ex, site, a):
    return clone_value(ex, a[0], deref_first=True)


@model(rx(r'^<.* as ToOwned>::to_owned$'), 'str::to_owned', '[T]::to_vec', '[T]::to_owned')
def m_to_owned(ex, site, a):
    v = deref(ex, a[0])
    if isinstance(v, SliceRef):
        if v.kind == 'str': return string_of(v.items())
        return VecV([clone_value(ex, i) for i in v.items()], 'vec')
    return clone_value(ex, v)


def default_of(ex, ty):
    t = strip_lifetimes(ty).strip()
    s = short_type(t)
    if s in ('String',): return string_of([])
    if s in ('Vec',): return VecV([], 'vec')
    if s in ('BTreeMap', 'HashMap', 'HashSet', 'BTreeSet', 'DashMap'): return Agg(s, 0, [VecV([], 'vec')])
    if s == 'Option': return none()
    if s == 'bool': return False
    if s == 'f64': return 0.0
    if s in INT_TY: return 0
    if s == '()': return unit()
    if s == 'Box':
        m = re.match(r'^(?:std::boxed::|alloc::boxed::)?Box<(.*)>$', t)
        if m: return m_box_new(ex, None, [default_of(ex, m.group(1))])
    tyc = ex.prog.canon_type(strip_generics(t))
    b = ex.prog.find_method(tyc, 'Default', 'default')
    if b is not None: return ex.call_body(b, [])
    raise Unsupported('Default for ' + ty)


@model(rx(r'^<.* as Default>::default$'))
def m_default(ex, site, a):
    return default_of(ex, site.self_ty)


def values_eq(ex, x, y):
    """structural equality following the element type's own PartialEq (crate impls are interpreted)"""
    x = deref(ex, x); y = deref(ex, y)
    if isinstance(x, Agg) and x.ty == 'Cow': x = deref(ex, x.fields[0])
    if isinstance(y, Agg) and y.ty == 'Cow': y = deref(ex, y.fields[0])
    if isinstance(x, (VecV, SliceRef)) and isinstance(y, (VecV, SliceRef)):
        a = x.items() if isinstance(x, SliceRef) else x.items
        b = y.items() if isinstance(y, SliceRef) else y.items
        if len(a) != len(b): return False
        return zand(values_eq(ex, p, q) for p, q in zip(a, b))
    if isinstance(x, Agg) and isinstance(y, Agg):
        if ex.prog.typedef(x.ty) is not None and x.ty == y.ty:
            b = ex.prog.find_method(x.ty, 'PartialEq', 'eq')
            if b is not None:
                return ex.call_body(b, [Ptr(Cell(x)), Ptr(Cell(y))])
        if x.ty in ('BTreeMap', 'HashMap') and y.ty == x.ty:
            return map_eq(ex, x, y)
        if x.variant != y.variant: return False
        if len(x.fields) != len(y.fields): return False
        return zand(values_eq(ex, p, q) for p, q in zip(x.fields, y.fields))
    if isinstance(x, Agg) or isinstance(y, Agg) or isinstance(x, (VecV, SliceRef)) or isinstance(y, (VecV, SliceRef)):
        raise Unsupported('eq of %r and %r' % (x, y))
    if isinstance(x, HostObj) or isinstance(y, HostObj): return x is y
    return eq_scalar(x, y)


def map_eq(ex, x, y):
    a = x.fields[0].items; b = y.fields[0].items
    if len(a) != len(b): return False
    return zand(zand([values_eq(ex, p.fields[0], q.fields[0]), values_eq(ex, p.fields[1], q.fields[1])]) for p, q in zip(a, b))


@model(rx(r'^<.* as PartialEq>::eq$'))
def m_eq(ex, site, a):
    return values_eq(ex, a[0], a[1])


@model(rx(r'^<.* as PartialEq>::ne$'))
def m_ne(ex, site, a):
    st = strip_generics((site.self_ty or '').lstrip('&').replace('mut ', '').strip())
    tyc = ex.prog.canon_type(st) if re.match(r'^[\w:]+$', st) else None
    if tyc and ex.prog.typedef(tyc) is not None:
        b = ex.prog.find_method(tyc, 'PartialEq', 'ne')
        if b is None:
            b = ex.prog.find_method(tyc, 'PartialEq', 'eq')
            if b is not None:
                x, y = a[0], a[1]
                for _ in range(len(site.self_ty) - len(site.self_ty.lstrip('&'))): x = ex.load(x); y = ex.load(y)
                return znot(ex.call_body(b, [x, y]))
    return znot(values_eq(ex, a[0], a[1]))


def values_cmp(ex, x, y, partial=False):
    """-> -1/0/1 (forking), or None when partial and unordered"""
    x = deref(ex, x); y = deref(ex, y)
    if isinstance(x, Agg) and x.ty == 'Cow': x = deref(ex, x.fields[0])
    if isinstance(y, Agg) and y.ty == 'Cow': y = deref(ex, y.fields[0])
    if isinstance(x, (VecV, SliceRef)) and isinstance(y, (VecV, SliceRef)):
        a = x.items() if isinstance(x, SliceRef) else x.items
        b = y.items() if isinstance(y, SliceRef) else y.items
        for p, q in zip(a, b):
            c = values_cmp(ex, p, q, partial)
            if c is None or c != 0: return c
        return (len(a) > len(b)) - (len(a) < len(b))
    if isinstance(x, Agg) and isinstance(y, Agg):
        if ex.prog.typedef(x.ty) is not None and x.ty == y.ty:
            for tr, me in ((('PartialOrd', 'partial_cmp'),) if partial else (('Ord', 'cmp'),)):
                b = ex.prog.find_method(x.ty, tr, me)
                if b is not None:
                    r = ex.call_body(b, [Ptr(Cell(x)), Ptr(Cell(y))])
                    if partial:
                        if r.variant == 0: return None
                        r = r.fields[0]
                    return r.variant - 1
            raise Unsupported('no %s for %s' % ('PartialOrd' if partial else 'Ord', x.ty))
        if x.ty in ('BTreeMap',) and y.ty == x.ty:
            a = x.fields[0].items; b = y.fields[0].items
            for p, q in zip(a, b):
                for k in (0, 1):
                    c = values_cmp(ex, p.fields[k], q.fields[k], partial)
                    if c is None or c != 0: return c
            return (len(a) > len(b)) - (len(a) < len(b))
        if x.variant != y.variant: return -1 if x.variant < y.variant else 1
        for p, q in zip(x.fields, y.fields):
            c = values_cmp(ex, p, q, partial)
            if c is None or c != 0: return c
        return 0
    if isinstance(x, Agg) or isinstance(y, Agg): raise Unsupported('cmp of %r and %r' % (x, y))
    # scalars
    if isinstance(x, float) or isinstance(y, float) or (is_sym(x) and z3.is_fp(x)) or (is_sym(y) and z3.is_fp(y)):
        fx = x if is_sym(x) else z3.FPVal(float(x), F64); fy = y if is_sym(y) else z3.FPVal(float(y), F64)
        if not is_sym(x) and not is_sym(y):
            if x != x or y != y: return None
            return (x > y) - (x < y)
        i = ex.choose([z3.fpLT(fx, fy), z3.fpEQ(fx, fy), z3.fpGT(fx, fy), z3.Or(z3.fpIsNaN(fx), z3.fpIsNaN(fy))])
        return None if i == 3 else i - 1
    if isinstance(x, bool): x = int(x)
    if isinstance(y, bool): y = int(y)
    if not is_sym(x) and not is_sym(y): return (x > y) - (x < y)
    if (is_sym(x) and z3.is_bool(x)) or (is_sym(y) and z3.is_bool(y)):
        bx = zbool(x); by = zbool(y)
        i = ex.choose([z3.And(z3.Not(bx), by), bx == by, z3.And(bx, z3.Not(by))]); return i - 1
    bits = x.size() if is_sym(x) else y.size()
    zx = b2z(x, bits); zy = b2z(y, bits)
    signed = getattr(values_cmp, 'signed', False)
    lt = (zx < zy) if signed else z3.ULT(zx, zy)
    i = ex.choose([lt, zx == zy, z3.And(z3.Not(lt), zx != zy)])
    return i - 1


def elem_signed(site):
    t = (site.self_ty or '')
    return bool(re.search(r'\bi(8|16|32|64|size)\b', t))


@model(rx(r'^<.* as Ord>::cmp$'))
def m_cmp(ex, site, a):
    values_cmp.signed = elem_signed(site)
    try:
        return ordering(values_cmp(ex, a[0], a[1]) + 1)
    finally:
        values_cmp.signed = False


@model(rx(r'^<.* as PartialOrd>::partial_cmp$'))
def m_partial_cmp(ex, site, a):
    values_cmp.signed = elem_signed(site)
    try:
        c = values_cmp(ex, a[0], a[1], True)
    finally:
        values_cmp.signed = False
    return none() if c is None else some(ordering(c + 1))


def _pcmp_bool(ex, site, a, want):
    values_cmp.signed = elem_signed(site)
    try:
        c = values_cmp(ex, a[0], a[1], True)
    finally:
        values_cmp.signed = False
    return c is not None and c in want


@model(rx(r'^<.* as PartialOrd>::lt$'))
def m_lt(ex, site, a): return _pcmp_bool(ex, site, a, (-1,))
@model(rx(r'^<.* as PartialOrd>::le$'))
def m_le(ex, site, a): return _pcmp_bool(ex, site, a, (-1, 0))
@model(rx(r'^<.* as PartialOrd>::gt$'))
def m_gt(ex, site, a): return _pcmp_bool(ex, site, a, (1,))
@model(rx(r'^<.* as PartialOrd>::ge$'))
def m_ge(ex, site, a): return _pcmp_bool(ex, site, a, (0, 1))


@model('Ordering::is_eq')
def m_ord_is_eq(ex, site, a): return a[0].variant == 1
@model('Ordering::is_ne')
def m_ord_is_ne(ex, site, a): return a[0].variant != 1
@model('Ordering::is_lt')
def m_ord_is_lt(ex, site, a): return a[0].variant == 0
@model('Ordering::is_gt')
def m_ord_is_gt(ex, site, a): return a[0].variant == 2
@model('Ordering::is_le')
def m_ord_is_le(ex, site, a): return a[0].variant != 2
@model('Ordering::is_ge')
def m_ord_is_ge(ex, site, a): return a[0].variant != 0
@model('Ordering::reverse')
def m_ord_rev(ex, site, a): return ordering(2 - a[0].variant)
@model('Ordering::then')
def m_ord_then(ex, site, a): return a[0] if a[0].variant != 1 else a[1]
@model('Ordering::then_with')
def m_ord_then_with(ex, site, a): return a[0] if a[0].variant != 1 else ex.call_value(a[1], [])


@model('<Ordering as PartialEq>::eq')
def m_ord_eq(ex, site, a): return deref(ex, a[0]).variant == deref(ex, a[1]).variant


# --------------------------------------------------------------------------- mem / ptr / Box
@model('mem::swap')
def m_swap(ex, site, a):
    x = ex.load(a[0]); y = ex.load(a[1]); ex.store(a[0], y); ex.store(a[1], x); return unit()


@model('mem::replace')
def m_replace(ex, site, a):
    x = ex.load(a[0]); ex.store(a[0], a[1]); return x


@model('mem::take')
def m_take(ex, site, a):
    x = ex.load(a[0]); ex.store(a[0], default_of(ex, site_generic(site))); return x


@model('mem::drop', 'mem::forget')
def m_drop(ex, site, a):
    hook = ex.side.get('drop_hook')
    if hook is not None and site.method == 'drop': hook(ex, a[0])
    return unit()


@model('mem::discriminant', 'discriminant')
def m_discr(ex, site, a):
    return Agg('Discriminant', 0, [ex.discriminant(deref(ex, a[0]))])


@model('<Discriminant as PartialEq>::eq')
def m_discr_eq(ex, site, a):
    return deref(ex, a[0]).fields[0] == deref(ex, a[1]).fields[0]


@model('must_use', 'hint::black_box', 'convert::identity')
def m_identity(ex, site, a): return a[0]


@model(rx(r'^<.* as (Deref|DerefMut|AsRef|AsMut|Borrow|BorrowMut)>::(deref|deref_mut|as_ref|as_mut|borrow|borrow_mut)$'))
def m_deref(ex, site, a):
    p = a[0]
    v = ex.load(p) if isinstance(p, Ptr) else p
    if isinstance(v, Ptr) and site.self_short in ('Box', '&Box', 'Rc', 'Arc'): return v
    while isinstance(v, Ptr):
        p = v; v = ex.load(p)
    if isinstance(v, VecV):
        return SliceRef(v, 0, len(v.items), 'str' if v.kind in ('string', 'str') else 'slice')
    if isinstance(v, SliceRef): return v
    if isinstance(v, Agg) and v.ty == 'Cow':
        inner = v.fields[0]
        if isinstance(inner, VecV): return SliceRef(inner, 0, len(inner.items), 'str' if inner.kind == 'string' else 'slice')
        return inner
    if isinstance(v, Agg) and v.ty.startswith('static:'):
        return lazy_static_deref(ex, v.ty[7:])
    if isinstance(v, Agg) and v.ty in ('Box', 'Rc', 'Arc'):
        return Ptr(p.cell, p.path + (0,))
    if isinstance(v, Agg) and ex.prog.typedef(v.ty) is not None:
        tr = site.trait; me = site.method
        b = ex.prog.find_method(v.ty, tr, me)
        if b is not None: return ex.call_body(b, [p])
        # AsRef<str> etc. on newtypes
    return p


def lazy_static_deref(ex, name):
    """`<NAME as Deref>::deref` of a lazy_static: evaluate its initialiser once (the value is read-only)"""
    key = ('lazy', name)
    c = ex.static_cache.get(key)
    if c is None:
        short = name.split('::')[-1]
        m = ex.find_model('lazy:' + short)
        if m is not None:
            c = Cell(m(ex, name))
        else:
            idx = lazy_index(ex.prog)
            b = idx.get(short)
            if b is None: raise Unsupported('lazy static ' + name)
            c = Cell(ex.call_body(b, []))
        ex.static_cache[key] = c
    return Ptr(c)


def lazy_index(prog):
    """NAME -> body of `__static_ref_initialize` (lazy_static! expansion), found through the span of the body"""
    idx = getattr(prog, '_lazy_idx', None)
    if idx is not None: return idx
    idx = {}
    lines_of = {}
    for nm, lst in prog.by_name.items():
        if not nm.endswith('::__static_ref_initialize'): continue
        for b in lst:
            if b.file is None or b.line is None: continue
            lines = lines_of.get(b.file)
            if lines is None:
                src = prog.src.raw.get(b.file)
                if src is None: continue
                lines = src.split('\n'); lines_of[b.file] = lines
            for k in range(b.line - 1, max(-1, b.line - 40), -1):
                m = re.search(r'static\s+ref\s+(\w+)\s*:', lines[k] if k < len(lines) else '')
                if m:
                    idx.setdefault(m.group(1), b); break
    prog._lazy_idx = idx
    return idx


@model('Box::new', 'Rc::new', 'Arc::new', 'Box::pin', 'Box::from', '<Box as From>::from')
def m_box_new(ex, site, a):
    hook = ex.side.get('alloc_hook')
    c = Cell(a[0])
    if hook is not None: hook(ex, c, 'Box')
    return Ptr(c)


@model('Box::new_uninit')
def m_box_new_uninit(ex, site, a):
    t = site.generics[0] if site.generics else ''
    m = re.match(r'^\[(.*); (\d+)\]$', t.strip())
    if m: return Ptr(Cell(VecV([None] * int(m.group(2)), 'array')))
    return Ptr(Cell(None))


@model('boxed::box_assume_init_into_vec_unsafe')
def m_box_into_vec(ex, site, a):
    v = ex.load(a[0]); return VecV(v.items, 'vec')


@model('Box::assume_init', 'MaybeUninit::assume_init')
def m_assume_init(ex, site, a): return a[0]


@model('Box::write')
def m_box_write(ex, site, a):
    ex.store(a[0], a[1]); return a[0]


@model('Box::into_raw', 'Box::leak', 'Box::into_inner', 'Box::as_ref', 'Box::as_mut', 'Box::as_mut_ptr', 'Box::as_ptr')
def m_box_into_raw(ex, site, a):
    if site.method == 'into_inner': return ex.load(a[0])
    return a[0]


@model('Box::from_raw')
def m_box_from_raw(ex, site, a):
    p = a[0]
    if p is NULL or isinstance(p, NullPtr): raise Panic('null-deref', 'Box::from_raw(NULL)', ex.where())
    hook = ex.side.get('from_raw_hook')
    if hook is not None: hook(ex, p, 'Box')
    return p


@model('ptr::null', 'ptr::null_mut')
def m_null(ex, site, a): return NULL


@model(rx(r'^\*(const|mut) \w+::is_null$'), 'ptr::is_null', 'NonNull::is_null')
def m_is_null(ex, site, a):
    return a[0] is NULL or isinstance(a[0], NullPtr)


@model(rx(r'^\*(const|mut) \w+::as_ref$'), rx(r'^\*(const|mut) \w+::as_mut$'))
def m_ptr_as_ref(ex, site, a):
    p = a[0]
    if p is NULL or isinstance(p, NullPtr): return none()
    if isinstance(p, Ptr): ex.check_live(p)
    return some(p)


@model('ptr::read', 'ptr::read_unaligned')
def m_ptr_read(ex, site, a): return ex.load(a[0])


@model('ptr::write')
def m_ptr_write(ex, site, a):
    ex.store(a[0], a[1]); return unit()


@model('ptr::drop_in_place')
def m_drop_in_place(ex, site, a): return unit()


@model('intrinsics::unreachable', 'hint::unreachable_unchecked')
def m_unreachable(ex, site, a): raise Panic('unreachable', 'unreachable_unchecked', ex.where())


@model('hint::assert_unchecked', 'intrinsics::assume', 'intrinsics::cold_path')
def m_assume(ex, site, a): return unit()


@model('panicking::panic', 'panicking::panic_fmt', 'panicking::panic_display', 'rt::begin_panic', 'rt::panic_fmt',
       'panicking::panic_explicit', 'panicking::unreachable_display', 'panicking::panic_nounwind',
       'option::expect_failed', 'option::unwrap_failed', 'result::unwrap_failed', 'panicking::assert_failed',
       'slice::index::slice_index_fail', 'str::slice_error_fail', 'panicking::panic_bounds_check',
       'panicking::panic_cannot_unwind', 'panic::panic_any', 'rt::panic_display')
def m_panic(ex, site, a):
    msg = ''
    if a:
        try:
            v = deref(ex, a[0])
            if isinstance(v, (SliceRef, VecV)):
                b = conc_bytes(items_of(ex, v)); msg = b.decode('utf-8', 'replace') if b else ''
            elif isinstance(v, Agg) and v.ty == 'fmt::Arguments':
                from .models_fmt import render_args
                b = conc_bytes(render_args(ex, v, lossy=True)); msg = b.decode('utf-8', 'replace') if b else ''
        except Exception:
            pass
    raise Panic('explicit', msg[:200] or site.key, ex.where())


@model(rx(r'^<.* as (Fn|FnMut|FnOnce)>::(call|call_mut|call_once)$'))
def m_fn_call(ex, site, a):
    f = a[0]; args = a[1]
    argv = list(args.fields) if isinstance(args, Agg) and args.ty == UNIT_TY else [args]
    return ex.call_value(f, argv)


@model('PartialEq::eq')
def m_trait_eq(ex, site, a): return values_eq(ex, a[0], a[1])
@model('PartialEq::ne')
def m_trait_ne(ex, site, a): return znot(values_eq(ex, a[0], a[1]))


def _trait_pcmp(ex, a, want):
    c = values_cmp(ex, a[0], a[1], True)
    return c is not None and c in want


@model('PartialOrd::lt')
def m_trait_lt(ex, site, a): return _trait_pcmp(ex, a, (-1,))
@model('PartialOrd::le')
def m_trait_le(ex, site, a): return _trait_pcmp(ex, a, (-1, 0))
@model('PartialOrd::gt')
def m_trait_gt(ex, site, a): return _trait_pcmp(ex, a, (1,))
@model('PartialOrd::ge')
def m_trait_ge(ex, site, a): return _trait_pcmp(ex, a, (0, 1))
