"""mirsym value (under a solver model) -> canonical JSON description shared with the replay binary."""
import struct
import z3
from .values import *
from .engine import conc_value, fp_to_float


class Concretizer:
    def __init__(s, ex, model):
        s.ex = ex; s.m = model

    def c(s, v):
        if is_sym(v) and z3.is_fp(v):
            prov = s.ex.float_defs.get(v.get_id())
            if prov is not None:
                t = ('-' if prov.neg else '') + bytes(s.c(d) for d in prov.ip).decode() + ('.' + bytes(s.c(d) for d in prov.fp).decode() if prov.fp else '')
                return float(t)
        if is_sym(v):
            if s.m is None: raise Unsupported('symbolic value without a model')
            return conc_value(s.m.eval(v, model_completion=True))
        return v

    def bytes_(s, v):
        v = s.de(v)
        items = v.items() if isinstance(v, SliceRef) else v.items
        return bytes(s.c(i) & 0xFF for i in items)

    def hexs(s, v):
        return s.bytes_(v).hex()

    def de(s, v):
        while isinstance(v, Ptr): v = s.ex.load(v)
        if isinstance(v, Agg) and v.ty == 'Cow': v = s.de(v.fields[0])
        return v

    def bits(s, f):
        f = s.c(f)
        return '%016x' % struct.unpack('<Q', struct.pack('<d', float(f)))[0]

    def opt(s, o):
        o = s.de(o)
        return None if o.variant == 0 else o.fields[0]

    def dict_(s, d):
        d = s.de(d)
        m = s.de(d.fields[0])
        return [[s.hexs(kv.fields[0]), s.value(kv.fields[1])] for kv in m.fields[0].items]

    def odict(s, o):
        d = s.opt(o)
        return None if d is None else s.dict_(d)

    def value(s, v):
        v = s.de(v)
        ex = s.ex
        vs = ex.prog.variants(v.ty)
        name = vs[v.variant][0]
        f = v.fields
        if name in ('Null', 'Remove', 'Marker', 'Na'): return {'t': name.lower()}
        p = s.de(f[0])
        if name == 'Bool': return {'t': 'bool', 'v': bool(s.c(p.fields[0]))}
        if name == 'Number':
            u = s.opt(p.fields[1])
            unit = None
            if u is not None:
                ud = s.de(u); ids = s.de(ud.fields[1])
                unit = s.hexs(ids.items[0]) if ids.items else ''
            return {'t': 'num', 'bits': s.bits(p.fields[0]), 'unit': unit}
        if name == 'Str': return {'t': 'str', 'v': s.hexs(p.fields[0])}
        if name == 'Uri': return {'t': 'uri', 'v': s.hexs(p.fields[0])}
        if name == 'Symbol': return {'t': 'sym', 'v': s.hexs(p.fields[0])}
        if name == 'Ref':
            d = s.opt(p.fields[1])
            return {'t': 'ref', 'v': s.hexs(p.fields[0]), 'dis': None if d is None else s.hexs(d)}
        if name == 'XStr': return {'t': 'xstr', 'ty': s.hexs(p.fields[0]), 'v': s.hexs(p.fields[1])}
        if name == 'Coord': return {'t': 'coord', 'lat': s.bits(p.fields[0]), 'lng': s.bits(p.fields[1])}
        if name == 'Date':
            d = s.de(p.fields[0]); return {'t': 'date', 'y': s.c(d.fields[0]), 'm': s.c(d.fields[1]), 'd': s.c(d.fields[2])}
        if name == 'Time':
            d = s.de(p.fields[0]); return {'t': 'time', 'h': s.c(d.fields[0]), 'mi': s.c(d.fields[1]), 's': s.c(d.fields[2]), 'ns': s.c(d.fields[3])}
        if name == 'DateTime':
            from .models_chrono import dt_to_vj
            return dt_to_vj(s, s.de(p.fields[0]))
        if name == 'List': return {'t': 'list', 'v': [s.value(x) for x in p.items]}
        if name == 'Dict': return {'t': 'dict', 'v': s.dict_(p)}
        if name == 'Grid':
            return {'t': 'grid', 'ver': s.hexs(p.fields[3]), 'meta': s.odict(p.fields[0]),
                    'cols': [[s.hexs(s.de(c).fields[0]), s.odict(s.de(c).fields[1])] for c in s.de(p.fields[1]).items],
                    'rows': [s.dict_(r) for r in s.de(p.fields[2]).items]}
        raise Unsupported('vj of ' + name)


def norm_native(j):
    """drop the helper members the native side adds for readability"""
    if isinstance(j, dict):
        return {k: norm_native(v) for k, v in j.items() if k not in ('short', 'local', 'nsl')}
    if isinstance(j, list): return [norm_native(x) for x in j]
    return j
