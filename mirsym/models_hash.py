"""Hash models: a recording Hasher (the byte/word stream a Hash impl feeds it) and std's Hash impls for containers/scalars.
Equal recorded streams imply equal hashes for every Hasher."""
import z3
from .values import *
from .models import rx, deref, items_of, zand, eq_scalar, unit
from .engine import HostObj

REG = []


def model(*keys):
    def deco(fn):
        for k in keys: REG.append((k, fn))
        return fn
    return deco


class RecHasher(HostObj):
    host_type = 'RecHasher'

    def __init__(s): s.stream = []

    def call(s, ex, site, argv):
        me = site.method
        if me == 'write':
            s.stream.append(('bytes', list(items_of(ex, argv[1])))); return unit()
        if me.startswith('write_'):
            s.stream.append((me[6:], argv[1])); return unit()
        if me == 'finish': return 0
        raise Unsupported('Hasher::' + me)


def put(ex, h, tag, v):
    hh = deref(ex, h)
    if not isinstance(hh, RecHasher): raise Unsupported('hash into %r' % (hh,))
    hh.stream.append((tag, v))


def streams_equal(a, b):
    if len(a) != len(b): return False
    cs = []
    for (t1, v1), (t2, v2) in zip(a, b):
        if t1 != t2: return False
        if t1 == 'bytes':
            if len(v1) != len(v2): return False
            cs += [eq_scalar(x, y) for x, y in zip(v1, v2)]
        else:
            if isinstance(v1, float) or isinstance(v2, float): raise Unsupported('float in hash stream')
            cs.append(eq_scalar(v1, v2))
    return zand(cs)


def hash_value(ex, v, h):
    """std Hash for foreign containers / scalars; crate types run their own MIR impl"""
    v0 = v
    v = deref(ex, v)
    if isinstance(v, Agg) and v.ty == 'Cow': v = deref(ex, v.fields[0])
    if isinstance(v, (VecV, SliceRef)):
        items = v.items() if isinstance(v, SliceRef) else v.items
        kind = v.kind
        if kind in ('string', 'str', 'cstring'):
            put(ex, h, 'bytes', list(items)); put(ex, h, 'u8', 0xff)
        else:
            put(ex, h, 'len', len(items))
            for x in items: hash_value(ex, x, h)
        return
    if isinstance(v, Agg):
        if ex.prog.typedef(v.ty) is not None:
            b = ex.prog.find_method(v.ty, 'Hash', 'hash')
            if b is None: raise Unsupported('no Hash for ' + v.ty)
            ex.call_body(b, [Ptr(Cell(v)), h]); return
        if v.ty == 'Option':
            put(ex, h, 'discr', v.variant)
            if v.variant == 1: hash_value(ex, v.fields[0], h)
            return
        if v.ty in ('BTreeMap', 'BTreeSet'):
            put(ex, h, 'len', len(v.fields[0].items))
            for kv in v.fields[0].items:
                hash_value(ex, kv.fields[0], h)
                if v.ty == 'BTreeMap': hash_value(ex, kv.fields[1], h)
            return
        if v.ty in ('NaiveDate', 'NaiveTime', 'NaiveDateTime', 'FixedOffset'):
            for f in v.fields:
                if isinstance(f, Agg): hash_value(ex, f, h)
                else: put(ex, h, 'i64', f)
            return
        if v.ty == 'chrono::DateTime':
            # chrono hashes the UTC date-time only
            from .models_chrono import utc_secs
            put(ex, h, 'i64', utc_secs(v)); put(ex, h, 'i64', v.fields[0].fields[1].fields[3]); return
        if v.ty == 'Discriminant':
            put(ex, h, 'discr', v.fields[0]); return
        if v.ty == '()':
            for f in v.fields: hash_value(ex, f, h)
            return
        if v.ty == 'TypeId':
            put(ex, h, 'typeid', 0 if not v.fields else hash(str(v.fields[0])) & 0xffff); return
        if v.ty == 'Tz':
            put(ex, h, 'bytes', list(v.fields[0].encode())); return
        raise Unsupported('Hash of ' + v.ty)
    if isinstance(v, float) or (is_sym(v) and z3.is_fp(v)): raise Unsupported('Hash of f64')
    put(ex, h, 'scalar', v)


@model(rx(r'^<.* as Hash>::hash$'))
def m_hash(ex, site, a):
    hash_value(ex, a[0], a[1]); return unit()


@model(rx(r'^<.* as Hash>::hash_slice$'))
def m_hash_slice(ex, site, a):
    for x in items_of(ex, a[0]): hash_value(ex, x, a[1])
    return unit()


@model(rx(r'^<.* as Hasher>::write\w*$'))
def m_hasher_write(ex, site, a):
    return deref(ex, a[0]).call(ex, site, a)


@model('TypeId::of')
def m_typeid_of(ex, site, a):
    return Agg('TypeId', 0, [site.generics[0] if site.generics else '?'])
