"""Parse `rustc -Zunpretty=mir -Zmir-include-spans=yes` text into a small IR.

Only the structure is parsed here (bodies, locals, basic blocks, raw statement
text + span).  Statements are compiled lazily by mirsym.compile on first
execution.
"""
import re, os, pickle, hashlib

SPAN_RE = re.compile(r' // scope \d+ at (\S+?):(\d+):(\d+): (\d+):(\d+)\s*$')


class Body:
    __slots__ = ('name', 'kind', 'sig', 'args', 'ret', 'locals', 'blocks', 'spans',
                 'file', 'line', 'key', 'compiled', 'impl_span', 'arg_names')

    def __init__(s, name, kind, sig):
        s.name = name; s.kind = kind; s.sig = sig
        s.args = []          # list of (local, type)
        s.ret = None
        s.locals = {}        # '_N' -> type string
        s.blocks = {}        # 'bbN' -> list of raw statement strings
        s.spans = {}         # ('bbN', idx) -> (file, line)
        s.file = None; s.line = None
        s.key = None
        s.compiled = {}
        s.impl_span = None
        s.arg_names = {}

    def __repr__(s):
        return '<Body %s>' % s.name


def split_top(s, sep=','):
    """split on sep at nesting depth 0 (brackets () [] {} <>), respecting string/char literals"""
    out = []; depth = 0; cur = []; i = 0; n = len(s)
    while i < n:
        ch = s[i]
        if ch == '"':
            j = i + 1
            while j < n:
                if s[j] == '\\': j += 2; continue
                if s[j] == '"': break
                j += 1
            cur.append(s[i:j + 1]); i = j + 1; continue
        if ch == "'" and i + 2 < n:
            # char literal 'x' or '\n' or '\u{..}' ; lifetimes ('a) have no closing quote nearby
            m = re.match(r"'(\\u\{[0-9a-fA-F]+\}|\\.|[^\\'])'", s[i:])
            if m:
                cur.append(m.group(0)); i += len(m.group(0)); continue
        if ch in '([{<':
            if ch == '<' and i > 0 and s[i - 1] == ' ' and i + 1 < n and s[i + 1] in ' =':
                pass  # comparison operator, not a bracket
            else:
                depth += 1
        elif ch in ')]}>':
            if ch == '>' and i > 0 and s[i - 1] in '-=':
                pass  # -> or =>
            elif ch == '>' and i > 0 and s[i - 1] == ' ' and i + 1 < n and s[i + 1] in ' =':
                pass
            else:
                depth -= 1
        if ch == sep and depth == 0:
            out.append(''.join(cur).strip()); cur = []
        else:
            cur.append(ch)
        i += 1
    t = ''.join(cur).strip()
    if t:
        out.append(t)
    return out


def strip_comment(line):
    # statements end in ';' or '{' followed by optional ' // comment'
    i = line.find(' // ')
    if i >= 0:
        # make sure we are not inside a string literal: cheap check on quote parity
        head = line[:i]
        if (head.count('"') % 2 == 0 and "'\"'" not in head) or _quotes_balanced(head):
            return head.rstrip()
        # search later occurrences
        j = i
        while j >= 0:
            head = line[:j]
            if _quotes_balanced(head):
                return head.rstrip()
            j = line.find(' // ', j + 1)
        return line.rstrip()
    return line.rstrip()


def _quotes_balanced(t):
    inq = False; i = 0; n = len(t)
    while i < n:
        c = t[i]
        if inq:
            if c == '\\': i += 2; continue
            if c == '"': inq = False
        elif c == '"':
            if t[i - 1:i + 2] == "'\"'":
                i += 1; continue     # the char literal '"'
            inq = True
        i += 1
    return not inq


HDR_FN = re.compile(r'^fn (.+?)\((.*)\) -> (.+) \{$')
HDR_CONST = re.compile(r'^(const|static(?: mut)?) (.+): (.+?) = \{$')
HDR_PROMOTED = re.compile(r'^(const) (.+?::promoted\[\d+\]): (.+) = \{$')
HDR_CONST1 = re.compile(r'^(const|static(?: mut)?) (.+): (.+?) = (const .+);$')


def _find_args_split(line):
    """`fn NAME(ARGS) -> RET {` where NAME may itself contain parens (impl spans don't, closures don't)."""
    # name ends at the first '(' that is followed by '_1: ' or ')' at generic depth 0
    depth = 0
    for i, ch in enumerate(line):
        if ch == '<': depth += 1
        elif ch == '>' and line[i - 1] != '-': depth -= 1
        elif ch == '(' and depth == 0 and i > 3:
            rest = line[i + 1:]
            if rest.startswith('_1: ') or rest.startswith(')'):
                return i
    return -1


def parse_text(path):
    bodies = []
    cur = None; blk = None; blkname = None
    with open(path, encoding='utf-8', errors='replace') as f:
        for raw in f:
            if cur is None:
                if raw.startswith('fn '):
                    line = strip_comment(raw.rstrip('\n'))
                    i = _find_args_split(line)
                    if i < 0: continue
                    name = line[3:i]
                    # find matching close paren of args
                    depth = 0; j = i
                    for j in range(i, len(line)):
                        if line[j] == '(': depth += 1
                        elif line[j] == ')':
                            depth -= 1
                            if depth == 0: break
                    args = line[i + 1:j]
                    rest = line[j + 1:].strip()
                    ret = rest[3:-2].strip() if rest.startswith('->') else '()'
                    cur = Body(name, 'fn', line)
                    cur.ret = ret
                    for a in split_top(args):
                        am = re.match(r'(_\d+): (.*)$', a, re.S)
                        if am:
                            cur.args.append((am.group(1), am.group(2)))
                            cur.locals[am.group(1)] = am.group(2)
                    cur.locals['_0'] = ret
                    blk = None
                    continue
                if raw.startswith(('const ', 'static ')):
                    line = strip_comment(raw.rstrip('\n'))
                    m = HDR_PROMOTED.match(line) or HDR_CONST.match(line)
                    if m:
                        cur = Body(m.group(2), m.group(1), line); cur.ret = m.group(3)
                        cur.locals['_0'] = m.group(3)
                        blk = None
                        continue
                    m = HDR_CONST1.match(line)
                    if m:
                        b = Body(m.group(2), m.group(1), line); b.ret = m.group(3)
                        b.locals['_0'] = m.group(3)
                        b.blocks['bb0'] = ['_0 = %s;' % m.group(4), 'return;']
                        bodies.append(b)
                    continue
                continue
            # inside a body
            if raw.startswith('}'):
                bodies.append(cur); cur = None; blk = None
                continue
            s = raw.strip()
            if not s or s.startswith('//'):
                continue
            if blk is None:
                if s.startswith('let '):
                    line = strip_comment(raw.rstrip('\n')).strip()
                    lm = re.match(r'let (?:mut )?(_\d+): (.*);$', line)
                    if lm:
                        cur.locals[lm.group(1)] = lm.group(2)
                        if cur.file is None:
                            sm = SPAN_RE.search(raw) or re.search(r' at (src/\S+?):(\d+):', raw)
                            if sm and sm.group(1).startswith('src/'):
                                cur.file = sm.group(1); cur.line = int(sm.group(2))
                    continue
                if s.startswith('debug '):
                    dm = re.match(r'debug (\w+) => (_\d+);', s)
                    if dm: cur.arg_names[dm.group(2)] = dm.group(1)
                    if cur.file is None:
                        sm = re.search(r' at (src/\S+?):(\d+):', raw)
                        if sm: cur.file = sm.group(1); cur.line = int(sm.group(2))
                    continue
                bm = re.match(r'(bb\d+)( \(cleanup\))?: \{$', s)
                if bm:
                    blkname = bm.group(1); blk = []; cur.blocks[blkname] = blk
                continue
            if s == '}':
                blk = None
                continue
            line = strip_comment(raw.rstrip('\n')).strip()
            if not line:
                continue
            sm = SPAN_RE.search(raw)
            if sm:
                cur.spans[(blkname, len(blk))] = (sm.group(1), int(sm.group(2)))
                if cur.file is None and sm.group(1).startswith('src/'):
                    cur.file = sm.group(1); cur.line = int(sm.group(2))
            blk.append(line)
    return bodies


def load(path, cache=None):
    if cache and os.path.exists(cache):
        try:
            with open(cache, 'rb') as f:
                return pickle.load(f)
        except Exception:
            pass
    b = parse_text(path)
    if cache:
        with open(cache + '.tmp', 'wb') as f:
            pickle.dump(b, f, protocol=pickle.HIGHEST_PROTOCOL)
        os.replace(cache + '.tmp', cache)
    return b


if __name__ == '__main__':
    import sys, time, collections
    t = time.time()
    bs = parse_text(sys.argv[1])
    print(len(bs), 'bodies', '%.1fs' % (time.time() - t))
    nst = sum(len(b) for x in bs for b in x.blocks.values())
    print(nst, 'statements')
