"""Harness helpers for the Zinc codec entry points."""
import z3
from .values import *
from .engine import Exec
from .models_fmt import Cursor
from . import models


def make_exec(prog, **kw):
    ex = Exec(prog, **kw)
    models.install(ex)
    return ex


def sym_bytes(n, prefix='b'):
    return [z3.BitVec('%s%d' % (prefix, i), 8) for i in range(n)]


def find_impl_method(prog, file_part, method, self_name=None):
    for (ty, tr, me), lst in prog.impl_methods.items():
        if me == method and tr is None and (self_name is None or ty.split('::')[-1] == self_name):
            for b, ta, tt in lst:
                if file_part in (b.file or b.name): return b
    raise KeyError((file_part, method))


def parse_value(ex, data, fail_at=None):
    """Parser::make(&mut reader)?.parse_value() -> (Result value, reader)"""
    prog = ex.prog
    rd = Cursor(data, fail_at)
    mk = find_impl_method(prog, 'zinc/decode/parser.rs', 'make')
    pv = find_impl_method(prog, 'zinc/decode/parser.rs', 'parse_value')
    r = ex.call_body(mk, [Ptr(Cell(rd))])
    if r.variant == 1: return r, rd
    pc = Cell(r.fields[0])
    return ex.call_body(pv, [Ptr(pc)]), rd
