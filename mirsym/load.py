"""Regenerate the MIR dump of /repo's current working tree and load it as a Program.

The dump is cached under /verif/.cache keyed by a content hash of the sources, so several checks
of one invocation share it; an edited tree always has a different key and is re-dumped.
"""
import os, subprocess, hashlib, time, glob, shutil, fcntl, pickle
from . import mirparse
from .program import Program

RUSTFLAGS = ['-Zunpretty=mir', '-Zmir-include-spans=yes', '-C', 'debug-assertions=off', '-C', 'overflow-checks=on']


def tree_hash(repo):
    h = hashlib.sha256()
    paths = []
    for dp, dn, fn in os.walk(os.path.join(repo, 'src')):
        dn.sort()
        for f in sorted(fn):
            paths.append(os.path.join(dp, f))
    for f in ('Cargo.toml', 'Cargo.lock'):
        paths.append(os.path.join(repo, f))
    for p in paths:
        try:
            with open(p, 'rb') as f:
                h.update(os.path.relpath(p, repo).encode()); h.update(b'\0'); h.update(f.read()); h.update(b'\0')
        except FileNotFoundError:
            pass
    return h.hexdigest()[:20]


def dump(repo, cache):
    """-> (path of MIR text, seconds spent, tree hash)"""
    os.makedirs(cache, exist_ok=True)
    key = tree_hash(repo)
    out = os.path.join(cache, 'mir-%s.txt' % key)
    if os.path.exists(out) and os.path.getsize(out) > 100000:
        return out, 0.0, key
    lock = open(os.path.join(cache, 'mir.lock'), 'w')
    fcntl.flock(lock, fcntl.LOCK_EX)
    try:
        if os.path.exists(out) and os.path.getsize(out) > 100000:
            return out, 0.0, key
        t = time.time()
        target = os.path.join(cache, 'mirtarget')
        env = dict(os.environ, CARGO_TARGET_DIR=target, CARGO_NET_OFFLINE='true')
        env.pop('RUSTFLAGS', None)
        for attempt in range(2):
            p = subprocess.run(['cargo', '+nightly', 'rustc', '--offline', '--lib', '--'] + RUSTFLAGS,
                               cwd=repo, env=env, stdout=subprocess.PIPE, stderr=subprocess.PIPE)
            if p.returncode != 0:
                raise RuntimeError('MIR dump failed:\n' + p.stderr.decode('utf-8', 'replace')[-3000:])
            if len(p.stdout) > 100000:
                break
            # cargo thought the crate was up to date: drop its fingerprint and retry
            for d in glob.glob(os.path.join(target, 'debug', '.fingerprint', 'libhaystack-*')):
                shutil.rmtree(d, ignore_errors=True)
        else:
            raise RuntimeError('MIR dump came back empty')
        # keep only the newest few dumps
        old = sorted(glob.glob(os.path.join(cache, 'mir-*.txt')), key=os.path.getmtime)
        for o in old[:-3]:
            for x in (o, o + '.pickle'):
                try: os.remove(x)
                except OSError: pass
        with open(out + '.tmp', 'wb') as f:
            f.write(p.stdout)
        os.replace(out + '.tmp', out)
        return out, time.time() - t, key
    finally:
        fcntl.flock(lock, fcntl.LOCK_UN); lock.close()


def program(repo='/repo', cache='/verif/.cache'):
    path, secs, key = dump(repo, cache)
    bodies = mirparse.load(path, path + '.pickle')
    prog = Program(bodies, repo)
    prog.mir_path = path; prog.dump_s = secs; prog.tree_key = key
    return prog
