"""Reference Hayson (JSON) representation of Haystack values, written from docHaystack "Json" (Hayson):
  null -> null; Bool -> true/false; Str -> "..."; Number without unit -> JSON number; List -> [..]; Dict -> {..}
  Marker {"_kind":"marker"}  NA {"_kind":"na"}  Remove {"_kind":"remove"}
  Number with unit {"_kind":"number","val":n,"unit":"sym"}; special values {"_kind":"number","val":"INF"|"-INF"|"NaN"}
  Ref {"_kind":"ref","val":id[,"dis":..]}  Symbol/Uri {"_kind":..,"val":..}  Date/Time {"_kind":..,"val":"text"}
  DateTime {"_kind":"dateTime","val":"<RFC 3339>","tz":"City"} (tz optional for UTC)  Coord {"_kind":"coord","lat":..,"lng":..}
  XStr {"_kind":"xstr","type":..,"val":..}
  Grid {"_kind":"grid","meta":{"ver":"3.0",..},"cols":[{"name":..[,"meta":{..}]}],"rows":[{..}]}"""
import z3
from mirsym.values import *
from mirsym.models import deref
from mirsym.models_serde import J


class Tree:
    def __init__(s, ex): s.ex = ex; s.prog = ex.prog

    def name(s, v): return s.prog.variants(v.ty)[v.variant][0]
    def S(s, b): return J('str', list(b))
    def kind(s, k, *members): return J('map', [(list(b'_kind'), s.S(k))] + [(list(n), v) for n, v in members])

    def number(s, x):
        """unit-less number as a JSON number: integral values may be written as integers (any spelling of the same real)"""
        return J('f64', x)

    def dict_(s, d):
        return J('map', [(list(kv.fields[0].items), s.value(kv.fields[1])) for kv in deref(s.ex, d.fields[0]).fields[0].items])

    def value(s, v):
        ex = s.ex; nm = s.name(v)
        if nm == 'Null': return J('null')
        if nm == 'Marker': return s.kind(b'marker')
        if nm == 'Remove': return s.kind(b'remove')
        if nm == 'Na': return s.kind(b'na')
        p = deref(ex, v.fields[0])
        if nm == 'Bool': return J('bool', p.fields[0])
        if nm == 'Str': return s.S(p.fields[0].items)
        if nm == 'Number':
            x = p.fields[0]; u = p.fields[1]
            special = None
            if not is_sym(x):
                if x != x: special = b'NaN'
                elif x == float('inf'): special = b'INF'
                elif x == float('-inf'): special = b'-INF'
            if special: return s.kind(b'number', (b'val', s.S(special)))
            if u.variant == 1:
                ids = deref(ex, deref(ex, u.fields[0]).fields[1]).items
                return s.kind(b'number', (b'val', J('f64', x)), (b'unit', s.S(ids[-1].items)))
            return s.number(x)
        if nm in ('Uri', 'Symbol'): return s.kind(nm.lower().encode(), (b'val', s.S(p.fields[0].items)))
        if nm == 'Ref':
            m = [(b'val', s.S(p.fields[0].items))]
            if p.fields[1].variant == 1: m.append((b'dis', s.S(p.fields[1].fields[0].items)))
            return s.kind(b'ref', *m)
        if nm == 'XStr': return s.kind(b'xstr', (b'type', s.S(p.fields[0].items)), (b'val', s.S(p.fields[1].items)))
        if nm == 'Coord': return s.kind(b'coord', (b'lat', J('f64', p.fields[0])), (b'lng', J('f64', p.fields[1])))
        from mirsym import models_chrono as ch
        if nm == 'Date': return s.kind(b'date', (b'val', s.S(ch.d_naive_date(ex, p.fields[0], None))))
        if nm == 'Time': return s.kind(b'time', (b'val', s.S(ch.d_naive_time(ex, p.fields[0], None))))
        if nm == 'DateTime':
            c = p.fields[0]; n = c.fields[0]; tz = c.fields[2].fields[0]
            text = ch.d_naive_date(ex, n.fields[0], None) + [84] + ch.d_naive_time(ex, n.fields[1], None) + ch.offset_text(ex, c.fields[1], True, True)
            m = [(b'val', s.S(text))]
            if tz != 'UTC': m.append((b'tz', s.S(tz.split('/', 1)[-1].encode())))
            return s.kind(b'dateTime', *m)
        if nm == 'List': return J('seq', [s.value(x) for x in p.items])
        if nm == 'Dict': return s.dict_(p)
        if nm == 'Grid':
            meta = [(list(b'ver'), s.S(p.fields[3].items))]
            if p.fields[0].variant == 1: meta += s.dict_(p.fields[0].fields[0]).v
            cols = []
            for c in p.fields[1].items:
                cm = [(list(b'name'), s.S(c.fields[0].items))]
                if c.fields[1].variant == 1 and deref(ex, c.fields[1].fields[0].fields[0]).fields[0].items: cm.append((list(b'meta'), s.dict_(c.fields[1].fields[0])))
                cols.append(J('map', cm))
            return s.kind(b'grid', (b'meta', J('map', meta)), (b'cols', J('seq', cols)), (b'rows', J('seq', [s.dict_(r) for r in p.fields[2].items])))
        raise Unsupported('kind ' + nm)
