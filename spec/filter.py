"""Reference filter printer with spacing choices, written from the Haystack filter grammar (docHaystack Filters):
  filter := condOr ; condOr := condAnd ("or" condAnd)* ; condAnd := term ("and" term)*
  term := "(" filter ")" | path | "not" path | path cmpOp val | "^" symbol | rel "?" [^term] [@ref] | path "*==" @ref
  path := name ("->" name)* ; cmpOp := "==" "!=" "<" "<=" ">" ">=" ; val := true | false | Zinc scalar literal
White space (space, tab, newline) may separate tokens; a keyword must be separated from an adjacent name."""
from mirsym.values import *
from mirsym.models import deref
from spec.zinc import Writer

OPS = [b'==', b'!=', b'<', b'<=', b'>', b'>=']
WS = [b' ', b'\t', b'\n', b'  ', b'\r\n']


class FilterWriter:
    def __init__(s, ex, ch):
        s.ex = ex; s.ch = ch; s.zw = Writer(ex, lambda n: 0); s.req = None; s.opt = None

    def ws(s, required):
        """white space between two tokens: any of the legal separators, or nothing when not required.
        One style per sentence for required gaps and one for optional gaps (chosen once, forked)."""
        if required:
            if s.req is None: s.req = s.ch(len(WS))
            return list(WS[s.req])
        if s.opt is None: s.opt = s.ch(len(WS) + 1)
        return list(WS[s.opt]) if s.opt < len(WS) else []

    def name(s, v): return s.ex.prog.variants(v.ty)[v.variant][0]

    def path(s, p):
        out = []
        for k, seg in enumerate(deref(s.ex, p.fields[0]).items):
            if k: out += s.ws(False) + [45, 62] + s.ws(False)
            out += list(seg.fields[0].items)
        return out

    def lit(s, v):
        nm = s.name(v)
        if nm == 'Bool':
            return list(b'true') if s.ex.branch(deref(s.ex, v.fields[0]).fields[0]) else list(b'false')
        return s.zw.value(v)

    def term(s, t):
        nm = s.name(t); p = deref(s.ex, t.fields[0])
        if nm == 'Parens': return [40] + s.ws(False) + s.or_(p.fields[0]) + s.ws(False) + [41]
        if nm == 'Has': return s.path(p.fields[0])
        if nm == 'Missing': return list(b'not') + s.ws(True) + s.path(p.fields[0])
        if nm == 'IsA': return [94] + list(p.fields[0].fields[0].items)
        if nm == 'WildcardEq':
            r = p.fields[1]
            return s.path(p.fields[0]) + s.ws(False) + list(b'*==') + s.ws(False) + s.zw.value(s.zw_ref(r))
        if nm == 'Relation':
            out = list(p.fields[0].fields[0].items) + [63]
            if p.fields[1].variant == 1: out += s.ws(True) + [94] + list(p.fields[1].fields[0].fields[0].items)
            if p.fields[2].variant == 1: out += s.ws(True) + s.zw.value(s.zw_ref(p.fields[2].fields[0]))
            return out
        if nm == 'Cmp':
            return s.path(p.fields[0]) + s.ws(False) + list(OPS[p.fields[1].variant]) + s.ws(False) + s.lit(p.fields[2])
        raise Unsupported('term ' + nm)

    def zw_ref(s, r):
        from mirsym.hv import HV
        return HV(s.ex).val('Ref', r)

    def and_(s, a):
        out = []
        for k, t in enumerate(deref(s.ex, a.fields[0]).items):
            if k: out += s.ws(True) + list(b'and') + s.ws(True)
            out += s.term(t)
        return out

    def or_(s, o):
        out = []
        for k, a in enumerate(deref(s.ex, o.fields[0]).items):
            if k: out += s.ws(True) + list(b'or') + s.ws(True)
            out += s.and_(a)
        return out
