"""Reference semantics of the C API (written from src/c_api/libhaystack.h and the doc comments): what one call must return
and do to the pool, in terms of the Rust-level meaning of the values.  Values are in the canonical JSON form ("vj").
expected(fn, args, pool) -> dict(ret=..., err=bool, pool=[...], outp=...) or None when the expectation is the result of a
Rust API call that the native driver computes (codecs, filters, zone conversion)."""
import copy, struct, datetime

U32MAX = str((1 << 32) - 1); USIZEMAX = str((1 << 64) - 1); NAN = '7ff8000000000000'
IS = {'null': 'null', 'marker': 'marker', 'na': 'na', 'remove': 'remove', 'bool': 'bool', 'number': 'num', 'coord': 'coord', 'str': 'str',
      'ref': 'ref', 'uri': 'uri', 'symbol': 'sym', 'xstr': 'xstr', 'time': 'time', 'date': 'date', 'datetime': 'dt', 'list': 'list',
      'dict': 'dict', 'grid': 'grid'}
UNITS = {'m': 'meter', 'meter': 'meter', '%': 'percent', 'percent': 'percent'}


def hx(b): return b.hex()
def unhx(s): return bytes.fromhex(s)


def sentinel(rt):
    return {'f64': {'f': NAN}, 'u32': {'n': U32MAX}, 'usize': {'n': USIZEMAX}, 'ResultType': {'r': -1}, 'bool': {'b': False}}.get(rt)


def utf8(b):
    try: return b.decode('utf-8')
    except UnicodeDecodeError: return None


def days_from_civil(y, m, d):
    y -= m <= 2
    era = (y if y >= 0 else y - 399) // 400
    yoe = y - era * 400
    doy = (153 * (m + (-3 if m > 2 else 9)) + 2) // 5 + d - 1
    doe = yoe * 365 + yoe // 4 - yoe // 100 + doy
    return era * 146097 + doe - 719468


def civil_from_days(z):
    z += 719468
    era = (z if z >= 0 else z - 146096) // 146097
    doe = z - era * 146097
    yoe = (doe - doe // 1460 + doe // 36524 - doe // 146096) // 365
    y = yoe + era * 400
    doy = doe - (365 * yoe + yoe // 4 - yoe // 100)
    mp = (5 * doy + 2) // 153
    d = doy - (153 * mp + 2) // 5 + 1
    m = mp + (3 if mp < 10 else -9)
    return (y + (m <= 2), m, d)


def valid_date(y, m, d):
    if not (-262143 <= y <= 262142) or not (1 <= m <= 12) or d < 1: return False
    dim = [31, 29 if (y % 4 == 0 and (y % 100 != 0 or y % 400 == 0)) else 28, 31, 30, 31, 30, 31, 31, 30, 31, 30, 31][m - 1]
    return d <= dim


class R:
    def __init__(s, rt, pool): s.rt = rt; s.pool = copy.deepcopy(pool); s.ret = None; s.err = False; s.outp = 'absent'
    def fail(s): s.ret = sentinel(s.rt); s.err = True; return s
    def ok(s, ret): s.ret = ret; return s
    def result(s): return {'ret': s.ret, 'err': s.err, 'pool': s.pool, 'outp': s.outp}


def expected(fn, params, rt, args, pool):
    """params: [(name, type)], args: native arg JSON, pool: vj list (pre-state)"""
    r = R(rt, pool)
    A = args
    def val(i): return None if A[i] is None else pool[A[i]['h']]
    def cstr(i): return None if A[i] is None else unhx(A[i]['s'])
    def num(i): return int(A[i]['n'])
    has_outp = [i for i, (pn, t) in enumerate(params) if t == '*mut *const Value']
    if has_outp: r.outp = 'unset' if A[has_outp[0]] is not None else None
    name = fn
    # ---- predicates
    if name.startswith('haystack_value_is_'):
        v = val(0)
        if v is None: return r.fail().result()
        return r.ok({'b': v['t'] == IS[name[len('haystack_value_is_'):]]}).result()
    # ---- constructors
    if name == 'haystack_value_init': return r.ok({'v': {'t': 'null'}}).result()
    if name in ('haystack_value_make_marker', 'haystack_value_make_na', 'haystack_value_make_remove'): return r.ok({'v': {'t': name.split('_')[-1]}}).result()
    if name == 'haystack_value_make_bool': return r.ok({'v': {'t': 'bool', 'v': A[0]['b']}}).result()
    if name == 'haystack_value_make_number': return r.ok({'v': {'t': 'num', 'bits': A[0]['f'], 'unit': None}}).result()
    if name == 'haystack_value_make_coord': return r.ok({'v': {'t': 'coord', 'lat': A[0]['f'], 'lng': A[1]['f']}}).result()
    if name == 'haystack_value_make_list': return r.ok({'v': {'t': 'list', 'v': []}}).result()
    if name == 'haystack_value_make_dict': return r.ok({'v': {'t': 'dict', 'v': []}}).result()
    # the crate's empty grid (Grid::make_empty) has the single column "empty" the Haystack empty grid is written with
    if name == 'haystack_value_make_grid': return r.ok({'v': {'t': 'grid', 'ver': hx(b'3.0'), 'meta': None, 'cols': [[hx(b'empty'), None]], 'rows': []}}).result()
    if name == 'haystack_value_make_number_with_unit':
        u = cstr(1)
        if u is None or utf8(u) is None or utf8(u) not in UNITS: return r.fail().result()
        return r.ok({'v': {'t': 'num', 'bits': A[0]['f'], 'unit': hx(UNITS[utf8(u)].encode())}}).result()
    if name in ('haystack_value_make_str', 'haystack_value_make_uri', 'haystack_value_make_symbol', 'haystack_value_make_ref'):
        s_ = cstr(0)
        if s_ is None or utf8(s_) is None: return r.fail().result()
        t = {'str': 'str', 'uri': 'uri', 'symbol': 'sym', 'ref': 'ref'}[name.split('_')[-1]]
        v = {'t': t, 'v': hx(s_)}
        if t == 'ref': v['dis'] = None
        return r.ok({'v': v}).result()
    if name == 'haystack_value_make_ref_with_dis':
        a, b = cstr(0), cstr(1)
        if a is None or b is None or utf8(a) is None or utf8(b) is None: return r.fail().result()
        return r.ok({'v': {'t': 'ref', 'v': hx(a), 'dis': hx(b)}}).result()
    if name == 'haystack_value_make_xstr':
        a, b = cstr(0), cstr(1)
        if a is None or b is None or utf8(a) is None or utf8(b) is None: return r.fail().result()
        return r.ok({'v': {'t': 'xstr', 'ty': hx(a), 'v': hx(b)}}).result()
    if name in ('haystack_value_make_time', 'haystack_value_make_time_millis'):
        h, mi, s_ = num(0), num(1), num(2); ms = num(3) if name.endswith('millis') else 0
        # chrono: a millisecond value of 1000..1999 denotes a leap second and is accepted only with sec == 59
        if h > 23 or mi > 59 or s_ > 59 or ms > 1999 or (ms > 999 and s_ != 59): return r.fail().result()
        return r.ok({'v': {'t': 'time', 'h': h, 'mi': mi, 's': s_, 'ns': ms * 1000000}}).result()
    if name == 'haystack_value_make_date':
        y, m, d = num(0), num(1), num(2)
        if not valid_date(y, m, d): return r.fail().result()
        return r.ok({'v': {'t': 'date', 'y': y, 'm': m, 'd': d}}).result()
    if name == 'haystack_value_make_utc_datetime':
        d, t = val(0), val(1)
        if d is None or t is None or d['t'] != 'date' or t['t'] != 'time': return r.fail().result()
        secs = days_from_civil(d['y'], d['m'], d['d']) * 86400 + t['h'] * 3600 + t['mi'] * 60 + t['s']
        return r.ok({'v': {'t': 'dt', 'secs': secs, 'ns': t['ns'], 'off': 0, 'tz': 'UTC'}}).result()
    if name == 'haystack_value_make_tz_datetime':
        d, t, z = val(0), val(1), cstr(2)
        if d is None or t is None or d['t'] != 'date' or t['t'] != 'time' or z is None or utf8(z) is None: return r.fail().result()
        return None        # zone lookup and conversion: what the Rust API returns (native differential)
    # ---- scalar getters
    G = {'haystack_value_get_coord_lat': ('coord', lambda v: {'f': v['lat']}), 'haystack_value_get_coord_long': ('coord', lambda v: {'f': v['lng']}),
         'haystack_value_get_date_year': ('date', lambda v: {'n': str(v['y'] & 0xffffffff)}), 'haystack_value_get_date_month': ('date', lambda v: {'n': str(v['m'])}),
         'haystack_value_get_date_day': ('date', lambda v: {'n': str(v['d'])}),
         'haystack_value_get_time_hour': ('time', lambda v: {'n': str(v['h'])}), 'haystack_value_get_time_minutes': ('time', lambda v: {'n': str(v['mi'])}),
         'haystack_value_get_time_seconds': ('time', lambda v: {'n': str(v['s'])}), 'haystack_value_get_time_millis': ('time', lambda v: {'n': str(v['ns'] // 1000000)}),
         'haystack_value_get_number_value': ('num', lambda v: {'f': v['bits']}),
         'haystack_value_number_has_unit': ('num', lambda v: {'r': 1 if v['unit'] is not None else 0}),
         'haystack_value_get_ref_value_len': ('ref', lambda v: {'n': str(len(unhx(v['v'])))}), 'haystack_value_get_str_len': ('str', lambda v: {'n': str(len(unhx(v['v'])))}),
         'haystack_value_get_symbol_value_len': ('sym', lambda v: {'n': str(len(unhx(v['v'])))}), 'haystack_value_get_uri_value_len': ('uri', lambda v: {'n': str(len(unhx(v['v'])))}),
         'haystack_value_get_list_len': ('list', lambda v: {'n': str(len(v['v']))}), 'haystack_value_get_dict_len': ('dict', lambda v: {'n': str(len(v['v']))}),
         'haystack_value_get_grid_len': ('grid', lambda v: {'n': str(len(v['rows']))})}
    if name in G:
        k, f = G[name]; v = val(0)
        if v is None or v['t'] != k: return r.fail().result()
        return r.ok(f(v)).result()
    S = {'haystack_value_get_str_value': ('str', 'v'), 'haystack_value_get_ref_value': ('ref', 'v'), 'haystack_value_get_ref_dis': ('ref', 'dis'),
         'haystack_value_get_symbol_value': ('sym', 'v'), 'haystack_value_get_uri_value': ('uri', 'v'), 'haystack_value_get_xstr_type': ('xstr', 'ty'),
         'haystack_value_get_xstr_value': ('xstr', 'v')}
    if name in S:
        k, f = S[name]; v = val(0)
        if v is None or v['t'] != k: return r.fail().result()
        if v[f] is None: return r.ok(None).result()                 # a Ref without dis: null, and that is no error
        if b'\0' in unhx(v[f]): return r.fail().result()            # not representable as a C string: error
        return r.ok({'s': v[f]}).result()
    if name == 'haystack_value_get_number_unit':
        v = val(0)
        if v is None or v['t'] != 'num': return r.fail().result()
        if v['unit'] is None: return r.ok(None).result()
        return None        # the unit's symbol: table lookup (native differential against Unit::symbol)
    if name == 'haystack_value_get_datetime_timezone':
        v = val(0)
        if v is None or v['t'] != 'dt': return r.fail().result()
        tz = v['tz']; return r.ok({'s': hx(tz[tz.find('/') + 1:].encode() if '/' in tz else tz.encode())}).result()
    if name in ('haystack_value_get_datetime_date', 'haystack_value_get_datetime_time'):
        v = val(0); res = A[2]
        if v is None or res is None or v['t'] != 'dt': return r.fail().result()
        secs = v['secs'] + (0 if A[1]['b'] else v['off'])
        days, sod = divmod(secs, 86400)
        if name.endswith('date'):
            y, m, d = civil_from_days(days); r.pool[res['h']] = {'t': 'date', 'y': y, 'm': m, 'd': d}
        else:
            r.pool[res['h']] = {'t': 'time', 'h': sod // 3600, 'mi': sod % 3600 // 60, 's': sod % 60, 'ns': v['ns']}
        return r.ok({'r': 1}).result()
    # ---- list
    if name == 'haystack_value_push_list_entry':
        v, e = val(0), val(1)
        if v is None or e is None or v['t'] != 'list': return r.fail().result()
        r.pool[A[0]['h']]['v'].append(copy.deepcopy(e)); return r.ok({'r': 1}).result()
    if name == 'haystack_value_get_list_entry_at':
        v = val(0); i = num(1)
        if v is None or v['t'] != 'list' or i >= len(v['v']) or A[2] is None: return r.fail().result()
        r.outp = {'h': A[0]['h'], 'i': i, 'v': v['v'][i]}; return r.ok({'r': 1}).result()
    if name == 'haystack_value_set_list_entry_at':
        v, e = val(0), val(2); i = num(1)
        if v is None or e is None or v['t'] != 'list' or i >= len(v['v']): return r.fail().result()
        r.pool[A[0]['h']]['v'][i] = copy.deepcopy(e); return r.ok({'r': 1}).result()
    if name == 'haystack_value_remove_list_entry_at':
        v = val(0); i = num(1)
        if v is None or v['t'] != 'list' or i >= len(v['v']): return r.fail().result()
        del r.pool[A[0]['h']]['v'][i]; return r.ok({'r': 1}).result()
    # ---- dict
    def dget(d, k):
        for kk, vv in d['v']:
            if kk == k: return vv
        return None
    if name == 'haystack_value_get_dict_keys':
        v = val(0)
        if v is None or v['t'] != 'dict' or A[1] is None: return r.fail().result()
        r.pool[A[1]['h']] = {'t': 'list', 'v': [{'t': 'str', 'v': k} for k, _ in sorted(v['v'], key=lambda kv: unhx(kv[0]))]}
        return r.ok({'r': 1}).result()
    if name == 'haystack_value_insert_dict_entry':
        v, k, e = val(0), cstr(1), val(2)
        if v is None or k is None or e is None or utf8(k) is None or v['t'] != 'dict': return r.fail().result()
        d = r.pool[A[0]['h']]; d['v'] = [kv for kv in d['v'] if kv[0] != hx(k)] + [[hx(k), copy.deepcopy(e)]]
        d['v'].sort(key=lambda kv: unhx(kv[0])); return r.ok({'r': 1}).result()
    if name == 'haystack_value_get_dict_entry':
        v, k = val(0), cstr(1)
        if v is None or k is None or A[2] is None or utf8(k) is None or v['t'] != 'dict': return r.fail().result()
        e = dget(v, hx(k))
        if e is None: return r.ok({'r': 0}).result()
        r.outp = {'h': A[0]['h'], 'k': hx(k), 'v': e}; return r.ok({'r': 1}).result()
    if name == 'haystack_value_remove_dict_entry':
        v, k = val(0), cstr(1)
        if v is None or k is None or utf8(k) is None or v['t'] != 'dict': return r.fail().result()
        d = r.pool[A[0]['h']]; d['v'] = [kv for kv in d['v'] if kv[0] != hx(k)]; return r.ok({'r': 1}).result()
    # ---- grid
    def grid_from(rows, meta):
        cols = sorted({k for row in rows for k, _ in row}, key=unhx)
        return {'t': 'grid', 'ver': hx(b'3.0'), 'meta': meta, 'cols': [[c, None] for c in cols], 'rows': copy.deepcopy(rows)}
    if name in ('haystack_value_make_grid_from_rows', 'haystack_value_make_grid_from_rows_with_meta'):
        v = val(0)
        if v is None or v['t'] != 'list': return r.fail().result()
        rows = [x['v'] for x in v['v'] if x['t'] == 'dict']
        if not rows: return r.fail().result()
        meta = None
        if name.endswith('with_meta'):
            m = val(1)
            if m is None or m['t'] != 'dict': return r.fail().result()
            meta = copy.deepcopy(m['v'])
        return r.ok({'v': grid_from(rows, meta)}).result()
    if name == 'haystack_value_get_grid_row_at':
        v = val(0); i = num(1)
        if v is None or v['t'] != 'grid' or i >= len(v['rows']) or A[2] is None: return r.fail().result()
        r.pool[A[2]['h']] = {'t': 'dict', 'v': copy.deepcopy(v['rows'][i])}; return r.ok({'r': 1}).result()
    # ---- destroy
    if name == 'haystack_value_destroy':
        if A[0] is not None: r.pool[A[0]['h']] = None
        return r.ok(None).result()
    if name == 'haystack_string_destroy': return r.ok(None).result()
    if name == 'last_error_message': return r.ok(None).result()
    return None      # codecs, filters: native differential against the Rust API
