"""Reference semantics of Haystack filter evaluation (docHaystack Filters), over the symbolic value API.
  or = some operand holds; and = all hold; parens group; `path` holds iff it resolves to a value; `not path` iff it does not;
  `path op val` holds iff the path resolves to a value v that stands in relation op to val: == equal, != unequal, < <= > >= only for
  values of the same kind, ordered as stated; a list satisfies a comparison iff some element does.  How Numbers of different units are
  ordered is left open (-> None = unconstrained).  `a->b`: b is looked up in the dict (or the record the resolver supplies for a Ref)
  that a resolves to.  `x *== @ref`: follow the refs starting at x through the resolver until @ref is found (then true), a non-ref or
  an unknown ref is met, or a ref repeats."""
import z3
from mirsym.values import *
from mirsym.models import deref, eq_scalar, zand, cmp_items
from mirsym.engine import F64


class Sem:
    def __init__(s, ex, resolver=None):
        s.ex = ex; s.prog = ex.prog; s.resolver = resolver or {}

    def vname(s, v): return s.prog.variants(v.ty)[v.variant][0]

    def dict_items(s, d):
        return [(bytes(kv.fields[0].items), kv.fields[1]) for kv in deref(s.ex, d.fields[0]).fields[0].items]

    def conc(s, items):
        if any(is_sym(b) for b in items): raise Unsupported('symbolic name in the reference semantics')
        return bytes(items)

    def lookup(s, d, key):
        for k, v in s.dict_items(d):
            if k == key: return v
        return None

    def resolve(s, rec, segs):
        cur = ('dict', rec)
        for seg in segs:
            if cur is None: return None
            if cur[0] == 'dict': d = cur[1]
            else:
                v = cur[1]; nm = s.vname(v)
                if nm == 'Dict': d = deref(s.ex, v.fields[0])
                elif nm == 'Ref':
                    if not s.resolver: return None      # a record resolves no refs on its own
                    rid = s.conc(deref(s.ex, v.fields[0]).fields[0].items)
                    d = s.resolver.get(rid)
                    if d is None: return None
                else: return None
            nxt = s.lookup(d, bytes(seg))
            if nxt is None or s.vname(nxt) == 'Null': return None
            cur = ('val', nxt)
        return cur[1] if cur[0] == 'val' else None

    def b(s, c): return c if isinstance(c, bool) else s.ex.branch(c)

    def equal(s, a, b):
        na, nb = s.vname(a), s.vname(b)
        if na != nb: return False
        if na in ('Null', 'Marker', 'Remove', 'Na'): return True
        pa, pb = deref(s.ex, a.fields[0]), deref(s.ex, b.fields[0])
        if na == 'Number':
            ua, ub = s.unit(pa), s.unit(pb)
            if ua != ub: return False
            return s.b(s.feq(pa.fields[0], pb.fields[0]))
        if na in ('Str', 'Uri', 'Symbol'): return s.b(zand([len(pa.fields[0].items) == len(pb.fields[0].items)] + [eq_scalar(x, y) for x, y in zip(pa.fields[0].items, pb.fields[0].items)]))
        if na == 'Ref': return s.b(zand([len(pa.fields[0].items) == len(pb.fields[0].items)] + [eq_scalar(x, y) for x, y in zip(pa.fields[0].items, pb.fields[0].items)]))
        if na == 'Bool': return s.b(eq_scalar(pa.fields[0], pb.fields[0]))
        if na == 'List': return len(pa.items) == len(pb.items) and all(s.equal(x, y) for x, y in zip(pa.items, pb.items))
        if na == 'Dict':
            ia, ib = s.dict_items(pa), s.dict_items(pb)
            return [k for k, _ in ia] == [k for k, _ in ib] and all(s.equal(x, y) for (_, x), (_, y) in zip(ia, ib))
        from mirsym.hv import sym_eq
        return s.b(sym_eq(s.ex, pa, pb))

    def unit(s, num):
        u = num.fields[1]
        if u.variant == 0: return None
        return bytes(deref(s.ex, deref(s.ex, u.fields[0]).fields[1]).items[0].items)

    def feq(s, x, y):
        if not is_sym(x) and not is_sym(y): return x == y
        fx = x if is_sym(x) else z3.FPVal(x, F64); fy = y if is_sym(y) else z3.FPVal(y, F64)
        return z3.fpEQ(fx, fy)

    def order(s, a, b):
        """-1/0/1, 'unordered' (different kinds / no order), or None (left open by the specification)"""
        na, nb = s.vname(a), s.vname(b)
        if na != nb: return 'unordered'
        pa, pb = deref(s.ex, a.fields[0]) if a.fields else None, deref(s.ex, b.fields[0]) if b.fields else None
        if na == 'Number':
            if s.unit(pa) != s.unit(pb): return None
            x, y = pa.fields[0], pb.fields[0]
            fx = x if is_sym(x) else z3.FPVal(x, F64); fy = y if is_sym(y) else z3.FPVal(y, F64)
            if not is_sym(x) and not is_sym(y): return (x > y) - (x < y)
            i = s.ex.choose([z3.fpLT(fx, fy), z3.fpEQ(fx, fy), z3.fpGT(fx, fy)])
            return i - 1
        if na in ('Str', 'Uri', 'Symbol', 'Ref'): return cmp_items(s.ex, pa.fields[0].items, pb.fields[0].items)
        if na == 'Bool':
            x, y = s.b(pa.fields[0]), s.b(pb.fields[0]); return (x > y) - (x < y)
        if na in ('Date', 'Time', 'DateTime'):
            from mirsym.models_chrono import naive_cmp, cdt_cmp
            if na == 'DateTime': return cdt_cmp(s.ex, pa.fields[0], pb.fields[0])
            return naive_cmp(s.ex, pa.fields[0], pb.fields[0])
        return None

    def cmp(s, op, v, lit):
        """op: 0 == 1 != 2 < 3 <= 4 > 5 >= ; v resolved value or None"""
        if v is None: return False
        if s.vname(v) == 'List' and s.vname(lit) != 'List':
            rs = [s.cmp(op, el, lit) for el in deref(s.ex, v.fields[0]).items]
            if any(r is True for r in rs): return True
            if any(r is None for r in rs): return None
            return False
        if op == 0: return s.equal(v, lit)
        if op == 1: return not s.equal(v, lit)
        o = s.order(v, lit)
        if o is None: return None
        if o == 'unordered': return False
        return {2: o < 0, 3: o <= 0, 4: o > 0, 5: o >= 0}[op]

    def term(s, t, rec):
        nm = s.vname(t); p = deref(s.ex, t.fields[0])
        segs = lambda path: [seg.fields[0].items for seg in deref(s.ex, path.fields[0]).items]
        if nm == 'Parens': return s.or_(p.fields[0], rec)
        if nm == 'Has': return s.resolve(rec, segs(p.fields[0])) is not None
        if nm == 'Missing': return s.resolve(rec, segs(p.fields[0])) is None
        if nm == 'Cmp': return s.cmp(p.fields[1].variant, s.resolve(rec, segs(p.fields[0])), p.fields[2])
        if nm == 'WildcardEq':
            target = bytes(p.fields[1].fields[0].items)
            seen = set(); cur_rec = rec
            while True:
                v = s.resolve(cur_rec, segs(p.fields[0]))
                if v is None or s.vname(v) != 'Ref': return False
                rid = bytes(deref(s.ex, v.fields[0]).fields[0].items)
                if rid == target: return True
                if rid in seen: return False
                seen.add(rid)
                nxt = s.resolver.get(rid)
                if nxt is None: return False
                if not s.dict_items(nxt): return None
                cur_rec = nxt
        return None

    def and_(s, a, rec):
        rs = [s.term(t, rec) for t in deref(s.ex, a.fields[0]).items]
        if any(r is False for r in rs): return False
        if any(r is None for r in rs): return None
        return True

    def or_(s, o, rec):
        rs = [s.and_(a, rec) for a in deref(s.ex, o.fields[0]).items]
        if any(r is True for r in rs): return True
        if any(r is None for r in rs): return None
        return False
