"""Reference Zinc writer and reader written from the Project Haystack specification (docHaystack: Zinc, Kinds),
not from the crate.  Both work on the symbolic value API (they fork instead of sampling).

Grammar clauses implemented (Zinc chapter):
  grid     := [ "<<" nl ] "ver:" str [ " " tags ] nl cols nl row* [ ">>" ]      (nested grids are wrapped in << >>)
  cols     := col ("," col)* ;  col := id [ " " tags ]
  row      := cell ("," cell)* nl ;  cell := [ val ]          (empty cell = missing tag; N = explicit null)
  tags     := tag ((" " | ",") tag)* ;  tag := id [ ":" val ]  (no value = Marker)
  list     := "[" [ val ("," val)* [","] ] "]"   dict := "{" [ tags ] "}"
  scalars  := N | M | R | NA | T | F | NaN | INF | -INF | number[unit] | "str" | `uri` | @ref [ " " str ] | ^symbol
              | YYYY-MM-DD | hh:mm:ss[.FFF] | dateTime | C(lat,lng) | Type("str")
  str escapes: \\b \\f \\n \\r \\t \\" \\\\ \\$ \\uXXXX ;  uri escapes: \\` and \\uXXXX
  number   := ["-"] digits ("_" | digit)* ["." digits] [("e"|"E") ["+"|"-"] digits] ; unit chars: alpha, %, _, /, $, > 0x80
"""
import z3
from mirsym.values import *
from mirsym.models import deref, eq_scalar, in_range, zor, zand, znot
from mirsym.models_coll import utf8_width
from mirsym.models_num import parse_f64_bytes, f64_display


class SpecError(Exception):
    pass


HEXL = b'0123456789abcdef'


def hex_nibble(n, upper=False):
    a = 55 if upper else 87
    if not is_sym(n): return (48 + n) if n < 10 else (a + n)
    return z3.simplify(z3.If(z3.ULT(n, 10), n + 48, n + a))


# --------------------------------------------------------------------------- writer (with spelling choices)
class Writer:
    """ch(n) picks one of n legal spellings (ex.pick for 'all spellings', lambda n: 0 for the plain one)"""
    def __init__(s, ex, ch, nl=b'\n'):
        s.ex = ex; s.ch = ch; s.nl = list(nl); s.prog = ex.prog

    def name(s, v): return s.prog.variants(v.ty)[v.variant][0]

    def text(s, items, quote, extra_plain=()):
        """escape a Str/dis/XStr body; byte-wise for ASCII, multi-byte sequences raw"""
        ex = s.ex; out = [quote]
        i = 0; items = list(items)
        while i < len(items):
            b = items[i]
            w = utf8_width(ex, b)
            if w > 1:
                # raw UTF-8, or - for a char of the basic plane, once per text - the equivalent \uXXXX spelling
                if w < 4 and not getattr(s, '_u_spelled', False) and s.ch(2) == 1:
                    s._u_spelled = True
                    from mirsym.models_coll import decode_utf8_char
                    c = decode_utf8_char(ex, items[i:i + w])
                    up = s.ch(2) == 1
                    nib = lambda k: (z3.Extract(7, 0, z3.LShR(c, k) & 15) if is_sym(c) else (c >> k) & 15)
                    out += [92, 117] + [hex_nibble(nib(12), up), hex_nibble(nib(8), up), hex_nibble(nib(4), up), hex_nibble(nib(0), up)]
                else:
                    out += items[i:i + w]
                i += w; continue
            specials = [(34, [92, 34]), (92, [92, 92]), (36, [92, 36]), (10, [92, 110]), (13, [92, 114]), (9, [92, 116]), (8, [92, 98]), (12, [92, 102])]
            done = False
            for code, esc in specials:
                if ex.branch(eq_scalar(b, code)):
                    # a short escape, or the equivalent \uXXXX
                    if s.ch(2) == 0: out += esc
                    else: out += [92, 117, 48, 48] + [hex_nibble(code >> 4), hex_nibble(code & 15, s.ch(2) == 1)]
                    done = True; break
            if done: i += 1; continue
            if ex.branch(in_range(b, 0, 0x1f)):
                hi = z3.LShR(b, 4) if is_sym(b) else b >> 4; lo = (b & 15)
                out += [92, 117, 48, 48, hex_nibble(hi), hex_nibble(lo, s.ch(2) == 1)]
            else:
                # printable ASCII: raw, or (a legal alternative spelling) \uXXXX
                if s.ch(2) == 1:
                    hi = z3.LShR(b, 4) if is_sym(b) else b >> 4; lo = (b & 15)
                    out += [92, 117, 48, 48, hex_nibble(hi), hex_nibble(lo)]
                else: out.append(b)
            i += 1
        return out + [quote]

    def uri(s, items):
        ex = s.ex; out = [96]; items = list(items); i = 0
        while i < len(items):
            b = items[i]; w = utf8_width(ex, b)
            if w > 1:
                out += items[i:i + w]; i += w; continue
            if ex.branch(eq_scalar(b, 96)): out += [92, 96]
            else: out.append(b)
            i += 1
        return out + [96]

    def number(s, n):
        ex = s.ex
        val = n.fields[0]; u = n.fields[1]
        if not is_sym(val):
            if val != val: return list(b'NaN')
            if val in (float('inf'), float('-inf')): return list(b'INF' if val > 0 else b'-INF')
        digits = f64_display(ex, val)
        # spelling: '_' separator after the first integer digit when there are >= 2 integer digits; exponent form for integers
        k = s.ch(4 if (not is_sym(val) and val == val and val not in (float('inf'), float('-inf')) and val != 0) else 3)
        if k == 3:
            # scientific notation of the same decimal: d.ddd E exp (any decimal text that denotes the value is a legal spelling)
            from decimal import Decimal
            sign, dg, e10 = Decimal(repr(float(val))).as_tuple()
            dg = list(dg)
            while len(dg) > 1 and dg[-1] == 0: dg.pop(); e10 += 1
            exp = len(dg) - 1 + e10
            mant = str(dg[0]) + ('.' + ''.join(map(str, dg[1:])) if len(dg) > 1 else '')
            style = s.ch(3)
            text = ('-' if sign else '') + mant + ('E' if style != 1 else 'e') + ('+' if (style == 2 and exp >= 0) else '') + str(exp)
            digits = list(text.encode())
        ip_end = len(digits)
        for j, d in enumerate(digits):
            if not is_sym(d) and d == 46: ip_end = j; break
        start = 1 if (digits and not is_sym(digits[0]) and digits[0] == 45) else 0
        if k == 1 and ip_end - start >= 2: digits = digits[:start + 1] + [95] + digits[start + 1:]
        elif k == 2 and ip_end == len(digits): digits = digits + list(b'e0' if s.ch(2) else b'E+0')
        out = list(digits)
        if u.variant == 1:
            unit = deref(ex, u.fields[0]); ids = deref(ex, unit.fields[1]).items
            # any identifier of the unit denotes it; the symbol (last) and the name (first) are both legal
            ident = ids[-1] if s.ch(2) == 0 else ids[0]
            out += list(ident.items)
        return out

    def tags(s, d, sep_choice=True):
        items = deref(s.ex, d.fields[0]).fields[0].items; out = []
        for k, kv in enumerate(items):
            if k: out += [32] if (not sep_choice or s.ch(2) == 0) else [44]
            out += list(kv.fields[0].items)
            if s.name(kv.fields[1]) != 'Marker' or s.ch(2) == 1:
                out += [58] + s.value(kv.fields[1], nested=True)
        return out

    def grid(s, g, nested):
        ex = s.ex; out = []
        if nested: out += [60, 60] + s.nl
        out += list(b'ver:"3.0"')
        meta = g.fields[0]
        if meta.variant == 1 and deref(ex, meta.fields[0].fields[0]).fields[0].items:
            out += [32] + s.tags(meta.fields[0], sep_choice=False)
        out += s.nl
        cols = g.fields[1].items
        for k, c in enumerate(cols):
            if k: out += [44]
            out += list(c.fields[0].items)
            cm = c.fields[1]
            if cm.variant == 1 and deref(ex, cm.fields[0].fields[0]).fields[0].items: out += [32] + s.tags(cm.fields[0], sep_choice=False)
        out += s.nl
        for r in g.fields[2].items:
            rows = {bytes(kv.fields[0].items): kv.fields[1] for kv in deref(ex, r.fields[0]).fields[0].items}
            for k, c in enumerate(cols):
                if k: out += [44]
                v = rows.get(bytes(c.fields[0].items))
                if v is not None: out += s.value(v, nested=True)
            out += s.nl
        if nested: out += [62, 62]
        return out

    def value(s, v, nested=False):
        ex = s.ex; nm = s.name(v)
        if nm == 'Null': return [78]
        if nm == 'Marker': return [77]
        if nm == 'Remove': return [82]
        if nm == 'Na': return [78, 65]
        p = deref(ex, v.fields[0])
        if nm == 'Bool': return [84] if ex.branch(p.fields[0]) else [70]
        if nm == 'Number': return s.number(p)
        if nm == 'Str': return s.text(p.fields[0].items, 34)
        if nm == 'Uri': return s.uri(p.fields[0].items)
        if nm == 'Symbol': return [94] + list(p.fields[0].items)
        if nm == 'Ref':
            out = [64] + list(p.fields[0].items)
            if p.fields[1].variant == 1: out += [32] + s.text(p.fields[1].fields[0].items, 34)
            return out
        if nm == 'XStr': return list(p.fields[0].items) + [40] + s.text(p.fields[1].items, 34) + [41]
        if nm == 'Coord': return list(b'C(') + f64_display(ex, p.fields[0]) + [44] + f64_display(ex, p.fields[1]) + [41]
        if nm in ('Date', 'Time', 'DateTime'):
            from mirsym import models_chrono as ch
            if nm == 'Date': return ch.d_naive_date(ex, p.fields[0], None)
            if nm == 'Time': return ch.d_naive_time(ex, p.fields[0], None)
            c = p.fields[0]
            n = c.fields[0]; off = c.fields[1]; tz = c.fields[2].fields[0]
            out = ch.d_naive_date(ex, n.fields[0], None) + [84] + ch.d_naive_time(ex, n.fields[1], None)
            if tz == 'UTC': return out + ([90] if s.ch(2) == 0 else list(b'Z UTC'))
            return out + ch.offset_text(ex, off) + [32] + list(tz.split('/', 1)[-1].encode())
        if nm == 'List':
            out = [91]
            for k, x in enumerate(p.items):
                if k: out += [44] + ([32] if s.ch(2) else [])
                out += s.value(x, nested=True)
            if p.items and s.ch(2): out += [44]
            return out + [93]
        if nm == 'Dict': return [123] + s.tags(p) + [125]
        if nm == 'Grid': return s.grid(p, nested)
        raise SpecError('kind ' + nm)


# --------------------------------------------------------------------------- reader
class Reader:
    """reads exactly the grammar above from a byte list with symbolic items; builds values with HV"""
    def __init__(s, ex, h, items):
        s.ex = ex; s.h = h; s.t = list(items); s.i = 0

    def peek(s, k=0): return s.t[s.i + k] if s.i + k < len(s.t) else None
    def eof(s): return s.i >= len(s.t)

    def at(s, code, k=0):
        b = s.peek(k)
        if b is None: return False
        return s.ex.branch(eq_scalar(b, code))

    def at_any(s, codes, k=0):
        b = s.peek(k)
        if b is None: return False
        return s.ex.branch(zor([eq_scalar(b, c) for c in codes]))

    def at_range(s, lo, hi, k=0):
        b = s.peek(k)
        if b is None: return False
        return s.ex.branch(in_range(b, lo, hi))

    def expect(s, code):
        if not s.at(code): raise SpecError('expected %r at %d' % (chr(code), s.i))
        s.i += 1

    def lit(s, bs):
        for c in bs: s.expect(c)

    def nl(s):
        if s.at(13):
            s.i += 1
            if s.at(10): s.i += 1
            return
        s.expect(10)

    def is_idstart(s, k=0): return s.at_range(97, 122, k)
    def is_idchar(s): return s.at_range(97, 122) or s.at_range(65, 90) or s.at_range(48, 57) or s.at(95)

    def ident(s):
        if not s.is_idstart(): raise SpecError('id expected at %d' % s.i)
        out = [s.t[s.i]]; s.i += 1
        while not s.eof() and s.is_idchar(): out.append(s.t[s.i]); s.i += 1
        return out

    def hexval(s):
        b = s.peek()
        if b is None: raise SpecError('hex digit expected')
        if s.at_range(48, 57): v = b - 48
        elif s.at_range(97, 102): v = b - 87
        elif s.at_range(65, 70): v = b - 55
        else: raise SpecError('hex digit expected at %d' % s.i)
        s.i += 1
        return z3.simplify(v) if is_sym(v) else v

    def str_body(s, quote=34, uri=False):
        from mirsym.models_coll import encode_utf8
        s.expect(quote); out = []
        while True:
            if s.eof(): raise SpecError('unterminated string')
            if s.at(quote): s.i += 1; return out
            if s.at(92):
                s.i += 1
                if s.eof(): raise SpecError('bad escape')
                if s.at(117):
                    s.i += 1
                    ds = [s.hexval() for _ in range(4)]
                    z = lambda d: z3.ZeroExt(24, d) if is_sym(d) else d
                    cp = (z(ds[0]) << 12) | (z(ds[1]) << 8) | (z(ds[2]) << 4) | z(ds[3])
                    if is_sym(cp): cp = z3.simplify(cp)
                    out += encode_utf8(s.ex, cp); continue
                table = [(96, 96)] if uri else [(98, 8), (102, 12), (110, 10), (114, 13), (116, 9), (34, 34), (92, 92), (36, 36)]
                for code, val in table:
                    if s.at(code): s.i += 1; out.append(val); break
                else:
                    raise SpecError('bad escape at %d' % s.i)
                continue
            out.append(s.t[s.i]); s.i += 1

    def number_or_date(s):
        h = s.h; ex = s.ex
        start = s.i
        # date / time / dateTime by shape
        def dig(k): return s.at_range(48, 57, k)
        if all(dig(k) for k in range(4)) and s.at(45, 4):
            y = s.t[s.i:s.i + 4]; s.i += 5
            mo = s.t[s.i:s.i + 2]; s.i += 2; s.expect(45); d = s.t[s.i:s.i + 2]; s.i += 2
            from mirsym.models_chrono import dval
            Y, M, D = dval(y), dval(mo), dval(d)
            if s.at(84):
                s.i += 1
                hh, mi, ss, ns = s.time_fields()
                if s.at(90):
                    s.i += 1
                    if s.at(32) and s.at_range(65, 90, 1): s.i += 1; tz = s.tzname()
                    else: tz = b'UTC'
                    off = 0
                else:
                    neg = s.at(45)
                    if not neg: s.expect(43)
                    else: s.i += 1
                    oh = dval(s.t[s.i:s.i + 2]); s.i += 2; s.expect(58); om = dval(s.t[s.i:s.i + 2]); s.i += 2
                    off = (oh * 3600 + om * 60); off = -off if neg else off
                    s.expect(32); tz = s.tzname()
                name = 'UTC' if tz == b'UTC' else resolve_city(tz.decode())
                return h.dt(Y, M, D, hh, mi, ss, ns, off, name)
            return h.date(Y, M, D)
        if dig(0) and dig(1) and s.at(58, 2):
            hh, mi, ss, ns = s.time_fields()
            return h.time(hh, mi, ss, ns)
        # number
        txt = []
        if s.at(45): txt.append(45); s.i += 1
        if s.at(73):
            s.lit(b'INF'); return h.num(float('-inf') if txt else float('inf'))
        if not dig(0): raise SpecError('digit expected at %d' % s.i)
        while not s.eof() and (s.at_range(48, 57) or s.at(95)):
            if not s.at(95): txt.append(s.t[s.i])
            s.i += 1
        if s.at(46) and s.at_range(48, 57, 1):
            txt.append(46); s.i += 1
            while not s.eof() and s.at_range(48, 57): txt.append(s.t[s.i]); s.i += 1
        if s.at_any((101, 69)) and (s.at_range(48, 57, 1) or (s.at_any((43, 45), 1) and s.at_range(48, 57, 2))):
            txt.append(101); s.i += 1
            if s.at_any((43, 45)): txt.append(s.t[s.i]); s.i += 1
            while not s.eof() and s.at_range(48, 57): txt.append(s.t[s.i]); s.i += 1
        val = parse_f64_bytes(ex, txt)
        if val is None: raise SpecError('number text')
        unit = []
        while not s.eof() and (s.at_range(97, 122) or s.at_range(65, 90) or s.at_any((37, 95, 47, 36)) or s.at_range(0x80, 0xff)):
            unit.append(s.t[s.i]); s.i += 1
        if unit:
            if any(is_sym(b) for b in unit): raise SpecError('symbolic unit text')
            return h.num(val, bytes(unit).decode('utf-8'))
        return h.num(val)

    def time_fields(s):
        from mirsym.models_chrono import dval
        hh = dval(s.t[s.i:s.i + 2]); s.i += 2; s.expect(58); mi = dval(s.t[s.i:s.i + 2]); s.i += 2; s.expect(58)
        ss = dval(s.t[s.i:s.i + 2]); s.i += 2; ns = 0
        if s.at(46):
            s.i += 1; fd = []
            while not s.eof() and s.at_range(48, 57): fd.append(s.t[s.i]); s.i += 1
            ns = dval((fd + [48] * 9)[:9])
        return hh, mi, ss, ns

    def tzname(s):
        out = []
        while not s.eof() and (s.at_range(97, 122) or s.at_range(65, 90) or s.at_range(48, 57) or s.at_any((95, 47, 43, 45))):
            b = s.t[s.i]
            if is_sym(b): raise SpecError('symbolic zone name')
            out.append(b); s.i += 1
        return bytes(out)

    def tags(s, closers, seps=(32, 44)):
        pairs = []
        while not s.eof() and s.is_idstart():
            k = s.ident()
            if s.at(58): s.i += 1; v = s.value()
            else: v = s.h.marker()
            if any(is_sym(b) for b in k): raise SpecError('symbolic tag name')
            pairs.append((bytes(k), v))
            if s.at_any(seps) and not (s.peek(1) is None):
                # separator only when another tag follows
                if s.is_idstart(1): s.i += 1
                else: break
        return pairs

    def value(s):
        h = s.h
        if s.eof(): raise SpecError('value expected')
        if s.at(34): return h.str_(s.str_body())
        if s.at(96): return h.uri(s.str_body(96, uri=True))
        if s.at(64):
            s.i += 1; idv = []
            while not s.eof() and (s.at_range(97, 122) or s.at_range(65, 90) or s.at_range(48, 57) or s.at_any((95, 58, 45, 46, 126))):
                idv.append(s.t[s.i]); s.i += 1
            if not idv: raise SpecError('empty ref')
            dis = None
            if s.at(32) and s.at(34, 1): s.i += 1; dis = s.str_body()
            return h.ref(idv, dis)
        if s.at(94):
            s.i += 1; sv = []
            while not s.eof() and (s.at_range(97, 122) or s.at_range(65, 90) or s.at_range(48, 57) or s.at_any((95, 58, 45, 46, 126))):
                sv.append(s.t[s.i]); s.i += 1
            return h.sym(sv)
        if s.at(91):
            s.i += 1; xs = []
            while True:
                while s.at(32): s.i += 1
                if s.at(93): s.i += 1; break
                xs.append(s.value())
                while s.at(32): s.i += 1
                if s.at(44): s.i += 1; continue
                s.expect(93); break
            return h.list_(xs)
        if s.at(123):
            s.i += 1
            pairs = s.tags((125,)); s.expect(125)
            return h.dict_(pairs)
        if s.at(60) and s.at(60, 1):
            s.i += 2; s.nl()
            g = s.grid_body(nested=True)
            s.lit(b'>>'); return g
        if s.at_range(48, 57) or s.at(45): return s.number_or_date()
        if s.at_range(65, 90):
            word = []
            while not s.eof() and (s.at_range(65, 90) or s.at_range(97, 122) or s.at_range(48, 57) or s.at(95)): word.append(s.t[s.i]); s.i += 1
            if s.at(40):
                if word == [67]:
                    s.i += 1; a = s.coord_num(); s.expect(44); b = s.coord_num(); s.expect(41)
                    return h.coord(a, b)
                s.i += 1; v = s.str_body(); s.expect(41)
                return h.xstr(word, v)
            if any(is_sym(b) for b in word):
                raise SpecError('symbolic keyword')
            w = bytes(word)
            table = {b'N': h.null, b'M': h.marker, b'R': h.remove, b'NA': h.na, b'T': lambda: h.bool_(True), b'F': lambda: h.bool_(False),
                     b'NaN': lambda: h.num(float('nan')), b'INF': lambda: h.num(float('inf'))}
            if w in table: return table[w]()
            raise SpecError('keyword %r' % w)
        if s.is_idstart():
            return s.grid_body(nested=False)
        raise SpecError('unexpected byte at %d' % s.i)

    def coord_num(s):
        txt = []
        if s.at(45): txt.append(45); s.i += 1
        while not s.eof() and (s.at_range(48, 57) or s.at(46)): txt.append(s.t[s.i]); s.i += 1
        v = parse_f64_bytes(s.ex, txt)
        if v is None: raise SpecError('coord number')
        return v

    def grid_body(s, nested):
        s.lit(b'ver:'); ver = s.str_body()
        meta = None
        if s.at(32): s.i += 1; meta = s.tags((10, 13), seps=(32,)) or None
        s.nl()
        cols = []
        while True:
            name = s.ident()
            if any(is_sym(b) for b in name): raise SpecError('symbolic column name')
            cm = None
            if s.at(32): s.i += 1; cm = s.tags((44, 10, 13), seps=(32,)) or None
            cols.append((bytes(name), cm))
            if s.at(44): s.i += 1; continue
            break
        s.nl()
        rows = []
        while not s.eof() and not (nested and s.at(62)) and not s.at_any((10, 13)):
            pairs = []; k = 0
            while True:
                if not s.at_any((44, 10, 13)):
                    v = s.value()
                    if k >= len(cols): raise SpecError('more cells than columns')
                    pairs.append((cols[k][0], v))
                if s.at(44): s.i += 1; k += 1; continue
                break
            s.nl(); rows.append(pairs)
        if not nested and not s.eof(): s.nl()      # the blank line that ends a top-level grid
        if cols == [(b'empty', None)] and not rows: pass
        return s.h.grid(meta, cols, rows, bytes(ver) if not any(is_sym(b) for b in ver) else ver)


PREFIXES = ["Africa", "America", "Asia", "Atlantic", "Australia", "Brazil", "Canada", "Chile", "Etc", "Europe", "Indian", "Mexico", "Pacific", "US"]


def resolve_city(city):
    """Haystack names zones by city: the zone id is <Region>/<city> for the region that has it (docHaystack TimeZones)"""
    from mirsym.models_chrono import zone_names
    zs = set(zone_names())
    if city in zs: return city
    for p in PREFIXES:
        if p + '/' + city in zs: return p + '/' + city
    raise SpecError('zone ' + city)
