"""Parallel driver for mirsym explorations: templates x decision-trace prefixes over a process pool,
native cross-validation of one solver model per explored path, aggregation into the run context."""
import os, sys, time, json, traceback, multiprocessing as mp, collections
import z3
from mirsym import load, models
from mirsym.engine import Exec, PathResult
from mirsym.values import *
from vlib import native

_G = {}


class Frontier(Exception):
    pass


def _init_worker():
    pass


def make_exec(prog, max_steps=40000, max_depth=60):
    ex = Exec(prog, max_steps=max_steps, max_depth=max_depth)
    models.install(ex)
    return ex


def _explore(job):
    """worker: explore the subtree below `prefix` of template `ti`; returns (summaries, stats)"""
    mod, ti, prefix, split_depth, budget = job
    try:
        tmpls = _G['templates']; prog = _G['prog']; module = _G['module']
        t = tmpls[ti]
        ex = make_exec(prog, max_steps=t.get('max_steps', _G['max_steps']), max_depth=t.get('max_depth', _G['max_depth']))
        ex.split_depth = split_depth
        out = []; frontier = []
        deadline = time.time() + budget if budget else None

        def run(e):
            return module.path(e, t)

        def post(e, r):
            s = module.post(e, t, r)
            if s is not None:
                s['template'] = t['name']; s['kind'] = s.get('kind', r.kind); s['steps'] = r.steps
                s['maxdepth'] = r.info.get('maxdepth', 0)
                out.append(s)
            return None
        # exploration with frontier cut
        ex.pending = [list(prefix)]
        left = []
        while ex.pending:
            if deadline is not None and time.time() > deadline:
                left = ex.pending; ex.pending = []; break
            tr = ex.pending.pop()
            ex.reset_path(); ex.trace = tr
            try:
                v = run(ex); r = PathResult('ok', v)
            except Frontier:
                frontier.append(list(ex.trace[:ex.pos])); continue
            except Panic as p:
                r = PathResult('panic', None, '%s: %s' % (p.kind, p.msg), p.where)
            except BoundExceeded as b:
                r = PathResult('bound', None, b.what, b.where)
            except Unsupported as u:
                r = PathResult('unsupported', None, str(u), ex.where())
            except Infeasible:
                continue
            except RecursionError:
                r = PathResult('bound', None, 'python recursion limit (call depth)')
            except (AttributeError, TypeError, KeyError, IndexError, ValueError, AssertionError, z3.Z3Exception) as e:
                tb = traceback.extract_tb(sys.exc_info()[2])[-1]
                r = PathResult('unsupported', None, 'internal %s: %s (%s:%d)' % (type(e).__name__, str(e)[:80], os.path.basename(tb.filename), tb.lineno), ex.where())
            r.trace = list(ex.trace); r.steps = ex.steps; r.info['maxdepth'] = ex.maxdepth_seen
            ex.stats['paths'] += 1
            try:
                post(ex, r)
            except Unsupported as u:
                out.append({'template': t['name'], 'kind': 'unsupported', 'detail': 'post: ' + str(u), 'steps': r.steps, 'maxdepth': 0})
        st = ex.stats
        stats = {'paths': st['paths'], 'checks': st['checks'], 'solver_s': st['solver_s'], 'blocks': st['blocks'],
                 'bodies': sorted(st['bodies']), 'models': sorted(st['models']), 'left': 0}
        return (ti, out, frontier + [list(x) for x in left], stats, None)
    except Exception:
        return (job[1], [], [], {}, traceback.format_exc())


def patch_choose_for_split():
    """install the frontier cut into Exec.choose (once)"""
    if getattr(Exec, '_split_patched', False): return
    orig = Exec.choose

    def choose(s, conds, labels=None):
        sd = getattr(s, 'split_depth', None)
        if sd is not None and s.pos >= len(s.trace) and s.pos >= sd and sum(1 for c in conds if c is not False) > 1:
            raise Frontier()
        return orig(s, conds, labels)
    Exec.choose = choose
    Exec._split_patched = True


def explore_templates(ctx, module, templates, prog, split_depth=6, max_steps=40000, max_depth=60, budget_s=None):
    """-> list of path summaries (dicts).  Splits each template at `split_depth` choices and farms the
    subtrees out to ctx.jobs processes."""
    patch_choose_for_split()
    _G.update(templates=templates, prog=prog, module=module, max_steps=max_steps, max_depth=max_depth)
    jobs = ctx.jobs
    t0 = time.time()
    summaries = []
    agg = {'paths': 0, 'checks': 0, 'solver_s': 0.0, 'blocks': 0, 'bodies': set(), 'models': set(), 'left': 0}
    errors = []

    def absorb(res):
        ti, out, frontier, stats, e = res
        if e:
            errors.append((templates[ti]['name'], e)); return []
        summaries.extend(out)
        for k in ('paths', 'checks', 'solver_s', 'blocks', 'left'): agg[k] += stats.get(k, 0)
        agg['bodies'].update(stats.get('bodies', [])); agg['models'].update(stats.get('models', []))
        return [(ti, f) for f in frontier]

    deadline = time.time() + budget_s if budget_s else None
    slice_s = 8.0 if budget_s and budget_s <= 400 else 30.0
    with mp.get_context('fork').Pool(jobs, initializer=_init_worker) as pool:
        # phase 1: cut every template at `split_depth` choices; phase 2: explore the subtrees in time slices,
        # re-queueing what a slice leaves over, until the queue is empty or the global budget is spent
        queue = []
        for res in pool.imap_unordered(_explore, [(None, ti, [], split_depth, None) for ti in range(len(templates))]):
            queue.extend(absorb(res))
        import random
        random.Random(ctx.seed).shuffle(queue)
        running = []
        while queue or running:
            while queue and len(running) < jobs * 2:
                ti, f = queue.pop()
                running.append(pool.apply_async(_explore, ((None, ti, f, None, slice_s),)))
            still = []
            for r in running:
                if r.ready(): queue.extend(absorb(r.get()))
                else: still.append(r)
            running = still
            if deadline is not None and time.time() > deadline:
                agg['left'] += len(queue); queue = []
                if not running: break
            time.sleep(0.02)
    ctx.cov['states'] += agg['paths']; ctx.cov['transitions'] += agg['blocks']
    ctx.cov['queries'] += agg['checks']; ctx.cov['solver_s'] = round(ctx.cov['solver_s'] + agg['solver_s'], 2)
    ctx.add_functions(b for b in agg['bodies']); ctx.add_models(agg['models'])
    if agg['left']:
        ctx.note_inconclusive('%d pending path prefixes were not explored within the time budget' % agg['left'])
    for name, e in errors:
        ctx.note_inconclusive('worker failed on template %s: %s' % (name, e.strip().split('\n')[-1]))
        sys.stderr.write(e)
    return summaries


def native_check(ctx, summaries, profile='dev', timeout=5.0):
    """run every summary's native case; sets s['native'] and returns the list of mismatching summaries"""
    binary = native.build(profile)
    cases = [(i, s['native_case']) for i, s in enumerate(summaries) if s.get('native_case') is not None]
    if not cases: return []
    jobs = max(1, min(ctx.jobs, len(cases) // 50 + 1))
    # modest batches (a few hundred cases per task): very large runs otherwise push hundreds of megabytes through one
    # pickle per worker, and one stuck task would hold everything
    size = max(50, min(400, len(cases) // jobs + 1))
    chunks = [cases[k:k + size] for k in range(0, len(cases), size)]
    with mp.get_context('fork').Pool(jobs) as pool:
        for ci, rs in pool.imap_unordered(_native_chunk_indexed, [(ci, binary, [c for _, c in ch], timeout) for ci, ch in enumerate(chunks)]):
            for (i, _), r in zip(chunks[ci], rs):
                summaries[i]['native'] = r
    return cases


def _native_chunk_indexed(job):
    ci, binary, cases, timeout = job
    return ci, native.run_cases(binary, cases, timeout)


def _native_chunk(binary, cases, timeout):
    return native.run_cases(binary, cases, timeout)
