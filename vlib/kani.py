"""Engine K: run Kani proof harnesses of /verif/kani (path dependency on /repo) and collect verdicts + counterexamples."""
import os, re, subprocess, time, json

ROOT = os.path.dirname(os.path.dirname(os.path.abspath(__file__)))


def run(harnesses, timeout=900, mem_gb=12):
    """-> dict name -> {'status': 'ok'|'failed'|'inconclusive', 'failed_checks': [...], 'inputs': [[bytes]...], 'time_s', 'covers': (sat, total)}"""
    lockfile = os.path.join(ROOT, 'kani', 'Cargo.lock')
    if not os.path.exists(lockfile):
        try: open(lockfile, 'w').write(open('/repo/Cargo.lock').read())
        except OSError: pass
    cmd = ['cargo', 'kani', '--output-format', 'terse', '--target-dir', os.path.join(ROOT, '.cache', 'kani-target'),
           '-Z', 'stubbing', '-Z', 'concrete-playback', '--concrete-playback=print']
    for h in harnesses: cmd += ['--harness', 'k::' + h]
    env = dict(os.environ, CARGO_NET_OFFLINE='true'); env.pop('RUSTFLAGS', None)
    t0 = time.time()
    pre = 'ulimit -v %d; exec "$@"' % (mem_gb << 20)
    try:
        p = subprocess.run(['bash', '-c', pre, 'kani'] + cmd, cwd=os.path.join(ROOT, 'kani'), env=env, stdout=subprocess.PIPE, stderr=subprocess.STDOUT, timeout=timeout)
        out = p.stdout.decode('utf-8', 'replace')
    except subprocess.TimeoutExpired as e:
        out = (e.stdout or b'').decode('utf-8', 'replace') + '\nTIMEOUT'
    res = {h: {'status': 'inconclusive', 'failed_checks': [], 'inputs': None, 'stub_seen': False, 'detail': 'no result'} for h in harnesses}
    cur = None
    blocks = re.split(r'(?m)^Checking harness k::(\w+)\.\.\.', out)
    # blocks: [pre, name1, text1, name2, text2, ...]
    for i in range(1, len(blocks) - 1, 2):
        name, text = blocks[i], blocks[i + 1]
        if name not in res: continue
        r = res[name]
        r['stub_seen'] = 'Stub: std :: fmt :: format' in text
        m = re.search(r'VERIFICATION:- (\w+)', text)
        tm = re.search(r'Verification Time: ([\d.]+)s', text)
        if tm: r['time_s'] = float(tm.group(1))
        cm = re.search(r'\*\* (\d+) of (\d+) cover properties satisfied', text)
        if cm: r['covers'] = (int(cm.group(1)), int(cm.group(2)))
        if not m or 'Status: ERROR' in text or 'CBMC failed' in text:
            r['detail'] = text.strip()[-300:]; continue
        if m.group(1) == 'SUCCESSFUL':
            r['status'] = 'ok'; r['detail'] = ''
        else:
            r['status'] = 'failed'
            r['failed_checks'] = re.findall(r'Failed Checks: (.*)', text)
            vals = re.search(r'let concrete_vals: Vec<Vec<u8>> = vec!\[(.*?)\n    \];', text, re.S)
            if vals:
                r['inputs'] = [[int(x) for x in re.findall(r'\d+', v)] for v in re.findall(r'vec!\[([^\]]*)\]', vals.group(1))]
    if 'error: could not compile' in out or 'error[' in out:
        for r in res.values(): r['detail'] = 'harness crate does not compile: ' + out[-400:]
    return res, time.time() - t0, out
