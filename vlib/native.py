"""Native replay: build /verif/replay against /repo's current tree and run cases through it.
A case that hangs or aborts the process is reported as {"hang":..} / {"abort":..}; the rest of the batch continues."""
import os, json, subprocess, time, select, fcntl

ROOT = os.path.dirname(os.path.dirname(os.path.abspath(__file__)))
TARGET = os.path.join(ROOT, '.cache', 'replay-target')


def build(profile='dev', quiet=True):
    """(re)build the replay binary; cargo's own fingerprints pick up any change under /repo/src"""
    os.makedirs(os.path.join(ROOT, '.cache'), exist_ok=True)
    lock = open(os.path.join(ROOT, '.cache', 'replay.lock'), 'w')
    fcntl.flock(lock, fcntl.LOCK_EX)
    try:
        lockfile = os.path.join(ROOT, 'replay', 'Cargo.lock')
        try:
            with open('/repo/Cargo.lock') as f: want = f.read()
            if not os.path.exists(lockfile): open(lockfile, 'w').write(want)
        except OSError:
            pass
        # the C API dispatcher is regenerated from /repo/src/c_api on every build
        import importlib.util
        spec = importlib.util.spec_from_file_location('gen_capi', os.path.join(ROOT, 'tools', 'gen_capi.py'))
        g = importlib.util.module_from_spec(spec); spec.loader.exec_module(g); g.write(os.environ.get('VERIF_REPO', '/repo'))
        cmd = ['cargo', 'build', '--offline'] + (['--release'] if profile == 'release' else [])
        env = dict(os.environ, CARGO_TARGET_DIR=TARGET, CARGO_NET_OFFLINE='true')
        env.pop('RUSTFLAGS', None)
        p = subprocess.run(cmd, cwd=os.path.join(ROOT, 'replay'), env=env, stdout=subprocess.PIPE, stderr=subprocess.STDOUT)
        if p.returncode != 0:
            raise RuntimeError('replay build failed:\n' + p.stdout.decode('utf-8', 'replace')[-4000:])
        return os.path.join(TARGET, 'release' if profile == 'release' else 'debug', 'verif-replay')
    finally:
        fcntl.flock(lock, fcntl.LOCK_UN); lock.close()


def run_cases(binary, cases, per_case_timeout=5.0):
    """-> list of result dicts, same order as cases"""
    out = [None] * len(cases)
    i = 0
    while i < len(cases):
        p = subprocess.Popen([binary], stdin=subprocess.PIPE, stdout=subprocess.PIPE, stderr=subprocess.DEVNULL,
                             preexec_fn=lambda: __import__('resource').setrlimit(__import__('resource').RLIMIT_AS, (8 << 30, 8 << 30)))
        try:
            # feed cases one by one so a hang is attributed to the right case
            while i < len(cases):
                try:
                    p.stdin.write((json.dumps(cases[i]) + '\n').encode()); p.stdin.flush()
                except BrokenPipeError:
                    pass
                r, _, _ = select.select([p.stdout], [], [], per_case_timeout)
                if not r:
                    p.kill(); p.wait()
                    out[i] = {'hang': 'no result within %.0fs' % per_case_timeout}; i += 1
                    break
                line = p.stdout.readline()
                if not line:
                    p.wait()
                    out[i] = {'abort': 'process died with status %s' % p.returncode}; i += 1
                    break
                try: out[i] = json.loads(line)
                except ValueError: out[i] = {'bad_output': line.decode('utf-8', 'replace')[:200]}
                i += 1
        finally:
            if p.poll() is None:
                try: p.stdin.close()
                except Exception: pass
                try: p.wait(timeout=2)
                except Exception: p.kill()
    return out


def outcome(r):
    """coarse class of a native result"""
    for k in ('ok', 'err', 'panic', 'hang', 'abort'):
        if k in r: return k
    if 'enc_err' in r: return 'err'
    return 'other'


ASAN_TARGET = os.path.join(ROOT, '.cache', 'replay-asan')


def build_asan():
    """the same replay crate under AddressSanitizer + LeakSanitizer (nightly toolchain; std is not instrumented)"""
    lock = open(os.path.join(ROOT, '.cache', 'replay.lock'), 'w')
    fcntl.flock(lock, fcntl.LOCK_EX)
    try:
        env = dict(os.environ, CARGO_TARGET_DIR=ASAN_TARGET, CARGO_NET_OFFLINE='true', RUSTFLAGS='-Zsanitizer=address')
        p = subprocess.run(['cargo', '+nightly', 'build', '--offline', '--target', 'x86_64-unknown-linux-gnu'], cwd=os.path.join(ROOT, 'replay'), env=env,
                           stdout=subprocess.PIPE, stderr=subprocess.STDOUT)
        if p.returncode != 0:
            raise RuntimeError('ASan replay build failed:\n' + p.stdout.decode('utf-8', 'replace')[-4000:])
        return os.path.join(ASAN_TARGET, 'x86_64-unknown-linux-gnu', 'debug', 'verif-replay')
    finally:
        fcntl.flock(lock, fcntl.LOCK_UN); lock.close()


def run_asan(binary, cases, timeout=60):
    """one process for the whole batch -> (sanitizer verdict or None, stderr tail).  Verdict: 'leak', 'heap-use-after-free',
    'double-free', ... as named in the sanitizer's ERROR / SUMMARY line"""
    import re
    env = dict(os.environ, ASAN_OPTIONS='detect_leaks=1:abort_on_error=0:exitcode=23')
    try:
        p = subprocess.run([binary], input=''.join(json.dumps(c) + '\n' for c in cases).encode(), stdout=subprocess.PIPE, stderr=subprocess.PIPE, env=env, timeout=timeout)
    except subprocess.TimeoutExpired:
        return 'timeout', ''
    err = p.stderr.decode('utf-8', 'replace')
    m = re.search(r'ERROR: (?:AddressSanitizer|LeakSanitizer): ([\w-]+)', err)
    if m: return ('leak' if 'leak' in m.group(1) or 'detected' in m.group(1) else m.group(1)), err[-1500:]
    if 'LeakSanitizer: detected memory leaks' in err or 'byte(s) leaked' in err: return 'leak', err[-1500:]
    if p.returncode not in (0,): return 'exit %d' % p.returncode, err[-1500:]
    return None, ''
