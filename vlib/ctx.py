"""Run context shared by all checks: tiers, scratch, evidence, known findings, verdict."""
import os, json, time, tempfile, shutil, hashlib, subprocess, sys


class Inconclusive(Exception):
    pass


class Ctx:
    def __init__(s, pid, tier, seed, root, jobs=16, only=None):
        s.pid = pid; s.tier = tier; s.seed = seed; s.root = root; s.jobs = jobs; s.only = only
        s.repo = os.environ.get('VERIF_REPO', '/repo')
        s.t0 = time.time()
        s.cache = os.path.join(root, '.cache')
        os.makedirs(s.cache, exist_ok=True)
        os.makedirs(os.path.join(root, 'evidence'), exist_ok=True)
        os.makedirs(os.path.join(root, 'replays'), exist_ok=True)
        base = '/var/tmp' if os.path.isdir('/var/tmp') else tempfile.gettempdir()
        s.scratch = tempfile.mkdtemp(prefix='verif-%s-' % pid, dir=base)
        s.findings = []
        try:
            with open(os.path.join(root, 'known_findings.json')) as f:
                kf = json.load(f)
            s.findings = [e for e in kf.get('findings', []) if e.get('property') == pid and e.get('status', 'open') == 'open']
        except FileNotFoundError:
            pass
        s.known_hits = {}       # key -> what
        s.violations = []       # (key, what, replay path)
        s.inconclusive = []
        s.level = 'model_checking'
        s.cov = {'states': 0, 'transitions': 0, 'traces_validated_against_impl': 0, 'samples': [],
                 'queries': 0, 'solver_s': 0.0, 'functions_encoded': [], 'bounds': {}, 'models_used': [],
                 'engines': []}
        s.assumptions = []
        s.obl = {}              # name -> dict(status, ...)

    # ---------- bookkeeping
    def quick(s):
        return s.tier == 'quick'

    def want(s, name):
        return s.only is None or name in s.only

    def add_sample(s, x, limit=12):
        if len(s.cov['samples']) < limit:
            s.cov['samples'].append(x)

    def add_functions(s, names):
        cur = set(s.cov['functions_encoded']); cur.update(names)
        s.cov['functions_encoded'] = sorted(cur)

    def add_models(s, names):
        cur = set(s.cov['models_used']); cur.update(names)
        s.cov['models_used'] = sorted(cur)

    def assume(s, text):
        if text not in s.assumptions:
            s.assumptions.append(text)

    def obligation(s, name, status, **kw):
        """status: held | violated | known | inconclusive"""
        d = dict(name=name, status=status); d.update(kw)
        s.obl[name] = d

    def note_inconclusive(s, what):
        s.inconclusive.append(what)

    # ---------- findings
    def known(s, key):
        for e in s.findings:
            if e.get('key') == key:
                return e
        return None

    def report(s, key, what, case=None):
        """A natively reproduced violation.  Listed => KNOWN-FINDING, else VIOLATION."""
        e = s.known(key)
        if e is not None:
            if key not in s.known_hits:
                s.known_hits[key] = what
            return 'known'
        for k, _, _ in s.violations:
            if k == key:
                return 'dup'
        path = os.path.join(s.root, 'replays', '%s-%s.json' % (s.pid, hashlib.sha1(key.encode()).hexdigest()[:10]))
        with open(path, 'w') as f:
            json.dump({'property': s.pid, 'key': key, 'what': what, 'case': case}, f, indent=1, default=str)
        s.violations.append((key, what, path))
        return 'new'

    # ---------- end of run
    def write_evidence(s):
        cov = dict(s.cov)
        cov['obligation_list'] = list(s.obl.values())
        cov['obligations'] = len(s.obl)
        cov['discharged'] = sum(1 for o in s.obl.values() if o['status'] in ('held', 'known'))
        cov['inconclusive'] = s.inconclusive
        cov['known_findings_hit'] = sorted(s.known_hits)
        if cov['states'] < 1: cov['states'] = 0
        ev = {'property_id': s.pid, 'tier': s.tier, 'seed': s.seed, 'level': s.level, 'coverage': cov,
              'assumptions': s.assumptions, 'wall_s': round(time.time() - s.t0, 2),
              'violations': len(s.violations)}
        p = os.path.join(s.root, 'evidence', s.pid + '.json')
        with open(p + '.tmp', 'w') as f:
            json.dump(ev, f, indent=1, default=str)
        os.replace(p + '.tmp', p)

    def finish(s):
        s.write_evidence()
        for key in sorted(s.known_hits):
            print('KNOWN-FINDING: property=%s %s -- %s' % (s.pid, key, s.known_hits[key]))
        for e in s.findings:
            if e['key'] not in s.known_hits:
                print('note: listed finding %s did not reproduce on this run' % e['key'])
        for key, what, path in s.violations:
            print('violation detail: %s -- %s' % (key, what))
            print('VIOLATION property=%s replay=%s' % (s.pid, path))
        if s.violations:
            return 1
        if s.inconclusive:
            for i in s.inconclusive:
                print('INCONCLUSIVE property=%s %s' % (s.pid, i))
            return 2
        print('OK property=%s tier=%s states=%d queries=%d wall=%.1fs' % (
            s.pid, s.tier, s.cov['states'], s.cov['queries'], time.time() - s.t0))
        return 0

    def cleanup(s):
        shutil.rmtree(s.scratch, ignore_errors=True)

    # ---------- helpers
    def tree_hash(s):
        """hash of the sources the encodings are generated from (content, not mtime)"""
        h = hashlib.sha256()
        paths = []
        for base in ('src',):
            for dp, dn, fn in os.walk(os.path.join(s.repo, base)):
                dn.sort()
                for f in sorted(fn):
                    paths.append(os.path.join(dp, f))
        for f in ('Cargo.toml', 'Cargo.lock'):
            paths.append(os.path.join(s.repo, f))
        for p in paths:
            try:
                with open(p, 'rb') as f:
                    h.update(p.encode()); h.update(b'\0'); h.update(f.read()); h.update(b'\0')
            except FileNotFoundError:
                pass
        return h.hexdigest()[:20]
