"""./check <ID> [--tier quick|thorough] [--replay file]

Exit codes: 0 held (or only listed findings), 1 VIOLATION (natively reproduced,
not listed), 2 inconclusive / machinery error (never reported as a pass).
"""
import sys, os, json, time, argparse, importlib, traceback

HERE = os.path.dirname(os.path.abspath(__file__))
ROOT = os.path.dirname(HERE)
sys.path.insert(0, ROOT)

from vlib.ctx import Ctx, Inconclusive  # noqa: E402


def main():
    ap = argparse.ArgumentParser()
    ap.add_argument('prop')
    ap.add_argument('--tier', default=os.environ.get('VERIF_TIER') or 'quick', choices=['quick', 'thorough'])
    ap.add_argument('--replay', default=None)
    ap.add_argument('--only', default=None, help='comma separated obligation names (debugging; evidence says so)')
    ap.add_argument('--jobs', type=int, default=int(os.environ.get('VERIF_JOBS', '16')))
    a = ap.parse_args()
    try:
        seed = int(os.environ.get('VERIF_SEED', '0') or 0)
    except ValueError:
        seed = 0
    pid = a.prop.upper()
    ctx = Ctx(pid, a.tier, seed, ROOT, jobs=a.jobs, only=a.only.split(',') if a.only else None)
    try:
        mod = importlib.import_module('props.' + pid)
    except ModuleNotFoundError as e:
        print('no check for', pid, e)
        return 2
    rc = 2
    try:
        if a.replay:
            rc = mod.replay(ctx, a.replay)
        else:
            mod.run(ctx)
            rc = ctx.finish()
    except Inconclusive as e:
        print('INCONCLUSIVE property=%s %s' % (pid, e))
        ctx.note_inconclusive(str(e))
        ctx.write_evidence()
        rc = 2
    except Exception:
        traceback.print_exc()
        print('INCONCLUSIVE property=%s internal error' % pid)
        rc = 2
    finally:
        ctx.cleanup()
    return rc


if __name__ == '__main__':
    sys.exit(main())
